//! usage: pgv-miri <shard> <inputs>
//! Drives pgcat's message decoders/encoders, startup parameter parser, error parser, statement
//! cache and sharder with hostile byte strings. Panics are caught and counted by location (the
//! property allows the sender to be disconnected); undefined behaviour makes Miri abort the run.

use bytes::{BufMut, BytesMut};
use pgcat::messages::{parse_params, parse_startup, Bind, Close, Describe, Parse, PgErrorMsg};
use std::collections::BTreeMap;
use std::convert::TryFrom;
use std::panic::{catch_unwind, AssertUnwindSafe};
use std::sync::Mutex;

static PANICS: Mutex<BTreeMap<String, u64>> = Mutex::new(BTreeMap::new());

struct Rng(u64);
impl Rng {
    fn next(&mut self) -> u64 {
        self.0 = self.0.wrapping_add(0x9e3779b97f4a7c15);
        let mut z = self.0;
        z = (z ^ (z >> 30)).wrapping_mul(0xbf58476d1ce4e5b9);
        z = (z ^ (z >> 27)).wrapping_mul(0x94d049bb133111eb);
        z ^ (z >> 31)
    }
    fn below(&mut self, n: u64) -> u64 {
        self.next() % n.max(1)
    }
}

fn framed(typ: u8, body: &[u8], lie: i32) -> BytesMut {
    let mut b = BytesMut::new();
    b.put_u8(typ);
    b.put_i32(body.len() as i32 + 4 + lie);
    b.put_slice(body);
    b
}

fn cstr_p(rng: &mut Rng, num: u64) -> Vec<u8> {
    // terminated unless rng.below(num) == 0
    let t = rng.below(num) != 0;
    cstr(rng, t)
}

fn cstr(rng: &mut Rng, terminate: bool) -> Vec<u8> {
    let n = rng.below(12) as usize;
    let mut v: Vec<u8> = (0..n).map(|_| 1 + (rng.next() % 255) as u8).collect();
    if terminate {
        v.push(0);
    }
    v
}

fn body_for(rng: &mut Rng, typ: u8) -> Vec<u8> {
    let mut b = vec![];
    let wild = rng.below(4) == 0;
    match typ {
        b'P' => {
            let t0 = !wild || rng.below(2) == 0;
            b.extend(cstr(rng, t0));
            b.extend(cstr_p(rng, 5));
            let n = match rng.below(6) { 0 => -1i16, 1 => 30000, _ => rng.below(4) as i16 };
            b.extend_from_slice(&n.to_be_bytes());
            for _ in 0..rng.below(4) {
                b.extend_from_slice(&(rng.next() as i32).to_be_bytes());
            }
        }
        b'B' => {
            b.extend(cstr_p(rng, 6));
            b.extend(cstr_p(rng, 6));
            let nf = match rng.below(6) { 0 => -1i16, 1 => 20000, _ => rng.below(3) as i16 };
            b.extend_from_slice(&nf.to_be_bytes());
            for _ in 0..rng.below(3) {
                b.extend_from_slice(&(rng.below(3) as i16).to_be_bytes());
            }
            let np = match rng.below(6) { 0 => -1i16, 1 => 20000, _ => rng.below(3) as i16 };
            b.extend_from_slice(&np.to_be_bytes());
            for _ in 0..rng.below(3) {
                let l = match rng.below(5) { 0 => -1i32, 1 => 1_000_000, _ => rng.below(6) as i32 };
                b.extend_from_slice(&l.to_be_bytes());
                for _ in 0..rng.below(6) {
                    b.push(rng.next() as u8);
                }
            }
            b.extend_from_slice(&(rng.below(3) as i16).to_be_bytes());
        }
        b'D' | b'C' => {
            if rng.below(6) != 0 {
                b.push(if rng.below(2) == 0 { b'S' } else { b'P' });
            }
            b.extend(cstr_p(rng, 5));
        }
        _ => {
            for _ in 0..rng.below(20) {
                b.push(rng.next() as u8);
            }
        }
    }
    if rng.below(8) == 0 {
        b.truncate(rng.below(b.len() as u64 + 1) as usize);
    }
    b
}

fn guarded<F: FnOnce()>(what: &str, f: F) {
    if catch_unwind(AssertUnwindSafe(f)).is_err() {
        *PANICS.lock().unwrap().entry(what.to_string()).or_insert(0) += 1;
    }
}

fn main() {
    let args: Vec<String> = std::env::args().collect();
    let shard: u64 = args.get(1).and_then(|s| s.parse().ok()).unwrap_or(0);
    let inputs: u64 = args.get(2).and_then(|s| s.parse().ok()).unwrap_or(60);
    std::panic::set_hook(Box::new(|_| {}));
    let mut rng = Rng(shard.wrapping_mul(0x2545F4914F6CDD1D) ^ 0xC11);
    let mut round_trips = 0u64;
    for i in 0..inputs {
        let typ = [b'P', b'B', b'D', b'C'][(i % 4) as usize];
        let body = body_for(&mut rng, typ);
        let lie = match rng.below(6) { 0 => -3, 1 => 7, _ => 0 };
        let msg = framed(typ, &body, lie);
        match typ {
            b'P' => guarded("Parse::try_from", || {
                let _ = Parse::get_name(&msg);
                if let Ok(p) = Parse::try_from(&msg) {
                    let _ = p.get_hash();
                    let _ = p.anonymous();
                    let renamed = p.clone().rewrite();
                    if let Ok(bytes) = BytesMut::try_from(&renamed) {
                        // what we encode must decode again
                        let _ = Parse::try_from(&bytes);
                    }
                }
            }),
            b'B' => guarded("Bind::try_from/rename", || {
                let _ = Bind::get_name(&msg);
                let _ = Bind::try_from(&msg).map(|b| {
                    let _ = b.anonymous();
                    let _ = BytesMut::try_from(b);
                });
                let _ = Bind::rename(msg.clone(), "PGCAT_12345");
            }),
            b'D' => guarded("Describe::try_from", || {
                if let Ok(d) = Describe::try_from(&msg) {
                    let _ = d.anonymous();
                    let d2 = d.rename("PGCAT_7");
                    let _ = BytesMut::try_from(d2);
                }
            }),
            _ => guarded("Close::try_from", || {
                if let Ok(c) = Close::try_from(&msg) {
                    let _ = c.is_prepared_statement();
                    let _ = c.anonymous();
                    let _ = BytesMut::try_from(c);
                }
            }),
        }
        round_trips += 1;
        // startup parameters and error messages
        if i % 3 == 0 {
            let mut raw = BytesMut::new();
            for _ in 0..rng.below(5) {
                raw.put_slice(&cstr_p(&mut rng, 6));
            }
            if rng.below(3) != 0 {
                raw.put_u8(0);
            }
            guarded("parse_params", || {
                let _ = parse_params(raw.clone());
                let _ = parse_startup(raw.clone());
            });
            let mut e = vec![];
            for _ in 0..rng.below(5) {
                e.push(*[b'S', b'V', b'C', b'M', b'D', b'P', 0xffu8, b'x'].get(rng.below(8) as usize).unwrap());
                e.extend(cstr_p(&mut rng, 6));
            }
            if rng.below(3) != 0 {
                e.push(0);
            }
            guarded("PgErrorMsg::parse", || {
                let _ = PgErrorMsg::parse(&e);
            });
        }
    }
    // pool-level statement cache and sharder
    guarded("PreparedStatementCache", || {
        let mut cache = pgcat::pool::PreparedStatementCache::new((shard % 3) as usize);
        for k in 0..40u64 {
            let body = {
                let mut b = vec![];
                b.extend_from_slice(format!("s{}\0", k % 5).as_bytes());
                b.extend_from_slice(format!("select {}\0", k % 7).as_bytes());
                b.extend_from_slice(&0i16.to_be_bytes());
                b
            };
            if let Ok(p) = Parse::try_from(&framed(b'P', &body, 0)) {
                let h = p.get_hash();
                let a = cache.get_or_insert(&p, h);
                let _ = a.name.len();
                cache.promote(&h);
            }
        }
    });
    guarded("Sharder", || {
        for n in [1usize, 2, 3, 5, 64] {
            for f in [pgcat::sharding::ShardingFunction::PgBigintHash, pgcat::sharding::ShardingFunction::Sha1] {
                let s = pgcat::sharding::Sharder::new(n, f);
                for k in [0i64, 1, -1, i64::MIN, i64::MAX, 1 << 32, -(1 << 31)] {
                    assert!(s.shard(k) < n);
                }
            }
        }
    });
    let p = PANICS.lock().unwrap();
    let sites: Vec<String> = p.iter().map(|(k, v)| format!("\"{}\":{}", k, v)).collect();
    println!("{{\"shard\":{},\"inputs\":{},\"round_trips\":{},\"panics\":{{{}}}}}", shard, inputs, round_trips, sites.join(","));
}
