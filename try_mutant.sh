#!/bin/bash
# usage: try_mutant.sh <patch.diff> <tier> <Cnn> [Cnn...]
# Applies a seeded change to /repo, runs the named checks, and ALWAYS restores /repo.
PATCH="$(readlink -f "$1")"; TIER="$2"; shift 2
cd /repo || exit 2
if ! git diff --quiet; then echo "/repo is not clean"; exit 2; fi
git apply "$PATCH" || { echo "patch does not apply"; exit 2; }
trap 'git -C /repo checkout -- . ; echo "[/repo restored]"' EXIT
cd /verif
for p in "$@"; do
  out=$(PGV_VERIF_ROOT=/tmp/pgv-mutant timeout 1800 ./check $p $TIER 2>&1); rc=$?
  echo "== $p rc=$rc $(echo "$out" | grep -E "^$p $TIER" | cut -c1-140)"
  echo "$out" | grep -E "BUILD-FAILED|INCONCLUSIVE|signature:" | sort | uniq -c | sort -rn | head -8
done
