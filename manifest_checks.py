add("C01","exploration",
    "Held on every execution produced: hundreds (quick) to thousands (thorough) of multi-client scenarios against the real pgcat binary, each checked by an ownership scan of every mock server session, per-transaction session affinity and per-row reply identity. Sampling of schedules, not enumeration.",
    "Trusted: mock backend's PostgreSQL protocol/transaction rules (DESIGN 2.2); unique statement tags for attribution; the schedules actually produced (jitter hooks + small pools).",
    "runtime monitoring: wire-level event log + offline ownership/affinity oracle", "DESIGN.md 5 C01")
add("C02","exploration",
    "Held on every (prefix x stop mode x cache x pool mode) case and every hand-over of a generated workload: the mock's own session state at the first message of the next client is clean and that client's probe gets exactly its own reply.",
    "Trusted: mock session-state semantics (GUC transactionality, COPY sub-protocol, prepared statements) follow PostgreSQL as documented in DESIGN 2.2; SET inside a transaction block is out of the property's scope.",
    "runtime monitoring: state snapshot at hand-over on mock backend + probe client", "DESIGN.md 5 C02")
add("C03","exploration",
    "Held on every request produced: thousands of requests of 14 generated kinds, about 1 GB of bytes compared per quick run, byte equality in both directions per request with random write segmentation on both sides.",
    "Trusted: the harness's own framing parser and the mock's per-request grouping; caching/plugins/custom commands are off so the permitted-difference set is empty; TLS dimensions not exercised.",
    "runtime monitoring: differential byte comparison at client and mock boundaries", "DESIGN.md 5 C03")
add("C04","exploration",
    "Held on every scenario produced: sweep-line bound over the mock's per-session working intervals, quiescent admin/mocks comparison, capacity probe with pool_size simultaneous transactions, client usability after pool errors; with injected server faults (close mid-reply, listener down).",
    "Trusted: mock busy-interval bookkeeping; only sessions carrying client work are counted against pool_size; schedules are sampled.",
    "runtime monitoring: interval-overlap oracle on mock log + admin console at quiescence + capacity probe", "DESIGN.md 5 C04")
add("C09","exploration",
    "Held on every login attempt produced (thousands quick, ~190k thorough incl. TLS): AuthenticationOk only for configured (database,user) pairs with the correct MD5 answer to this connection's salt, for cleartext and auth_query secrets, trust pool and admin database; nothing sent by a never-authenticated client reached a mock; logins during drain refused except admin.",
    "Trusted: harness MD5 (RFC 1321 vectors in unit tests); mock serves the pg_shadow row for auth_query; SCRAM towards clients does not exist in pgcat.",
    "runtime monitoring: wire-level login outcomes vs reference MD5 + mock traffic log", "DESIGN.md 5 C09")
add("C16","exploration",
    "Held on every PAUSE/RESUME cycle produced (about 1000 cycles and 9000 held requests per quick run): no request sent after a PAUSE reply reached a server before RESUME was issued, every held client completed after RESUME, no request failed; jitter hook inside wait_paused widens the lost-wake-up window and evidence counts how often a client entered wait_paused while a RESUME was in flight.",
    "Trusted: CLOCK_MONOTONIC shared by harness threads and mock threads; schedules sampled, not enumerated.",
    "runtime monitoring: happens-before oracle over client send / mock arrival / admin reply timestamps", "DESIGN.md 5 C16")
add("C10","exploration",
    "Held on every cancel produced: scripted phases (valid key while running, idle keys, stale key while another client runs on the same server connection, random keys, disconnected client's key, key used right after the transaction ended with and without a slow cleanup round trip) and concurrent cancel storms; oracle joins CancelRequest packets logged by the mock (target session and what it was running) with the harness's cancel log.",
    "Trusted: mock cancel handling (a CancelRequest interrupts only a statement that is running, as PostgreSQL ignores cancels while idle); timing windows are sampled with a jitter hook before release().",
    "runtime monitoring: CancelRequest log at mock backends joined with harness cancel log", "DESIGN.md 5 C10")
add("C17","exploration",
    "Held on every shutdown scenario produced (one real pgcat process each): idle clients get the administrator-command error, in-flight transactions with work that fits the timeout complete with correct rows, late non-admin logins are refused and admin logins admitted, process exits promptly once clients have left / within the bound / immediately on SIGTERM (waitpid in the parent).",
    "Trusted: 'Got SIGINT' log line is used only to order login attempts after the signal was processed; session-mode clients are outside the property's wording.",
    "runtime monitoring: parent-side waitpid + per-population client observations", "DESIGN.md 5 C17")
add("C12","exploration",
    "Held on every snapshot statement produced (thousands per run): the mock backend's client_encoding/DateStyle/TimeZone/standard_conforming_strings/application_name at the statement equal what the client had been told in ParameterStatus, for values with quotes, backslashes, semicolons, comments, non-ASCII and long values, across hand-overs between clients with different settings; startup values are told back unchanged.",
    "Trusted: mock GUC semantics (DESIGN 2.2) store values verbatim; SETs inside transaction blocks are not generated.",
    "runtime monitoring: GUC snapshot on mock backend per statement vs client-side ParameterStatus ledger", "DESIGN.md 5 C12")
add("C18","exploration",
    "Held on every quiescent point produced (hundreds per run): SHOW CLIENTS equals the harness ledger of connected clients (each once, right identity, idle), SHOW POOLS client/server counts add up and match the backend's open sessions, SHOW SERVERS/LISTS consistent, SHOW STATS totals equal the mock backend's count of client transactions and requests and never decrease; clients leave by Terminate, FIN, RST, FIN mid-transaction, malformed messages (decoder panics).",
    "Trusted: harness ledger and mock counters; comparisons only at quiescence (two identical consecutive samples) because pgcat's counters are relaxed atomics; statement caching off.",
    "runtime monitoring: admin console rows vs harness ledger and mock counters at quiescent points", "DESIGN.md 5 C18")
add("C07","fault_enumeration",
    "Held on every fault script produced: random scripts over {down, accept-and-hang, hang on query, health-check hang, close mid-reply, slow, admin BAN/UNBAN} against 1-3 replicas with looping clients of every role request, judged with happens-before margins on the mock log, client outcomes and latencies, pgcat's ban/checkout hook events and SHOW BANS samples; scripted leg for BAN/UNBAN/unban-all/expiry/primary-never-banned.",
    "Trusted: ban and checkout hook events as happens-before anchors (verdict-bearing facts are still client outcomes and mock arrivals); an error is excused only if the statement's server had a fault or no candidate had been continuously healthy; ban-expiry liveness is restated as bounded progress (80 eligible transactions); a scenario during which a responsiveness probe of the pooler took 100 ms or longer (machine overloaded) counts as not observed, its alarms are counted in the evidence, not reported.",
    "runtime monitoring with fault injection: mock log + hook anchors + admin console, happens-before oracle", "DESIGN.md 5 C07")
add("C20","fault_enumeration",
    "Held on every scenario produced: the same seeded client program run with 1-2 mirrors under a random mirror fault schedule (down, accept-and-hang/close, hang on query, slow, trickling replies, close/hang mid-reply, error replies) and without mirrors gives identical client-visible replies; latency verdicts are taken only from isolated re-runs; every mirror session's inbound traffic embeds as whole messages, in order, into one session of the mirrored server.",
    "Trusted: latency criterion 10x no-mirror latency + 250 ms, confirmed in >=2 of 4 isolated runs; backend identity fields masked in the differential comparison.",
    "runtime monitoring with fault injection: differential replies/latency + subsequence embedding of mirror traffic", "DESIGN.md 5 C20")
add("C05","exploration",
    "Held on every statement produced: millions of grammar-assembled messages per run at library level (generator knows the label by construction; only parser-accepted input is judged) under every default_role x primary_reads x session override x message type, and thousands of tagged statements on the wire judged by the role label of the receiving mock, incl. explicit SET SERVER ROLE and the no-substitute rule.",
    "Trusted: the generator's read / not-a-read labels for its own small grammar; functions with side effects are outside the property; lib leg is inconclusive if pgv-lib no longer builds against the pgcat crate (wire leg still decides).",
    "runtime monitoring: generated-input oracle on QueryRouter + wire-level routing labels", "DESIGN.md 5 C05")
add("C06","exploration",
    "Held on everything explored: Sharder::shard equals an independent transcription of PostgreSQL's hash partitioning for 2^24 (quick) or all 2^32 (thorough: exhaustive on that sub-space) values of the 32-bit word the hash consumes x 10 shard counts, random 64-bit keys and boundaries; every key-delivery path agrees; on the wire statements land on the mock of the reference shard, selection sticks, out-of-range SET SHARD refused.",
    "Trusted base: the reference transcription of hashint8extended / hash_combine64, anchored only by the repo's shipped PostgreSQL-derived vectors (no PostgreSQL server in the sandbox); agreement on negative keys / high halves rests on the transcription of the fold.",
    "runtime monitoring: differential against reference implementation (lib) + shard labels on the wire", "DESIGN.md 5 C06")
add("C13","exploration",
    "Held on every string produced: 10^6 (quick) / 10^8 (thorough) strings and command sequences over the command vocabulary against a hand-written three-valued reference recogniser and state machine (panics caught), plus wire sessions checking reply framing, SHOW agreement, byte-identical forwarding of non-commands and absence of command text at the mocks.",
    "Trusted: the reference recogniser's must-accept / must-reject / don't-care partition (README's documented spellings); commands inside transactions or in session mode are not asserted.",
    "runtime monitoring: reference-model oracle on try_execute_command + wire-level framing and mock log", "DESIGN.md 5 C13")
add("C19","exploration",
    "Held, apart from six listed known findings, on every statement produced: grammar-generated statements with relation slots over listed/unlisted/substring/alias-only names x 8 spellings x ~20 positions at library level, and 11 positions x 10 spellings on the wire over simple and extended protocol, inside and outside transactions, with plugins on and off; denied statements never reach a mock and get the permission error; intercept rules return exactly the configured rows.",
    "Trusted: generator labels; PostgreSQL identifier folding rules as encoded in the generator; mixed multi-statement messages for intercept are don't-care. Known findings: DROP TABLE / GRANT / COMMENT ON positions, FROM ONLY and statements hidden behind SHOW / COPY FROM STDIN (parser limitations).",
    "runtime monitoring: generated-input oracle on execute_plugins + mock log / client replies", "DESIGN.md 5 C19")
add("C14","exploration",
    "Held on every reload produced: 11 old/new config variants x 3 triggers (admin RELOAD, SIGHUP, autoreload), several repetitions each, with looping clients on every pool, a transaction straddling the reload per pool and late clients of added pools; judged by the generation label of the mock serving each tagged statement relative to the end of the reload, by session-close events of unchanged pools and by SHOW CONFIG / SHOW DATABASES before/after for invalid files.",
    "Trusted: reload.end hook event / RELOAD reply as the 'afterwards' anchor; validate_config=false in generated files; general-only changes are only checked for not disturbing pools.",
    "runtime monitoring: generation-labelled mocks + happens-before on reload completion", "DESIGN.md 5 C14")
add("C15","exploration",
    "Held on every generated configuration (800 quick / 8000 thorough, one fresh pgcat each): files with a listed unservable defect are rejected at start-up; every accepted file passes a servability sweep (every selectable shard x role x user, default shard, admin commands incl. BAN/UNBAN) against mocks labelled pool.shardkey.role without panics, refusals or misrouting.",
    "Trusted: the generator's defect classes for its own bounded grammar; acceptance is judged at start-up (reload acceptance is covered by C14's invalid variants).",
    "runtime monitoring: accept/reject vs generator class + servability sweep on labelled mocks", "DESIGN.md 5 C15")
add("C11","exploration",
    "Held on every hostile case produced (1440 quick / 24000 thorough): 7 protocol states x 55 mutations of startup packets, frames, bodies and message order; after each case pgcat is alive, a canary on the shared pool_size=1 pool gets its own correct reply on a clean session, a canary on a second pool is served while the attacker is still connected, capacity and admin console are intact.",
    "Trusted: canary/probe oracles reuse C02's cleanliness and C04's capacity probe; declared lengths above 64 MiB are outside the verdict (RSS is reported); sender-confined panics are allowed by the property and only catalogued.",
    "runtime monitoring: hostile-input injection with liveness + canary + capacity oracles", "DESIGN.md 5 C11")
add("C08","exploration",
    "Held, apart from one listed known finding (cache size 1 with two Parses in one batch), on every Execute produced (about 12000 per quick run): the text and parameter types the mock actually ran (resolved through its own statement/portal tables) equal what the same client most recently prepared under that name, across server connections, cache sizes 1-500, shared names between clients, near-colliding statement encodings, Close+Parse in one batch, Describe and Close; one server-side name never stands for two statements.",
    "Trusted: mock's statement/portal tables; per-client direct-connection model; re-Parse without Close is don't-care; 64-bit hash collisions of the cache key are not explored.",
    "runtime monitoring: per-client reference model vs statement text executed at the mock backend", "DESIGN.md 5 C08")
