#!/bin/bash
# regenerate src/main.rs from the repository's main.rs without the jemalloc global allocator
REPO="${PGV_REPO:-/repo}"
sed -e '/^extern crate/d' -e '/jemallocator/d' -e '/^#\[global_allocator\]/d' -e '/^static GLOBAL: Jemalloc/d' \
    -e '/^#\[cfg(not(target_env = "msvc"))\]$/d' "$REPO/src/main.rs" > /verif/harness-nightly/src/main.rs
