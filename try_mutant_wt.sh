#!/bin/bash
# usage: try_mutant_wt.sh <worktree-with-change-applied> <Cnn> [Cnn...]
# Builds pgcat (+hooks) from a scratch worktree into that worktree's own target dir and runs the
# wire legs of the named checks against that binary, without touching /repo or /verif/target
# (so it can run while other checks are running). The library-level legs (C05/C06/C13/C19) still
# link /repo and therefore test the unchanged tree: use try_mutant.sh for changes they should see.
WT="$(readlink -f "$1")"; shift
HARNESS_BIN="${PGV_HARNESS_BIN:-/verif/harness/target/release/pgv}"
( cd "$WT" && CARGO_NET_OFFLINE=true cargo build --release --offline --features verif_hooks --bin pgcat --target-dir "$WT/target" ) > "$WT/build-mutant.log" 2>&1 || { echo "mutant does not build (see $WT/build-mutant.log)"; exit 2; }
for p in "$@"; do
  out=$(PGV_PGCAT_BIN="$WT/target/release/pgcat" PGV_KNOWN_FINDINGS=/verif/known_findings.json PGV_VERIF_ROOT=/tmp/pgv-mutant-wt PGV_RUN_DIR=/tmp/pgv-mutant-wt/run timeout 1800 "$HARNESS_BIN" $p quick 2>&1); rc=$?
  echo "== $p rc=$rc $(echo "$out" | grep -E "^$p quick" | cut -c1-140)"
  echo "$out" | grep -E "INCONCLUSIVE|signature:" | sort | uniq -c | sort -rn | head -8
done
