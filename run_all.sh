#!/bin/bash
# Runs every property's check at the given tier and prints one summary line each.
TIER="${1:-quick}"
cd /verif
fail=0
for p in C01 C02 C03 C04 C05 C06 C07 C08 C09 C10 C11 C12 C13 C14 C15 C16 C17 C18 C19 C20; do
  s=$(date +%s)
  out=$(./check $p $TIER 2>&1); rc=$?
  e=$(( $(date +%s) - s ))
  echo "$p rc=$rc ${e}s $(echo "$out" | grep -E "^$p $TIER" | cut -c1-160)"
  echo "$out" | grep -E "^VIOLATION|^INCONCLUSIVE|BUILD-FAILED" | head -5
  [ $rc -ne 0 ] && fail=1
done
exit $fail
