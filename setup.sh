#!/bin/bash
# Offline setup after a fresh restore: build pgcat (+hooks) and the harness.
set -e
cd /verif
export CARGO_NET_OFFLINE=true
mkdir -p target run evidence
cargo build --release --offline --features verif_hooks --bin pgcat --manifest-path /repo/Cargo.toml --target-dir /verif/target/rel 2>&1 | tail -2
cargo build --release --offline --manifest-path /verif/harness/Cargo.toml 2>&1 | tail -2
