#!/bin/bash
# Offline setup after a fresh restore: build pgcat (+hooks) and the harness.
set -e
cd /verif
export CARGO_NET_OFFLINE=true
mkdir -p target run evidence
if [ ! -s fixtures/tls/cert.pem ]; then
  mkdir -p fixtures/tls
  openssl req -x509 -newkey rsa:2048 -nodes -keyout fixtures/tls/key.pem -out fixtures/tls/cert.pem -days 3650 -subj "/CN=localhost" -addext "subjectAltName=DNS:localhost,IP:127.0.0.1" >/dev/null 2>&1 || echo "TLS fixture generation failed (TLS dimensions will be skipped)"
fi
cargo build --release --offline --features verif_hooks --bin pgcat --manifest-path /repo/Cargo.toml --target-dir /verif/target/rel 2>&1 | tail -2
cargo build --release --offline --manifest-path /verif/harness/Cargo.toml 2>&1 | tail -2
cargo build --release --offline --manifest-path /verif/harness-lib/Cargo.toml --target-dir /verif/target/lib 2>&1 | tail -2
