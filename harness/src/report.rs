//! Verdicts, known findings, evidence files.

use crate::util::now_ns;
use serde_json::{json, Value};
use std::collections::{BTreeMap, BTreeSet, HashSet};
use std::sync::Mutex;

#[derive(Clone, Debug)]
pub struct Violation {
    pub signature: String,
    pub description: String,
    pub witness: Value,
}

pub struct Report {
    pub prop: String,
    pub tier: String,
    pub seed: u64,
    pub level: String,
    pub rule: String,
    pub t0: u64,
    inner: Mutex<Inner>,
}

#[derive(Default)]
struct Inner {
    evaluations: u64,
    distinct: HashSet<u64>,
    samples: Vec<Value>,
    counters: BTreeMap<String, u64>,
    sets: BTreeMap<String, BTreeSet<String>>,
    violations: Vec<Violation>,
    seen_sigs: BTreeMap<String, u64>,
    inconclusive: Vec<String>,
    assumptions: Vec<String>,
    extra: BTreeMap<String, Value>,
    extra_distinct: u64,
}

thread_local! {
    static PENDING: std::cell::RefCell<Option<Vec<Violation>>> = std::cell::RefCell::new(None);
}

pub fn verif_root() -> String {
    std::env::var("PGV_VERIF_ROOT").unwrap_or("/verif".into())
}

pub fn seed_from_env() -> u64 {
    std::env::var("VERIF_SEED")
        .ok()
        .and_then(|s| s.parse::<u64>().ok())
        .unwrap_or(1)
}

impl Report {
    pub fn new(prop: &str, tier: &str, level: &str, rule: &str) -> Report {
        Report {
            prop: prop.into(),
            tier: tier.into(),
            seed: seed_from_env(),
            level: level.into(),
            rule: rule.into(),
            t0: now_ns(),
            inner: Mutex::new(Inner::default()),
        }
    }
    pub fn thorough(&self) -> bool {
        self.tier == "thorough"
    }
    pub fn eval(&self, n: u64) {
        self.inner.lock().unwrap().evaluations += n;
    }
    /// count a distinct non-trivial case by hash
    pub fn distinct(&self, h: u64) {
        self.inner.lock().unwrap().distinct.insert(h);
    }
    /// distinct cases measured by a sub-tool over a disjoint case space
    pub fn add_distinct_count(&self, n: u64) {
        self.inner.lock().unwrap().extra_distinct += n;
    }
    pub fn distinct_str(&self, s: &str) {
        self.distinct(crate::util::fnv(s.as_bytes()));
    }
    pub fn count(&self, k: &str, n: u64) {
        *self
            .inner
            .lock()
            .unwrap()
            .counters
            .entry(k.to_string())
            .or_insert(0) += n;
    }
    pub fn max(&self, k: &str, n: u64) {
        let mut g = self.inner.lock().unwrap();
        let e = g.counters.entry(k.to_string()).or_insert(0);
        if n > *e {
            *e = n;
        }
    }
    pub fn get(&self, k: &str) -> u64 {
        *self.inner.lock().unwrap().counters.get(k).unwrap_or(&0)
    }
    /// record membership in a named set (reported as its size plus a few members)
    pub fn set_add(&self, set: &str, member: &str) {
        self.inner
            .lock()
            .unwrap()
            .sets
            .entry(set.to_string())
            .or_default()
            .insert(member.to_string());
    }
    pub fn set_len(&self, set: &str) -> usize {
        self.inner
            .lock()
            .unwrap()
            .sets
            .get(set)
            .map(|s| s.len())
            .unwrap_or(0)
    }
    pub fn sample(&self, v: Value) {
        let mut g = self.inner.lock().unwrap();
        if g.samples.len() < 6 {
            g.samples.push(v);
        }
    }
    pub fn assume(&self, s: &str) {
        let mut g = self.inner.lock().unwrap();
        if !g.assumptions.iter().any(|a| a == s) {
            g.assumptions.push(s.to_string());
        }
    }
    pub fn extra(&self, k: &str, v: Value) {
        self.inner.lock().unwrap().extra.insert(k.to_string(), v);
    }
    pub fn inconclusive(&self, why: &str) {
        let mut g = self.inner.lock().unwrap();
        if g.inconclusive.len() < 50 {
            g.inconclusive.push(why.to_string());
        }
        *g.counters.entry("inconclusive_scenarios".into()).or_insert(0) += 1;
    }
    pub fn violation(&self, signature: &str, description: &str, witness: Value) {
        // Sanitizer legs decide memory safety and data races only: the instrumented binary is 4-7x
        // slower, which the behavioural oracles (timeouts, latencies, pool health) are not
        // calibrated for; those are decided by the regular leg on the uninstrumented binary.
        if std::env::var("PGV_SAN_LEG").is_ok() && !signature.contains("|sanitizer_report|") {
            self.count("behavioural_alarms_under_sanitizer_not_judged", 1);
            return;
        }
        let buffered = PENDING.with(|p| {
            if let Some(v) = p.borrow_mut().as_mut() {
                v.push(Violation { signature: signature.to_string(), description: description.to_string(), witness: witness.clone() });
                true
            } else {
                false
            }
        });
        if buffered {
            return;
        }
        let mut g = self.inner.lock().unwrap();
        let n = g.seen_sigs.entry(signature.to_string()).or_insert(0);
        *n += 1;
        if *n == 1 {
            g.violations.push(Violation {
                signature: signature.to_string(),
                description: description.to_string(),
                witness,
            });
        }
    }
    /// Runs one scenario whose oracles compare the pooler against its own real-time limits (health
    /// check / connect / statement timeouts of a few hundred ms). Alarms raised by the calling thread
    /// are held back until the scenario is over and are issued only if the machine did not delay the
    /// pooler or the harness meanwhile: a responsiveness probe (admin `SHOW VERSION` every 15 ms on
    /// every pooler the scenario starts) never took PROBE_MS or longer and no harness thread woke up
    /// STALL_MS late. Otherwise the scenario counts as not observed
    /// (`scenarios_not_judged_machine_overloaded`); its alarms are counted, not reported.
    pub fn realtime_scenario<F: FnOnce() -> Result<(), String>>(&self, f: F) -> Result<(), String> {
        const PROBE_MS: u64 = 100;
        const STALL_MS: u64 = 80;
        PENDING.with(|p| *p.borrow_mut() = Some(vec![]));
        crate::pgcat::rt_probes_begin();
        let t0 = now_ns();
        let r = f();
        let t1 = now_ns();
        let probe = crate::pgcat::rt_probes_end();
        let stall = crate::util::max_stall_ms(t0, t1);
        self.max("max_responsiveness_probe_ms_in_a_scenario", probe);
        self.count(&format!("scenarios_probe_ms_{}", match probe { 0..=4 => "0_4", 5..=19 => "5_19", 20..=49 => "20_49", 50..=199 => "50_199", _ => "200_up" }), 1);
        let held = PENDING.with(|p| p.borrow_mut().take()).unwrap_or_default();
        let overloaded = probe >= PROBE_MS || stall >= STALL_MS;
        if overloaded && std::env::var("PGV_JUDGE_UNDER_LOAD").is_err() {
            self.count("scenarios_not_judged_machine_overloaded", 1);
            self.count("alarms_withheld_machine_overloaded", held.len() as u64);
        } else {
            for v in held {
                self.violation(&v.signature, &v.description, v.witness);
            }
        }
        r
    }
    pub fn violation_count(&self) -> usize {
        self.inner.lock().unwrap().violations.len()
    }

    /// Write evidence + replay files, print verdict lines, return the exit code.
    /// `min_checks`: (counter name, minimum) pairs for non-vacuity.
    pub fn finish(&self, min_checks: &[(&str, u64)]) -> i32 {
        // sanitizer leg: every report printed by a pgcat instance of this run is a violation
        if let Ok(leg) = std::env::var("PGV_SAN_LEG") {
            let reports: Vec<_> = crate::pgcat::SAN_REPORTS.lock().unwrap().drain(..).collect();
            self.count(&format!("sanitizer_{}_instances_watched", leg), crate::pgcat::SAN_INSTANCES.load(std::sync::atomic::Ordering::SeqCst));
            self.count(&format!("sanitizer_{}_reports", leg), reports.len() as u64);
            for (kind, func, block) in reports {
                if func.starts_with("reclaim-by-arc-swap:") {
                    // ThreadSanitizer does not model the SeqCst fences arc-swap's debt protocol
                    // relies on: the release of the previous value in ArcSwap::store is reported
                    // against readers that held a Guard (DESIGN.md section 3)
                    self.count("tsan_reports_on_arc_swap_reclamation_not_modelled_by_tsan", 1);
                    self.set_add("tsan_arc_swap_reclamation_sites", &func);
                    continue;
                }
                if func.starts_with("truncated:") {
                    self.count("sanitizer_reports_cut_off_by_process_exit_not_classified", 1);
                    continue;
                }
                self.violation(
                    &format!("{}|sanitizer_report|{}|at={}", self.prop, kind, func),
                    &format!("{} report from pgcat while running the {} workload: {}", kind, self.prop, block.first().cloned().unwrap_or_default()),
                    serde_json::json!({"report": block}),
                );
            }
        }
        self.max("max_machine_stall_ms", crate::util::max_stall_ms(0, u64::MAX));
        let skipped = crate::cell::JOBS_SKIPPED.load(std::sync::atomic::Ordering::SeqCst) as u64;
        if skipped > 0 {
            self.count("scenarios_skipped_time_budget_used_up", skipped);
        }
        let g = self.inner.lock().unwrap();
        let root = verif_root();
        let known = load_known(&root, &self.prop);
        let mut new_violations = vec![];
        let mut known_hits: BTreeMap<String, (String, u64)> = BTreeMap::new();
        for v in &g.violations {
            if let Some(k) = known.iter().find(|k| sig_matches(&k.0, &v.signature)) {
                known_hits.insert(
                    k.0.clone(),
                    (k.1.clone(), *g.seen_sigs.get(&v.signature).unwrap_or(&1)),
                );
            } else {
                new_violations.push(v.clone());
            }
        }
        for (sig, (desc, n)) in &known_hits {
            println!(
                "KNOWN-FINDING: property={} {} [{}; seen {}x this run]",
                self.prop, desc, sig, n
            );
        }
        let mut code = 0;
        std::fs::create_dir_all(format!("{}/replay", root)).ok();
        for (i, v) in new_violations.iter().enumerate() {
            let path = format!(
                "{}/replay/{}-{}-seed{}-{}.json",
                root, self.prop, self.tier, self.seed, i
            );
            let body = json!({
                "property": self.prop,
                "signature": v.signature,
                "description": v.description,
                "seed": self.seed,
                "tier": self.tier,
                "witness": v.witness,
            });
            std::fs::write(&path, serde_json::to_string_pretty(&body).unwrap()).ok();
            println!("VIOLATION property={} replay={}", self.prop, path);
            println!("  signature: {}", v.signature);
            println!("  {}", v.description);
            code = 1;
        }
        let mut vacuous = vec![];
        for (k, min) in min_checks {
            let have = *g.counters.get(*k).unwrap_or(&0);
            if have < *min {
                vacuous.push(format!("{}={} < {}", k, have, min));
            }
        }
        if code == 0 && !vacuous.is_empty() {
            println!(
                "INCONCLUSIVE property={} coverage below minimum: {}",
                self.prop,
                vacuous.join(", ")
            );
            for w in g.inconclusive.iter().take(10) {
                println!("  inconclusive scenario: {}", w);
            }
            code = 2;
        }
        let wall = (now_ns() - self.t0) as f64 / 1e9;
        let mut coverage = serde_json::Map::new();
        coverage.insert("evaluations".into(), json!(g.evaluations.max(1)));
        coverage.insert("distinct_nontrivial".into(), json!(g.distinct.len() as u64 + g.extra_distinct));
        coverage.insert("rule".into(), json!(self.rule));
        let samples = if g.samples.is_empty() {
            vec![json!("no sample recorded")]
        } else {
            g.samples.clone()
        };
        coverage.insert("samples".into(), json!(samples));
        coverage.insert("counters".into(), json!(g.counters));
        let mut sets = serde_json::Map::new();
        for (k, s) in &g.sets {
            sets.insert(
                k.clone(),
                json!({"size": s.len(), "members": s.iter().take(40).collect::<Vec<_>>()}),
            );
        }
        coverage.insert("observed_sets".into(), Value::Object(sets));
        coverage.insert(
            "known_findings_seen".into(),
            json!(known_hits.keys().collect::<Vec<_>>()),
        );
        coverage.insert("inconclusive_notes".into(), json!(g.inconclusive.iter().take(10).collect::<Vec<_>>()));
        for (k, v) in &g.extra {
            coverage.insert(k.clone(), v.clone());
        }
        let ev = json!({
            "property_id": self.prop,
            "tier": self.tier,
            "seed": self.seed,
            "level": self.level,
            "coverage": Value::Object(coverage),
            "assumptions": g.assumptions,
            "wall_s": wall,
            "violations": new_violations.len(),
            "verdict": match code { 0 => "held on what was observed", 1 => "violated", _ => "inconclusive" },
        });
        std::fs::create_dir_all(format!("{}/evidence", root)).ok();
        let path = format!("{}/evidence/{}.json", root, self.prop);
        std::fs::write(&path, serde_json::to_string_pretty(&ev).unwrap()).ok();
        println!(
            "{} {} seed={} evaluations={} distinct={} violations={} known={} wall={:.1}s -> exit {}",
            self.prop,
            self.tier,
            self.seed,
            g.evaluations,
            g.distinct.len(),
            new_violations.len(),
            known_hits.len(),
            wall,
            code
        );
        let mut keys: Vec<_> = g.counters.iter().collect();
        keys.sort();
        for (k, v) in keys {
            println!("  {} = {}", k, v);
        }
        code
    }
}

/// open known findings for a property: (signature pattern, description)
fn load_known(root: &str, prop: &str) -> Vec<(String, String)> {
    // the committed file next to the checker, whatever scratch root the evidence goes to
    let path = std::env::var("PGV_KNOWN_FINDINGS").unwrap_or_else(|_| format!("{}/known_findings.json", root));
    let mut out = vec![];
    if let Ok(text) = std::fs::read_to_string(path) {
        if let Ok(v) = serde_json::from_str::<Value>(&text) {
            if let Some(arr) = v.get("open").and_then(|x| x.as_array()) {
                for e in arr {
                    if e.get("property").and_then(|x| x.as_str()) == Some(prop) {
                        out.push((
                            e.get("signature")
                                .and_then(|x| x.as_str())
                                .unwrap_or("")
                                .to_string(),
                            e.get("description")
                                .and_then(|x| x.as_str())
                                .unwrap_or("")
                                .to_string(),
                        ));
                    }
                }
            }
        }
    }
    out
}

/// Exact match only: known findings are keyed on exact signatures.
fn sig_matches(pattern: &str, sig: &str) -> bool {
    pattern == sig
}
