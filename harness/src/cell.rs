//! A cell: mocks + one pgcat under test + shared event log. Plus a parallel job runner.

use crate::evlog::Log;
use crate::mock::Mock;
use crate::pgcat::{Cfg, Pgcat, ServerCfg, StartErr, StartOpts};
use std::net::Ipv4Addr;
use std::sync::atomic::{AtomicUsize, Ordering};
use std::sync::Arc;

pub struct Cell {
    pub log: Arc<Log>,
    pub mocks: Vec<Mock>,
    pub pg: Option<Pgcat>,
}

impl Cell {
    pub fn new() -> Cell {
        Cell {
            log: Log::new(),
            mocks: vec![],
            pg: None,
        }
    }
    /// Add a mock backend; each gets its own loopback address (admin BAN matches by host).
    pub fn add_mock(&mut self, label: &str) -> usize {
        let idx = self.mocks.len();
        let ip = Ipv4Addr::new(127, 0, (idx / 200) as u8, (2 + idx % 200) as u8);
        self.mocks
            .push(Mock::start(idx, label, ip, self.log.clone()));
        idx
    }
    pub fn server(&self, idx: usize, role: &str) -> ServerCfg {
        ServerCfg {
            host: self.mocks[idx].host(),
            port: self.mocks[idx].port,
            role: role.into(),
        }
    }
    pub fn labels(&self) -> Vec<String> {
        self.mocks.iter().map(|m| m.label.clone()).collect()
    }
    pub fn start_pgcat(&mut self, cfg: &Cfg, opts: &StartOpts) -> Result<(), StartErr> {
        self.pg = Some(Pgcat::start(cfg, opts)?);
        Ok(())
    }
    pub fn pg(&mut self) -> &mut Pgcat {
        self.pg.as_mut().unwrap()
    }
    pub fn addr(&self) -> String {
        self.pg.as_ref().unwrap().addr()
    }
    pub fn mock_by_label(&self, label: &str) -> Option<&Mock> {
        self.mocks.iter().find(|m| m.label == label)
    }
    pub fn total_live_sessions(&self) -> usize {
        self.mocks.iter().map(|m| m.ctl.live_sessions()).sum()
    }
}

impl Default for Cell {
    fn default() -> Self {
        Cell::new()
    }
}

impl Drop for Cell {
    fn drop(&mut self) {
        // stop pgcat first so mocks see EOFs rather than the other way round
        self.pg = None;
    }
}

pub fn workers() -> usize {
    std::env::var("PGV_WORKERS")
        .ok()
        .and_then(|s| s.parse().ok())
        .unwrap_or_else(|| {
            std::thread::available_parallelism()
                .map(|n| n.get())
                .unwrap_or(8)
        })
}

pub static JOBS_SKIPPED: AtomicUsize = AtomicUsize::new(0);

/// Run `n_jobs` jobs on `n_workers` threads; `f(job_index)`.
pub fn run_parallel<F>(n_jobs: usize, n_workers: usize, f: F)
where
    F: Fn(usize) + Send + Sync,
{
    let next = AtomicUsize::new(0);
    // every run is capped in time: once the budget (from process start) is used up no new scenario
    // is started; what was skipped is reported in the evidence and the verdict is taken on what ran
    let thorough = std::env::args().any(|a| a == "thorough");
    let budget_ns = std::env::var("PGV_TIME_BUDGET_S").ok().and_then(|v| v.parse::<u64>().ok()).unwrap_or(if thorough { 4500 } else { 480 }) * 1_000_000_000;
    std::thread::scope(|s| {
        for w in 0..n_workers.max(1).min(n_jobs.max(1)) {
            let next = &next;
            let f = &f;
            std::thread::Builder::new()
                .name(format!("cell-{}", w))
                .spawn_scoped(s, move || loop {
                    let i = next.fetch_add(1, Ordering::SeqCst);
                    if i >= n_jobs {
                        break;
                    }
                    if crate::util::now_ns().saturating_sub(crate::util::process_t0()) > budget_ns {
                        JOBS_SKIPPED.fetch_add(1, Ordering::SeqCst);
                        continue;
                    }
                    f(i);
                })
                .unwrap();
        }
    });
}
