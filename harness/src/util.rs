//! Small utilities: monotonic clock shared with pgcat's hook events, deterministic PRNG,
//! md5 helpers, hashing.

use std::time::Duration;

static PROCESS_T0: std::sync::OnceLock<u64> = std::sync::OnceLock::new();

/// Monotonic time of the first call (main calls it at start).
pub fn process_t0() -> u64 {
    *PROCESS_T0.get_or_init(now_ns)
}

/// CLOCK_MONOTONIC nanoseconds (same clock as pgcat's verif hook events).
pub fn now_ns() -> u64 {
    let mut ts = libc::timespec {
        tv_sec: 0,
        tv_nsec: 0,
    };
    unsafe {
        libc::clock_gettime(libc::CLOCK_MONOTONIC, &mut ts);
    }
    (ts.tv_sec as u64) * 1_000_000_000 + ts.tv_nsec as u64
}

pub fn ms(n: u64) -> Duration {
    Duration::from_millis(n)
}

pub fn sleep_ms(n: u64) {
    std::thread::sleep(Duration::from_millis(n));
}

/// splitmix64 / xoshiro-like deterministic generator. No wall-clock dependence.
#[derive(Clone, Debug)]
pub struct Rng {
    s: u64,
}

impl Rng {
    pub fn new(seed: u64) -> Rng {
        Rng {
            s: seed ^ 0x9e3779b97f4a7c15,
        }
    }
    pub fn derive(&mut self, salt: u64) -> Rng {
        Rng::new(self.next() ^ salt.wrapping_mul(0xd6e8feb86659fd93))
    }
    pub fn next(&mut self) -> u64 {
        self.s = self.s.wrapping_add(0x9e3779b97f4a7c15);
        let mut z = self.s;
        z = (z ^ (z >> 30)).wrapping_mul(0xbf58476d1ce4e5b9);
        z = (z ^ (z >> 27)).wrapping_mul(0x94d049bb133111eb);
        z ^ (z >> 31)
    }
    /// uniform in [0, n)
    pub fn below(&mut self, n: u64) -> u64 {
        if n == 0 {
            0
        } else {
            self.next() % n
        }
    }
    /// uniform in [lo, hi]
    pub fn range(&mut self, lo: u64, hi: u64) -> u64 {
        lo + self.below(hi - lo + 1)
    }
    pub fn chance(&mut self, num: u64, den: u64) -> bool {
        self.below(den) < num
    }
    pub fn pick<'a, T>(&mut self, xs: &'a [T]) -> &'a T {
        &xs[self.below(xs.len() as u64) as usize]
    }
    pub fn shuffle<T>(&mut self, xs: &mut [T]) {
        for i in (1..xs.len()).rev() {
            let j = self.below(i as u64 + 1) as usize;
            xs.swap(i, j);
        }
    }
}

pub fn md5_hex(data: &[u8]) -> String {
    use md5::{Digest, Md5};
    let mut h = Md5::new();
    h.update(data);
    let out = h.finalize();
    out.iter().map(|b| format!("{:02x}", b)).collect()
}

/// PostgreSQL md5 password response: "md5" + md5(md5(password + user) + salt), NUL terminated.
pub fn md5_password_response(user: &str, password: &str, salt: &[u8]) -> Vec<u8> {
    let first = md5_hex(format!("{}{}", password, user).as_bytes());
    md5_second_pass(&first, salt)
}

pub fn md5_second_pass(first_hex: &str, salt: &[u8]) -> Vec<u8> {
    let mut buf = first_hex.as_bytes().to_vec();
    buf.extend_from_slice(salt);
    let second = md5_hex(&buf);
    let mut out = b"md5".to_vec();
    out.extend_from_slice(second.as_bytes());
    out.push(0);
    out
}

/// FNV-1a, for counting distinct things cheaply.
pub fn fnv(data: &[u8]) -> u64 {
    let mut h: u64 = 0xcbf29ce484222325;
    for b in data {
        h ^= *b as u64;
        h = h.wrapping_mul(0x100000001b3);
    }
    h
}

pub fn hex_prefix(data: &[u8], max: usize) -> String {
    let mut s = String::new();
    for b in data.iter().take(max) {
        s.push_str(&format!("{:02x}", b));
    }
    if data.len() > max {
        s.push_str(&format!("..(+{})", data.len() - max));
    }
    s
}

/// Printable rendering of protocol bytes for witnesses.
pub fn printable(data: &[u8], max: usize) -> String {
    let mut s = String::new();
    for b in data.iter().take(max) {
        if (0x20..0x7f).contains(b) && *b != b'\\' {
            s.push(*b as char);
        } else {
            s.push_str(&format!("\\x{:02x}", b));
        }
    }
    if data.len() > max {
        s.push_str(&format!("..(+{})", data.len() - max));
    }
    s
}

#[cfg(test)]
mod t {
    use super::*;
    #[test]
    fn md5_rfc1321() {
        assert_eq!(md5_hex(b""), "d41d8cd98f00b204e9800998ecf8427e");
        assert_eq!(md5_hex(b"abc"), "900150983cd24fb0d6963f7d28e17f72");
        assert_eq!(
            md5_hex(b"message digest"),
            "f96b697d7cb7938d525a2f31aaf161d0"
        );
    }
}


// ------------------------------------------------------------------------------------------------
// Machine-stall monitor. Several oracles compare what the pooler did against ITS OWN real-time
// limits (health-check / connect / statement timeouts of a few hundred ms). When the machine is so
// loaded that a thread which asked to sleep 5 ms wakes up 150 ms late, the pooler's timeouts fire
// for reasons that have nothing to do with the servers' health. Such stretches are recorded here,
// and verdicts that depend on real time are not issued for them (they count as not observed).
static STALLS: std::sync::Mutex<Vec<(u64, u64)>> = std::sync::Mutex::new(Vec::new());
static PRESSURE: std::sync::Mutex<Vec<(u64, u64)>> = std::sync::Mutex::new(Vec::new());
static MONITOR_STARTED: std::sync::atomic::AtomicBool = std::sync::atomic::AtomicBool::new(false);

pub fn start_stall_monitor() {
    if MONITOR_STARTED.swap(true, std::sync::atomic::Ordering::SeqCst) {
        return;
    }
    std::thread::Builder::new()
        .name("stall-monitor".into())
        .spawn(|| loop {
            let t0 = now_ns();
            std::thread::sleep(std::time::Duration::from_millis(5));
            let dt = now_ns() - t0;
            {
                // machine-wide CPU pressure (PSI): cumulative microseconds during which at least one
                // runnable task was waiting for a CPU
                let mut p = PRESSURE.lock().unwrap();
                if p.last().map(|l| t0 - l.0 >= 50_000_000).unwrap_or(true) {
                    if let Some(total) = std::fs::read_to_string("/proc/pressure/cpu").ok().and_then(|s| {
                        s.lines().next().and_then(|l| l.split("total=").nth(1).and_then(|v| v.trim().parse::<u64>().ok()))
                    }) {
                        p.push((now_ns(), total));
                        let n = p.len();
                        if n > 200_000 {
                            p.drain(..n - 100_000);
                        }
                    }
                }
            }
            if dt > 40_000_000 {
                let mut g = STALLS.lock().unwrap();
                g.push((t0, dt - 5_000_000));
                let n = g.len();
                if n > 20_000 {
                    g.drain(..n - 10_000);
                }
            }
        })
        .ok();
}

/// Longest scheduling delay (ms) this process observed between t0 and t1 (monotonic ns).
pub fn max_stall_ms(t0: u64, t1: u64) -> u64 {
    STALLS.lock().unwrap().iter().filter(|(t, d)| *t + *d >= t0 && *t <= t1).map(|(_, d)| d / 1_000_000).max().unwrap_or(0)
}

/// Share of the interval t0..t1 (percent) during which some runnable task on the machine was waiting
/// for a CPU (Linux pressure-stall information); 0 if PSI is unavailable or the interval is too short.
pub fn cpu_pressure_pct(t0: u64, t1: u64) -> u64 {
    let p = PRESSURE.lock().unwrap();
    let a = p.iter().rev().find(|s| s.0 <= t0).or(p.first());
    let b = p.iter().rev().find(|s| s.0 <= t1);
    match (a, b) {
        (Some(a), Some(b)) if b.0 > a.0 + 100_000_000 => ((b.1 - a.1) * 1000 * 100 / (b.0 - a.0)).min(100),
        _ => 0,
    }
}
