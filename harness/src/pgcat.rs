//! pgcat under test: config generation and process management.

use crate::proto::Msg;
use crate::util::now_ns;
use crate::wire::{Conn, ConnErr, StartupOpts};
use std::collections::BTreeMap;
use std::io::{BufRead, BufReader};
use std::path::PathBuf;
use std::process::{Child, Command, ExitStatus, Stdio};
use std::sync::atomic::{AtomicU64, Ordering};
use std::sync::{Arc, Mutex};
use std::time::Duration;

#[derive(Clone, Debug)]
pub struct ServerCfg {
    pub host: String,
    pub port: u16,
    pub role: String,
}

#[derive(Clone, Debug)]
pub struct MirrorCfg {
    pub host: String,
    pub port: u16,
    pub target: usize,
}

#[derive(Clone, Debug)]
pub struct ShardCfg {
    pub id: String,
    pub database: String,
    pub servers: Vec<ServerCfg>,
    pub mirrors: Vec<MirrorCfg>,
}

#[derive(Clone, Debug)]
pub struct UserCfg {
    pub key: String,
    pub username: String,
    pub password: Option<String>,
    pub pool_size: u32,
    /// raw extra TOML lines (e.g. `statement_timeout = 150`)
    pub extra: Vec<String>,
}

impl UserCfg {
    pub fn new(username: &str, password: &str, pool_size: u32) -> UserCfg {
        UserCfg {
            key: "0".into(),
            username: username.into(),
            password: Some(password.into()),
            pool_size,
            extra: vec![],
        }
    }
}

#[derive(Clone, Debug)]
pub struct PoolCfg {
    pub name: String,
    /// raw TOML lines of simple pool settings (`pool_mode = "transaction"` ...)
    pub settings: BTreeMap<String, String>,
    pub shards: Vec<ShardCfg>,
    pub users: Vec<UserCfg>,
    /// raw TOML appended after the pool's simple settings (plugins etc.); must use full table paths
    pub raw_tables: String,
}

impl PoolCfg {
    pub fn new(name: &str) -> PoolCfg {
        let mut settings = BTreeMap::new();
        settings.insert("pool_mode".into(), "\"transaction\"".into());
        settings.insert("default_role".into(), "\"any\"".into());
        settings.insert("query_parser_enabled".into(), "false".into());
        settings.insert("primary_reads_enabled".into(), "true".into());
        settings.insert("sharding_function".into(), "\"pg_bigint_hash\"".into());
        PoolCfg {
            name: name.into(),
            settings,
            shards: vec![],
            users: vec![],
            raw_tables: String::new(),
        }
    }
    pub fn set(&mut self, k: &str, v: &str) -> &mut PoolCfg {
        self.settings.insert(k.into(), v.into());
        self
    }
    pub fn single(name: &str, user: &str, password: &str, pool_size: u32, servers: Vec<ServerCfg>) -> PoolCfg {
        let mut p = PoolCfg::new(name);
        p.shards.push(ShardCfg {
            id: "0".into(),
            database: "db0".into(),
            servers,
            mirrors: vec![],
        });
        p.users.push(UserCfg::new(user, password, pool_size));
        p
    }
}

#[derive(Clone, Debug)]
pub struct Cfg {
    pub general: BTreeMap<String, String>,
    pub pools: Vec<PoolCfg>,
    pub raw_tail: String,
}

pub const ADMIN_USER: &str = "admin_user";
pub const ADMIN_PASS: &str = "admin_pass";

impl Cfg {
    pub fn new() -> Cfg {
        let mut g = BTreeMap::new();
        g.insert("host".into(), "\"127.0.0.1\"".into());
        g.insert("admin_username".into(), format!("\"{}\"", ADMIN_USER));
        g.insert("admin_password".into(), format!("\"{}\"", ADMIN_PASS));
        g.insert("connect_timeout".into(), "1000".into());
        // generous unless a property is about this limit: on a loaded machine the pooler's own
        // round trips (health check, parameter sync) must not time out for lack of CPU
        g.insert("healthcheck_timeout".into(), "5000".into());
        g.insert("idle_timeout".into(), "600000".into());
        g.insert("healthcheck_delay".into(), "30000".into());
        g.insert("shutdown_timeout".into(), "5000".into());
        g.insert("ban_time".into(), "60".into());
        g.insert("worker_threads".into(), "4".into());
        g.insert("validate_config".into(), "false".into());
        g.insert("enable_prometheus_exporter".into(), "false".into());
        g.insert("log_client_connections".into(), "false".into());
        g.insert("log_client_disconnections".into(), "false".into());
        g.insert("server_round_robin".into(), "false".into());
        Cfg {
            general: g,
            pools: vec![],
            raw_tail: String::new(),
        }
    }
    pub fn gset(&mut self, k: &str, v: &str) -> &mut Cfg {
        self.general.insert(k.into(), v.into());
        self
    }
    pub fn to_toml(&self, port: u16) -> String {
        let mut s = String::from("[general]\n");
        s.push_str(&format!("port = {}\n", port));
        for (k, v) in &self.general {
            s.push_str(&format!("{} = {}\n", k, v));
        }
        for p in &self.pools {
            s.push_str(&format!("\n[pools.{}]\n", p.name));
            for (k, v) in &p.settings {
                s.push_str(&format!("{} = {}\n", k, v));
            }
            if !p.raw_tables.is_empty() {
                s.push_str(&p.raw_tables.replace("{POOL}", &p.name));
                s.push('\n');
            }
            for u in &p.users {
                s.push_str(&format!("\n[pools.{}.users.{}]\n", p.name, u.key));
                s.push_str(&format!("username = \"{}\"\n", u.username));
                if let Some(pw) = &u.password {
                    s.push_str(&format!("password = \"{}\"\n", pw));
                }
                s.push_str(&format!("pool_size = {}\n", u.pool_size));
                for e in &u.extra {
                    s.push_str(e);
                    s.push('\n');
                }
            }
            for sh in &p.shards {
                s.push_str(&format!("\n[pools.{}.shards.{}]\n", p.name, sh.id));
                s.push_str(&format!("database = \"{}\"\n", sh.database));
                s.push_str("servers = [");
                for (i, sv) in sh.servers.iter().enumerate() {
                    if i > 0 {
                        s.push_str(", ");
                    }
                    s.push_str(&format!("[\"{}\", {}, \"{}\"]", sv.host, sv.port, sv.role));
                }
                s.push_str("]\n");
                if !sh.mirrors.is_empty() {
                    s.push_str("mirrors = [");
                    for (i, m) in sh.mirrors.iter().enumerate() {
                        if i > 0 {
                            s.push_str(", ");
                        }
                        s.push_str(&format!("[\"{}\", {}, {}]", m.host, m.port, m.target));
                    }
                    s.push_str("]\n");
                }
            }
        }
        s.push_str(&self.raw_tail);
        s
    }
}

impl Default for Cfg {
    fn default() -> Self {
        Cfg::new()
    }
}

static RUN_SEQ: AtomicU64 = AtomicU64::new(0);

/// Sanitizer reports (ASan / TSan / LSan) printed by any pgcat instance of this process:
/// (kind, summary, first lines of the report). Filled when an instance is dropped.
pub static SAN_REPORTS: Mutex<Vec<(String, String, Vec<String>)>> = Mutex::new(Vec::new());
pub static SAN_INSTANCES: AtomicU64 = AtomicU64::new(0);

fn scan_sanitizer(lines: &[(u64, String)]) -> Vec<(String, String, Vec<String>)> {
    let mut out = vec![];
    let mut i = 0;
    while i < lines.len() {
        let l = &lines[i].1;
        let kind = if l.contains("ERROR: AddressSanitizer") {
            Some("asan")
        } else if l.contains("WARNING: ThreadSanitizer") {
            Some("tsan")
        } else if l.contains("ERROR: LeakSanitizer") {
            Some("lsan")
        } else {
            None
        };
        if let Some(k) = kind {
            // the whole report: up to its SUMMARY line (stack traces of both accesses, allocation, threads)
            let mut end = lines.len().min(i + 600);
            for (j, x) in lines[i..end].iter().enumerate() {
                if j > 0 && x.1.contains("SUMMARY:") {
                    end = i + j + 1;
                    break;
                }
            }
            let full: Vec<String> = lines[i..end].iter().map(|x| x.1.clone()).filter(|x| x.contains("[stderr]")).collect();
            // compact excerpt: headings, the innermost frames of every stack and every frame in the
            // workspace's own crates
            let block: Vec<String> = full
                .iter()
                .filter(|b| {
                    !b.contains("    #")
                        || b.contains("    #0 ")
                        || b.contains("    #1 ")
                        || b.contains("    #2 ")
                        || b.contains("/repo/src")
                        || b.contains("arc_swap")
                        || b.contains("arc-swap")
                        || b.contains("bb8")
                        || b.contains("mini_moka")
                        || b.contains("lru::")
                })
                .cloned()
                .collect();
            // first frame inside the workspace (pgcat / bb8 / lru / bytes / arc-swap / mini-moka), else SUMMARY
            let frame = block
                .iter()
                .find(|b| b.contains(" in ") && (b.contains("pgcat") || b.contains("bb8") || b.contains("lru") || b.contains("mini_moka") || b.contains("arc_swap") || b.contains("bytes::")))
                .or_else(|| block.iter().find(|b| b.contains("SUMMARY:")))
                .cloned()
                .unwrap_or_default();
            let mut func = frame.split(" in ").nth(1).unwrap_or(&frame).split(' ').next().unwrap_or("").to_string();
            if k == "tsan" {
                // class of a race report: the innermost frame in pgcat's own source of each of the two
                // access stacks; "reclaim-by-arc-swap" when the conflicting write is the release of
                // the previous value inside ArcSwap::store/swap/rcu
                let mut stacks: Vec<Vec<&String>> = vec![];
                for l in &full {
                    if l.contains(" of size ") || l.contains("Previous ") {
                        stacks.push(vec![]);
                    } else if l.contains("Thread T") || l.contains("Location is") || l.contains("Mutex M") {
                        stacks.push(vec![]); // not an access stack; keeps later frames out of the first two
                    } else if l.contains("    #") {
                        if let Some(st) = stacks.last_mut() {
                            st.push(l);
                        }
                    }
                }
                let site = |st: Option<&Vec<&String>>| -> String {
                    st.and_then(|v| v.iter().find(|f| f.contains("/repo/src/")))
                        .map(|f| {
                            let t = f.trim_start_matches("[stderr]").trim();
                            let name = t.split_whitespace().nth(1).unwrap_or("?");
                            name.split("::<").next().unwrap_or(name).chars().take(60).collect::<String>()
                        })
                        .unwrap_or_else(|| "outside_pgcat".into())
                };
                let w_is_free = stacks.first().map(|v| v.iter().take(3).any(|f| f.contains(" free ") || f.contains("dealloc"))).unwrap_or(false);
                // (ArcSwap::store/swap/rcu releasing the previous value, or the last Guard / HybridProtection being dropped)
                let via_arc_swap = stacks.first().map(|v| v.iter().any(|f| f.contains("arc_swap::"))).unwrap_or(false);
                let complete = full.iter().any(|l| l.contains("SUMMARY:"));
                func = if !complete {
                    // the instance was killed (end of its scenario) while the report was being printed
                    "truncated:".to_string()
                } else {
                    format!("{}{}~{}", if w_is_free && via_arc_swap { "reclaim-by-arc-swap:" } else { "" }, site(stacks.first()), site(stacks.get(1)))
                };
            }
            out.push((k.to_string(), func, block.into_iter().take(80).map(|l| l.chars().take(300).collect()).collect()));
            i = end.max(i + 1);
        } else {
            i += 1;
        }
    }
    out
}

pub fn run_root() -> PathBuf {
    let base = std::env::var("PGV_RUN_DIR").unwrap_or("/verif/run".into());
    let p = PathBuf::from(base).join(format!("{}", std::process::id()));
    std::fs::create_dir_all(&p).ok();
    p
}

pub fn pgcat_bin() -> String {
    std::env::var("PGV_PGCAT_BIN").unwrap_or("/verif/target/rel/release/pgcat".into())
}

#[derive(Debug)]
pub enum StartErr {
    /// process exited during start-up with this status; log attached
    Exited(Option<i32>, String),
    /// did not start listening in time
    Timeout(String),
    Spawn(String),
}

pub struct Pgcat {
    pub child: Child,
    pub port: u16,
    pub dir: PathBuf,
    pub cfg_path: PathBuf,
    pub events_path: PathBuf,
    pub lines: Arc<Mutex<Vec<(u64, String)>>>,
    pub exited: Option<ExitStatus>,
    pub t_spawn: u64,
}

thread_local! {
    static STARVATION: std::cell::Cell<(u64, u64)> = std::cell::Cell::new((0, 0));
}

thread_local! {
    static RT_PROBES: std::cell::RefCell<Option<Vec<Arc<std::sync::atomic::AtomicU64>>>> = std::cell::RefCell::new(None);
}

/// From now on every pooler this thread starts gets a responsiveness probe: an admin connection that
/// asks `SHOW VERSION` every 15 ms and remembers the longest round trip. It measures, end to end, how
/// long a trivial request takes through a harness thread, the loopback and a pooler task, i.e. how much
/// the machine delays both sides at that moment.
pub fn rt_probes_begin() {
    RT_PROBES.with(|p| *p.borrow_mut() = Some(vec![]));
}

/// Longest probe round trip (ms) over the poolers started by this thread since rt_probes_begin().
pub fn rt_probes_end() -> u64 {
    RT_PROBES.with(|p| p.borrow_mut().take()).unwrap_or_default().iter().map(|a| a.load(Ordering::SeqCst)).max().unwrap_or(0)
}

fn start_rt_probe(p: &Pgcat) {
    let slot = RT_PROBES.with(|r| {
        r.borrow_mut().as_mut().map(|v| {
            let a = Arc::new(std::sync::atomic::AtomicU64::new(0));
            v.push(a.clone());
            a
        })
    });
    if let Some(slot) = slot {
        let addr = p.addr();
        let _ = std::thread::Builder::new().name("rt-probe".into()).spawn(move || {
            let mut c = match Conn::connect(&addr, &StartupOpts::new(ADMIN_USER, "pgcat", ADMIN_PASS)) {
                Ok(c) => c,
                Err(_) => return,
            };
            while Arc::strong_count(&slot) > 1 {
                let t0 = now_ns();
                let r = c.query("SHOW VERSION", 5000);
                let ms = (now_ns() - t0) / 1_000_000;
                if r.is_ok() || ms >= 4900 {
                    slot.fetch_max(ms, Ordering::SeqCst);
                }
                if r.is_err() {
                    return;
                }
                std::thread::sleep(std::time::Duration::from_millis(15));
            }
        });
    }
}

/// (run-queue wait ms, lifetime ms) summed over the poolers this thread has dropped since the last call.
pub fn take_starvation() -> (u64, u64) {
    STARVATION.with(|c| c.replace((0, 0)))
}

pub fn free_port() -> u16 {
    // ports from a private range below the kernel's ephemeral range (32768..), derived from
    // pid + a process-wide counter (no two cells of one run get the same one); verified by binding
    for _ in 0..1000 {
        let n = RUN_SEQ.fetch_add(1, Ordering::SeqCst);
        let base = 20000 + ((std::process::id() as u64 * 131 + n * 7) % 12000) as u16;
        if let Ok(l) = std::net::TcpListener::bind(("127.0.0.1", base)) {
            drop(l);
            return base;
        }
    }
    panic!("no free port");
}

pub struct StartOpts {
    pub jitter: Option<String>,
    pub events: bool,
    pub log_level: String,
    pub wait_ms: u64,
}

impl Default for StartOpts {
    fn default() -> Self {
        StartOpts {
            jitter: None,
            events: true,
            log_level: std::env::var("PGV_LOG_LEVEL").unwrap_or("info".into()),
            wait_ms: 10_000,
        }
    }
}

impl Pgcat {
    pub fn start(cfg: &Cfg, opts: &StartOpts) -> Result<Pgcat, StartErr> {
        let mut last = None;
        for _attempt in 0..5 {
            let port = free_port();
            let toml = cfg.to_toml(port);
            match Pgcat::start_raw(&toml, port, opts) {
                Ok(p) => {
                    start_rt_probe(&p);
                    return Ok(p);
                }
                Err(StartErr::Exited(code, log)) => {
                    if log.contains("Listener socket error") {
                        last = Some(StartErr::Exited(code, log));
                        continue;
                    }
                    return Err(StartErr::Exited(code, log));
                }
                Err(e) => return Err(e),
            }
        }
        Err(last.unwrap())
    }

    /// Start with a literal TOML text (must contain the right port).
    pub fn start_raw(toml: &str, port: u16, opts: &StartOpts) -> Result<Pgcat, StartErr> {
        let n = RUN_SEQ.fetch_add(1, Ordering::SeqCst);
        let dir = run_root().join(format!("pgcat-{}-{}", port, n));
        std::fs::create_dir_all(&dir).map_err(|e| StartErr::Spawn(e.to_string()))?;
        let cfg_path = dir.join("pgcat.toml");
        std::fs::write(&cfg_path, toml).map_err(|e| StartErr::Spawn(e.to_string()))?;
        let events_path = dir.join("events.jsonl");
        let mut cmd = Command::new(pgcat_bin());
        cmd.arg(cfg_path.to_str().unwrap())
            .arg("--no-color")
            .arg("--log-level")
            .arg(&opts.log_level)
            .current_dir(&dir)
            .stdin(Stdio::null())
            .stdout(Stdio::piped())
            .stderr(Stdio::piped())
            .env_remove("RUST_LOG")
            .env("RUST_BACKTRACE", "0");
        if opts.events {
            cmd.env("PGCAT_VERIF_EVENTS", events_path.to_str().unwrap());
        }
        if let Some(j) = &opts.jitter {
            cmd.env("PGCAT_VERIF_JITTER", j);
        }
        // sanitizer runtimes reserve terabytes of shadow address space: no RLIMIT_AS there
        let cap_as = std::env::var("PGV_SAN_LEG").is_err();
        if !cap_as {
            cmd.env("ASAN_OPTIONS", "detect_leaks=0:halt_on_error=0:abort_on_error=0");
            cmd.env("TSAN_OPTIONS", "halt_on_error=0:report_signal_unsafe=0");
        }
        unsafe {
            use std::os::unix::process::CommandExt;
            cmd.pre_exec(move || {
                // die with the harness; cap address space at 8 GiB
                libc::prctl(libc::PR_SET_PDEATHSIG, libc::SIGKILL);
                if cap_as {
                    let lim = libc::rlimit {
                        rlim_cur: 8 << 30,
                        rlim_max: 8 << 30,
                    };
                    libc::setrlimit(libc::RLIMIT_AS, &lim);
                }
                Ok(())
            });
        }
        let t_spawn = now_ns();
        let mut child = cmd.spawn().map_err(|e| StartErr::Spawn(e.to_string()))?;
        let lines = Arc::new(Mutex::new(Vec::new()));
        for (is_err, pipe) in [
            (false, child.stdout.take().map(|p| Box::new(p) as Box<dyn std::io::Read + Send>)),
            (true, child.stderr.take().map(|p| Box::new(p) as Box<dyn std::io::Read + Send>)),
        ] {
            if let Some(p) = pipe {
                let lines2 = lines.clone();
                std::thread::spawn(move || {
                    let r = BufReader::new(p);
                    for l in r.lines() {
                        match l {
                            Ok(l) => {
                                let l = if is_err { format!("[stderr] {}", l) } else { l };
                                lines2.lock().unwrap().push((now_ns(), l));
                            }
                            Err(_) => break,
                        }
                    }
                });
            }
        }
        let mut p = Pgcat {
            child,
            port,
            dir,
            cfg_path,
            events_path,
            lines,
            exited: None,
            t_spawn,
        };
        let deadline = now_ns() + opts.wait_ms * 1_000_000;
        loop {
            if let Ok(Some(st)) = p.child.try_wait() {
                p.exited = Some(st);
                std::thread::sleep(Duration::from_millis(20));
                let log = p.log_text();
                return Err(StartErr::Exited(st.code(), log));
            }
            if std::net::TcpStream::connect_timeout(
                &format!("127.0.0.1:{}", port).parse().unwrap(),
                Duration::from_millis(200),
            )
            .is_ok()
            {
                // somebody listens on the port: make sure it is this child (another process may
                // have taken the port between the probe and the child's bind)
                std::thread::sleep(Duration::from_millis(15));
                if let Ok(Some(st)) = p.child.try_wait() {
                    p.exited = Some(st);
                    std::thread::sleep(Duration::from_millis(20));
                    return Err(StartErr::Exited(st.code(), p.log_text()));
                }
                if p.log_text().contains("Listener socket error") {
                    let _ = p.child.kill();
                    let st = p.child.wait().ok();
                    p.exited = st;
                    return Err(StartErr::Exited(st.and_then(|s| s.code()), p.log_text()));
                }
                return Ok(p);
            }
            if now_ns() > deadline {
                let log = p.log_text();
                return Err(StartErr::Timeout(log));
            }
            std::thread::sleep(Duration::from_millis(2));
        }
    }

    pub fn addr(&self) -> String {
        format!("127.0.0.1:{}", self.port)
    }

    pub fn log_text(&self) -> String {
        self.lines
            .lock()
            .unwrap()
            .iter()
            .map(|l| l.1.clone())
            .collect::<Vec<_>>()
            .join("\n")
    }

    pub fn log_tail(&self, n: usize) -> String {
        let g = self.lines.lock().unwrap();
        let s = g.len().saturating_sub(n);
        g[s..].iter().map(|l| l.1.clone()).collect::<Vec<_>>().join("\n")
    }

    /// `panicked at <location>` lines seen so far.
    pub fn panics(&self) -> Vec<String> {
        let g = self.lines.lock().unwrap();
        let mut out = vec![];
        for (_, l) in g.iter() {
            if let Some(i) = l.find("panicked at ") {
                out.push(l[i + 12..].trim().trim_end_matches(':').to_string());
            }
        }
        out
    }

    pub fn log_contains(&self, needle: &str) -> bool {
        self.lines.lock().unwrap().iter().any(|l| l.1.contains(needle))
    }

    pub fn log_count(&self, needle: &str) -> usize {
        self.lines
            .lock()
            .unwrap()
            .iter()
            .filter(|l| l.1.contains(needle))
            .count()
    }

    /// Wait until a log line containing `needle` appears after index `from`.
    pub fn wait_log(&self, needle: &str, from: usize, timeout_ms: u64) -> Option<u64> {
        let deadline = now_ns() + timeout_ms * 1_000_000;
        loop {
            {
                let g = self.lines.lock().unwrap();
                for (t, l) in g.iter().skip(from) {
                    if l.contains(needle) {
                        return Some(*t);
                    }
                }
            }
            if now_ns() > deadline {
                return None;
            }
            std::thread::sleep(Duration::from_millis(2));
        }
    }

    pub fn log_len(&self) -> usize {
        self.lines.lock().unwrap().len()
    }

    pub fn alive(&mut self) -> bool {
        if self.exited.is_some() {
            return false;
        }
        match self.child.try_wait() {
            Ok(Some(st)) => {
                self.exited = Some(st);
                false
            }
            _ => true,
        }
    }

    pub fn signal(&self, sig: i32) {
        unsafe {
            libc::kill(self.child.id() as i32, sig);
        }
    }

    pub fn wait_exit(&mut self, timeout_ms: u64) -> Option<(ExitStatus, u64)> {
        let deadline = now_ns() + timeout_ms * 1_000_000;
        loop {
            if let Some(st) = self.exited {
                return Some((st, now_ns()));
            }
            if let Ok(Some(st)) = self.child.try_wait() {
                self.exited = Some(st);
                return Some((st, now_ns()));
            }
            if now_ns() > deadline {
                return None;
            }
            std::thread::sleep(Duration::from_millis(1));
        }
    }

    pub fn admin(&self) -> Result<Conn, ConnErr> {
        Conn::connect(
            &self.addr(),
            &StartupOpts::new(ADMIN_USER, "pgcat", ADMIN_PASS),
        )
    }

    /// Read hook events recorded so far: (t_ns, kind, raw json line)
    pub fn events(&self) -> Vec<(u64, String, String)> {
        let mut out = vec![];
        if let Ok(text) = std::fs::read_to_string(&self.events_path) {
            for line in text.lines() {
                if let Ok(v) = serde_json::from_str::<serde_json::Value>(line) {
                    let t = v.get("t").and_then(|x| x.as_u64()).unwrap_or(0);
                    let k = v
                        .get("k")
                        .and_then(|x| x.as_str())
                        .unwrap_or("")
                        .to_string();
                    out.push((t, k, line.to_string()));
                }
            }
        }
        out
    }

    pub fn rewrite_config(&self, toml: &str) {
        // write-then-rename so a concurrent autoreload never sees a torn file
        let tmp = self.dir.join("pgcat.toml.tmp");
        std::fs::write(&tmp, toml).ok();
        std::fs::rename(&tmp, &self.cfg_path).ok();
    }

    /// CPU time (user + system) the pooler process has used so far, in ms.
    pub fn cpu_ms(&self) -> u64 {
        if let Ok(s) = std::fs::read_to_string(format!("/proc/{}/stat", self.child.id())) {
            // fields after the ")" that closes the command name: state is field 3, utime 14, stime 15
            if let Some(rest) = s.rsplit(')').next() {
                let f: Vec<&str> = rest.split_whitespace().collect();
                if f.len() > 13 {
                    let ticks: u64 = f[11].parse().unwrap_or(0) + f[12].parse::<u64>().unwrap_or(0);
                    let hz = unsafe { libc::sysconf(libc::_SC_CLK_TCK) }.max(1) as u64;
                    return ticks * 1000 / hz;
                }
            }
        }
        0
    }

    /// Time (ms) the pooler's threads spent runnable but waiting for a CPU (sum over its threads,
    /// /proc/<pid>/task/*/schedstat field 2): how much the machine starved the pooler.
    pub fn run_delay_ms(&self) -> u64 {
        let mut ns = 0u64;
        if let Ok(rd) = std::fs::read_dir(format!("/proc/{}/task", self.child.id())) {
            for e in rd.flatten() {
                if let Ok(s) = std::fs::read_to_string(e.path().join("schedstat")) {
                    ns += s.split_whitespace().nth(1).and_then(|v| v.parse::<u64>().ok()).unwrap_or(0);
                }
            }
        }
        ns / 1_000_000
    }

    pub fn rss_kb(&self) -> u64 {
        if let Ok(s) = std::fs::read_to_string(format!("/proc/{}/status", self.child.id())) {
            for l in s.lines() {
                if let Some(r) = l.strip_prefix("VmRSS:") {
                    return r.trim().trim_end_matches("kB").trim().parse().unwrap_or(0);
                }
            }
        }
        0
    }
}

impl Drop for Pgcat {
    fn drop(&mut self) {
        if std::env::var("PGV_SAN_LEG").is_ok() {
            SAN_INSTANCES.fetch_add(1, Ordering::SeqCst);
            let found = scan_sanitizer(&self.lines.lock().unwrap());
            if !found.is_empty() {
                SAN_REPORTS.lock().unwrap().extend(found);
            }
        }
        if self.alive() {
            let d = self.run_delay_ms();
            let w = (now_ns().saturating_sub(self.t_spawn)) / 1_000_000;
            STARVATION.with(|c| {
                let v = c.get();
                c.set((v.0 + d, v.1 + w));
            });
            let _ = self.child.kill();
        }
        let _ = self.child.wait();
        let _ = std::fs::remove_dir_all(&self.dir);
    }
}

/// Admin console: run a command, return (columns, rows, all messages).
pub fn admin_query(
    c: &mut Conn,
    sql: &str,
) -> Result<(Vec<String>, Vec<Vec<String>>, Vec<Msg>), String> {
    let msgs = c
        .query(sql, 10_000)
        .map_err(|(m, e)| format!("admin `{}` failed: {:?} after {}", sql, e, crate::wire::summarize(&m)))?;
    let mut cols = vec![];
    let mut rows = vec![];
    for m in &msgs {
        match m.typ {
            b'T' => cols = m.columns(),
            b'D' => rows.push(m.row_strings()),
            _ => {}
        }
    }
    Ok((cols, rows, msgs))
}

/// Rows as maps column -> value.
pub fn admin_rows(c: &mut Conn, sql: &str) -> Result<Vec<BTreeMap<String, String>>, String> {
    let (cols, rows, msgs) = admin_query(c, sql)?;
    if let Some((code, m)) = crate::wire::first_error(&msgs) {
        return Err(format!("admin `{}` error {} {}", sql, code, m));
    }
    Ok(rows
        .into_iter()
        .map(|r| cols.iter().cloned().zip(r.into_iter()).collect())
        .collect())
}
