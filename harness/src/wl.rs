//! Generic client workload: transaction plans over simple / extended / COPY protocol,
//! executed by scripted clients that record what they sent and received per step.

use crate::proto::{self, Msg};
use crate::sql::tag;
use crate::util::{now_ns, Rng};
use crate::wire::{Conn, ReadErr};

#[derive(Clone, Debug)]
pub enum StepKind {
    /// send `bytes`, read to ReadyForQuery
    Plain,
    /// send `bytes` (a COPY ... FROM STDIN query), expect CopyInResponse, then send chunks and finish
    CopyIn { chunks: Vec<Vec<u8>>, fail: bool },
}

#[derive(Clone, Debug)]
pub struct Step {
    pub qid: String,
    pub kind: StepKind,
    pub bytes: Vec<u8>,
    /// short description for witnesses ("simple", "batch", "copy_in", ...)
    pub what: String,
    /// number of ReadyForQuery messages that end this step (pipelined batches > 1)
    pub readies: usize,
    /// client-side write segmentation: cut offsets
    pub cuts: Vec<usize>,
}

impl Step {
    pub fn plain(qid: &str, what: &str, bytes: Vec<u8>) -> Step {
        Step {
            qid: qid.into(),
            kind: StepKind::Plain,
            bytes,
            what: what.into(),
            readies: 1,
            cuts: vec![],
        }
    }
}

#[derive(Clone, Debug, PartialEq, Eq)]
pub enum Outcome {
    Ok,
    /// pooler-generated error (SQLSTATE 58000) with message
    PoolerError(String),
    Eof,
    Timeout,
    Io(String),
}

#[derive(Clone, Debug)]
pub struct StepResult {
    pub qid: String,
    pub what: String,
    pub t_send: u64,
    pub t_done: u64,
    pub sent: Vec<u8>,
    pub recv: Vec<u8>,
    pub msgs: Vec<Msg>,
    pub status: u8,
    pub outcome: Outcome,
}

#[derive(Clone, Debug, Default)]
pub struct TxnResult {
    pub steps: Vec<StepResult>,
    pub kind: String,
}

#[derive(Clone, Debug, Default)]
pub struct ClientTrace {
    pub id: String,
    pub pid: i32,
    pub txns: Vec<TxnResult>,
    pub t_connect: u64,
    pub t_close: u64,
    pub connect_err: Option<String>,
    pub how_closed: String,
}

pub fn pooler_error(msgs: &[Msg]) -> Option<String> {
    for m in msgs {
        if m.typ == b'E' && m.err_code() == "58000" {
            return Some(m.err_message());
        }
    }
    None
}

/// Execute one step on a connection.
pub fn run_step(c: &mut Conn, step: &Step, timeout_ms: u64) -> StepResult {
    let mut res = StepResult {
        qid: step.qid.clone(),
        what: step.what.clone(),
        t_send: now_ns(),
        t_done: 0,
        sent: vec![],
        recv: vec![],
        msgs: vec![],
        status: 0,
        outcome: Outcome::Ok,
    };
    c.record = true;
    c.rx.clear();
    let send_res = if step.cuts.is_empty() {
        c.send(&step.bytes)
    } else {
        c.send_split(&step.bytes, &step.cuts, 50)
    };
    res.sent.extend_from_slice(&step.bytes);
    if let Err(e) = send_res {
        res.outcome = Outcome::Io(e.to_string());
        res.t_done = now_ns();
        return res;
    }
    let map_err = |e: ReadErr| match e {
        ReadErr::Eof => Outcome::Eof,
        ReadErr::Timeout => Outcome::Timeout,
        ReadErr::Io(s) => Outcome::Io(s),
    };
    match &step.kind {
        StepKind::Plain => {
            for _ in 0..step.readies {
                match c.read_until_ready(timeout_ms) {
                    Ok(m) => res.msgs.extend(m),
                    Err((m, e)) => {
                        res.msgs.extend(m);
                        res.outcome = map_err(e);
                        break;
                    }
                }
            }
        }
        StepKind::CopyIn { chunks, fail } => {
            match c.read_until_types(&[b'G', b'Z'], timeout_ms) {
                Ok(m) => {
                    let got_g = m.last().map(|x| x.typ == b'G').unwrap_or(false);
                    res.msgs.extend(m);
                    if got_g {
                        let mut buf = vec![];
                        for ch in chunks {
                            buf.extend_from_slice(&proto::copy_data(ch));
                        }
                        if *fail {
                            buf.extend_from_slice(&proto::copy_fail("scripted"));
                        } else {
                            buf.extend_from_slice(&proto::copy_done());
                        }
                        res.sent.extend_from_slice(&buf);
                        if let Err(e) = c.send(&buf) {
                            res.outcome = Outcome::Io(e.to_string());
                        } else {
                            match c.read_until_ready(timeout_ms) {
                                Ok(m) => res.msgs.extend(m),
                                Err((m, e)) => {
                                    res.msgs.extend(m);
                                    res.outcome = map_err(e);
                                }
                            }
                        }
                    }
                }
                Err((m, e)) => {
                    res.msgs.extend(m);
                    res.outcome = map_err(e);
                }
            }
        }
    }
    res.t_done = now_ns();
    res.recv = std::mem::take(&mut c.rx);
    c.record = false;
    if res.outcome == Outcome::Ok {
        if let Some(z) = res.msgs.iter().rev().find(|m| m.typ == b'Z') {
            res.status = z.body[0];
        }
        if let Some(e) = pooler_error(&res.msgs) {
            res.outcome = Outcome::PoolerError(e);
        }
    }
    res
}

pub fn run_txn(c: &mut Conn, kind: &str, steps: &[Step], timeout_ms: u64) -> TxnResult {
    let mut out = TxnResult {
        steps: vec![],
        kind: kind.to_string(),
    };
    for s in steps {
        let r = run_step(c, s, timeout_ms);
        let stop = r.outcome != Outcome::Ok;
        out.steps.push(r);
        if stop {
            break;
        }
    }
    out
}

#[derive(Clone, Debug)]
pub struct GenOpts {
    pub allow_copy: bool,
    pub allow_ext: bool,
    pub allow_err: bool,
    pub allow_multi: bool,
    pub max_rows: u64,
    pub max_width: u64,
    pub max_stmts: u64,
    pub sleep_max_ms: u64,
}

impl Default for GenOpts {
    fn default() -> Self {
        GenOpts {
            allow_copy: true,
            allow_ext: true,
            allow_err: true,
            allow_multi: true,
            max_rows: 5,
            max_width: 40,
            max_stmts: 5,
            sleep_max_ms: 3,
        }
    }
}

fn sel(rng: &mut Rng, cid: &str, qid: &str, o: &GenOpts, extra: &str) -> String {
    let mut rows = rng.range(0, o.max_rows);
    let mut w = rng.range(1, o.max_width);
    if rng.chance(1, 10) {
        // a first row around and beyond the pooler's relay-buffer threshold (8 KiB)
        rows = rng.range(1, 4);
        w = if rng.chance(1, 2) { rng.range(8100, 8300) } else { rng.range(8300, 40000) };
    }
    let mut ex = format!("rows={} w={}", rows, w);
    if o.sleep_max_ms > 0 && rng.chance(1, 3) {
        ex.push_str(&format!(" sleep={}", rng.range(0, o.sleep_max_ms)));
    }
    if !extra.is_empty() {
        ex.push(' ');
        ex.push_str(extra);
    }
    format!("SELECT * FROM t{} {}", rng.below(5), tag(cid, qid, &ex))
}

/// Generate one client transaction. Returns (kind, steps). Every message group carries the tag
/// of its transaction's client, so the mock can attribute it.
pub fn gen_txn(rng: &mut Rng, cid: &str, tno: usize, o: &GenOpts) -> (String, Vec<Step>) {
    let mut steps = vec![];
    let mut qn = 0;
    let mut q = |steps: &mut Vec<Step>, what: &str, f: &mut dyn FnMut(&str) -> Vec<u8>| {
        qn += 1;
        let qid = format!("{}.t{}.q{}", cid, tno, qn);
        let bytes = f(&qid);
        steps.push(Step::plain(&qid, what, bytes));
    };
    let mut kinds = vec!["auto", "block", "block_rollback"];
    if o.allow_err {
        kinds.push("failed_block");
        kinds.push("auto_error");
    }
    if o.allow_multi {
        kinds.push("multi_one_msg");
        kinds.push("multi_leaves_open");
    }
    if o.allow_ext {
        kinds.push("ext_auto");
        kinds.push("ext_in_block");
        kinds.push("ext_suspend");
        kinds.push("ext_named_in_block");
        kinds.push("ext_local_batches_in_block");
    }
    if o.allow_copy {
        kinds.push("copy_in");
        kinds.push("copy_out");
        kinds.push("copy_in_block");
        kinds.push("copy_fail");
    }
    let kind = rng.pick(&kinds).to_string();
    match kind.as_str() {
        "auto" => {
            q(&mut steps, "simple", &mut |qid| {
                proto::query(&sel(rng, cid, qid, o, ""))
            });
        }
        "auto_error" => {
            q(&mut steps, "simple_err", &mut |qid| {
                let e = if rng.chance(1, 2) { "err=pre" } else { "err=mid" };
                proto::query(&sel(rng, cid, qid, o, e))
            });
        }
        "block" | "block_rollback" => {
            q(&mut steps, "begin", &mut |qid| {
                proto::query(&format!("BEGIN {}", tag(cid, qid, "")))
            });
            let n = rng.range(1, o.max_stmts);
            for _ in 0..n {
                if rng.chance(1, 4) {
                    q(&mut steps, "dml", &mut |qid| {
                        proto::query(&format!("UPDATE t SET a = 1 {}", tag(cid, qid, "")))
                    });
                } else {
                    q(&mut steps, "simple", &mut |qid| {
                        proto::query(&sel(rng, cid, qid, o, ""))
                    });
                }
            }
            let end = if kind == "block" { "COMMIT" } else { "ROLLBACK" };
            q(&mut steps, "end", &mut |qid| {
                proto::query(&format!("{} {}", end, tag(cid, qid, "")))
            });
        }
        "failed_block" => {
            q(&mut steps, "begin", &mut |qid| {
                proto::query(&format!("BEGIN {}", tag(cid, qid, "")))
            });
            q(&mut steps, "simple_err", &mut |qid| {
                proto::query(&sel(rng, cid, qid, o, "err=pre"))
            });
            q(&mut steps, "simple_in_failed", &mut |qid| {
                proto::query(&sel(rng, cid, qid, o, ""))
            });
            q(&mut steps, "end", &mut |qid| {
                proto::query(&format!("ROLLBACK {}", tag(cid, qid, "")))
            });
        }
        "multi_one_msg" => {
            q(&mut steps, "multi", &mut |qid| {
                proto::query(&format!(
                    "BEGIN {}; {}; COMMIT",
                    tag(cid, qid, ""),
                    sel(rng, cid, qid, o, "")
                ))
            });
        }
        "multi_leaves_open" => {
            q(&mut steps, "multi_open", &mut |qid| {
                proto::query(&format!(
                    "BEGIN {}; {}",
                    tag(cid, qid, ""),
                    sel(rng, cid, qid, o, "")
                ))
            });
            q(&mut steps, "simple", &mut |qid| {
                proto::query(&sel(rng, cid, qid, o, ""))
            });
            q(&mut steps, "end", &mut |qid| {
                proto::query(&format!("COMMIT {}", tag(cid, qid, "")))
            });
        }
        "ext_auto" => {
            q(&mut steps, "batch", &mut |qid| {
                let mut b = proto::parse("", &sel(rng, cid, qid, o, ""), &[]);
                b.extend(proto::bind("", "", &[], &[], &[]));
                if rng.chance(1, 2) {
                    b.extend(proto::describe(b'P', ""));
                }
                b.extend(proto::execute("", 0));
                b.extend(proto::sync());
                b
            });
        }
        "ext_in_block" => {
            q(&mut steps, "begin", &mut |qid| {
                proto::query(&format!("BEGIN {}", tag(cid, qid, "")))
            });
            let n = rng.range(1, 3);
            for _ in 0..n {
                q(&mut steps, "batch", &mut |qid| {
                    let mut b = proto::parse("", &sel(rng, cid, qid, o, ""), &[]);
                    b.extend(proto::bind("", "", &[], &[], &[]));
                    b.extend(proto::execute("", 0));
                    b.extend(proto::sync());
                    b
                });
            }
            q(&mut steps, "end", &mut |qid| {
                proto::query(&format!("COMMIT {}", tag(cid, qid, "")))
            });
        }
        "ext_suspend" => {
            q(&mut steps, "begin", &mut |qid| {
                proto::query(&format!("BEGIN {}", tag(cid, qid, "")))
            });
            q(&mut steps, "batch_suspend", &mut |qid| {
                let sqlt = format!(
                    "SELECT * FROM t {}",
                    tag(cid, qid, &format!("rows={} w=9", rng.range(3, 9)))
                );
                let mut b = proto::parse("", &sqlt, &[]);
                b.extend(proto::bind("p1", "", &[], &[], &[]));
                b.extend(proto::execute("p1", 2));
                b.extend(proto::sync());
                b
            });
            q(&mut steps, "batch_resume", &mut |qid| {
                // carries its own tagged Parse so the group is attributable
                let mut b = proto::parse("", &format!("SELECT 1 {}", tag(cid, qid, "rows=0")), &[]);
                b.extend(proto::execute("p1", 0));
                b.extend(proto::sync());
                b
            });
            q(&mut steps, "end", &mut |qid| {
                proto::query(&format!("COMMIT {}", tag(cid, qid, "")))
            });
        }
        "ext_named_in_block" => {
            q(&mut steps, "begin", &mut |qid| {
                proto::query(&format!("BEGIN {}", tag(cid, qid, "")))
            });
            let name = format!("s_{}_{}", cid, tno);
            let name2 = name.clone();
            q(&mut steps, "batch_named_parse", &mut |qid| {
                let mut b = proto::parse(&name, &sel(rng, cid, qid, o, ""), &[]);
                b.extend(proto::sync());
                b
            });
            q(&mut steps, "batch_named_exec", &mut |qid| {
                let mut b = proto::parse("", &format!("SELECT 1 {}", tag(cid, qid, "rows=0")), &[]);
                b.extend(proto::bind("", &name2, &[], &[], &[]));
                b.extend(proto::execute("", 0));
                b.extend(proto::close(b'S', &name2));
                b.extend(proto::sync());
                b
            });
            q(&mut steps, "end", &mut |qid| {
                proto::query(&format!("COMMIT {}", tag(cid, qid, "")))
            });
        }
        "ext_local_batches_in_block" => {
            // inside a transaction: batches that a pooler with statement caching on answers itself
            // (Parse of a text it already knows under another name; Close of a named statement),
            // with ordinary statements in between: all of it is ONE transaction on ONE server
            q(&mut steps, "begin", &mut |qid| proto::query(&format!("BEGIN {}", tag(cid, qid, ""))));
            let n1 = format!("l1_{}_{}", cid, tno);
            let n2 = format!("l2_{}_{}", cid, tno);
            let text = format!("SELECT 1 /*v c={} q={}.t{}.shared rows=1 */", cid, cid, tno);
            let (t1, t2) = (text.clone(), text.clone());
            let (a1, a2, a3) = (n1.clone(), n2.clone(), n1.clone());
            q(&mut steps, "batch_named_parse", &mut |_qid| {
                let mut b = proto::parse(&a1, &t1, &[]);
                b.extend(proto::sync());
                b
            });
            q(&mut steps, "batch_named_parse", &mut |_qid| {
                let mut b = proto::parse(&a2, &t2, &[]);
                b.extend(proto::sync());
                b
            });
            q(&mut steps, "simple", &mut |qid| proto::query(&sel(rng, cid, qid, o, "")));
            q(&mut steps, "batch_close", &mut |_qid| {
                let mut b = proto::close(b'S', &a3);
                b.extend(proto::sync());
                b
            });
            q(&mut steps, "simple", &mut |qid| proto::query(&sel(rng, cid, qid, o, "")));
            let a4 = n2.clone();
            q(&mut steps, "batch_close", &mut |_qid| {
                let mut b = proto::close(b'S', &a4);
                b.extend(proto::sync());
                b
            });
            q(&mut steps, "end", &mut |qid| proto::query(&format!("COMMIT {}", tag(cid, qid, ""))));
        }
        "copy_in" | "copy_fail" | "copy_in_block" => {
            if kind == "copy_in_block" {
                q(&mut steps, "begin", &mut |qid| {
                    proto::query(&format!("BEGIN {}", tag(cid, qid, "")))
                });
            }
            qn += 1;
            let qid = format!("{}.t{}.q{}", cid, tno, qn);
            let n = rng.range(0, 4);
            let chunks = (0..n)
                .map(|i| format!("{}\t{}\n", i, "y".repeat(rng.range(1, 30) as usize)).into_bytes())
                .collect();
            steps.push(Step {
                qid: qid.clone(),
                kind: StepKind::CopyIn {
                    chunks,
                    fail: kind == "copy_fail",
                },
                bytes: proto::query(&format!("COPY t FROM STDIN {}", tag(cid, &qid, ""))),
                what: "copy_in".into(),
                readies: 1,
                cuts: vec![],
            });
            if kind == "copy_in_block" {
                let mut q2 = |steps: &mut Vec<Step>, what: &str, f: &mut dyn FnMut(&str) -> Vec<u8>| {
                    qn += 1;
                    let qid = format!("{}.t{}.q{}", cid, tno, qn);
                    let bytes = f(&qid);
                    steps.push(Step::plain(&qid, what, bytes));
                };
                q2(&mut steps, "end", &mut |qid| {
                    proto::query(&format!("COMMIT {}", tag(cid, qid, "")))
                });
            }
        }
        "copy_out" => {
            q(&mut steps, "copy_out", &mut |qid| {
                proto::query(&format!(
                    "COPY t TO STDOUT {}",
                    tag(cid, qid, &format!("rows={} w={}", rng.range(0, 6), rng.range(1, 30)))
                ))
            });
        }
        _ => unreachable!(),
    }
    (kind, steps)
}
