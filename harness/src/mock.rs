//! Mock PostgreSQL backend: real protocol, own session state, scripted replies and faults.
//! Fidelity rules are listed in DESIGN.md §2.2.

use crate::evlog::{Ev, Log, Origin, StateSnap};
use crate::proto::{self, Msg};
use crate::sql;
use crate::util::{now_ns, Rng};
use std::collections::{BTreeMap, HashMap};
use std::io::{Read, Write};
use std::net::{Ipv4Addr, Shutdown, SocketAddrV4, TcpListener, TcpStream};
use std::sync::atomic::{AtomicBool, AtomicI32, AtomicU64, AtomicU8, Ordering};
use std::sync::{Arc, Mutex};
use std::time::Duration;

pub const LISTEN_UP: u8 = 0;
pub const LISTEN_DOWN: u8 = 1; // listener closed: connection refused
pub const LISTEN_ACCEPT_HANG: u8 = 2; // accept, never answer startup
pub const LISTEN_ACCEPT_CLOSE: u8 = 3; // accept, close at once

pub const MID_NONE: u8 = 0;
pub const MID_HANG: u8 = 1;
pub const MID_FIN: u8 = 2;
pub const MID_RST: u8 = 3;

static NEXT_PID: AtomicI32 = AtomicI32::new(10_000);
static NEXT_SID: AtomicU64 = AtomicU64::new(1);

/// Switchable behaviour of one mock backend.
pub struct MockCtl {
    pub listen: AtomicU8,
    /// hang (do not answer) on the next message of any session
    pub q_hang: AtomicBool,
    /// hang only when the query is the pooler's health check `;`
    pub hc_hang: AtomicBool,
    /// hang only on statements that carry a client tag (pooler-originated round trips are answered)
    pub tag_hang: AtomicBool,
    /// answer the health check `;` with an error + close
    pub hc_fail: AtomicBool,
    /// close the connection when a Parse arrives (the server breaks while a statement is being prepared)
    pub close_on_parse: AtomicBool,
    /// what to do in the middle of a client-tagged reply that is at least `mid_after` bytes long
    pub mid_mode: AtomicU8,
    pub mid_after: AtomicU64,
    /// one-shot: apply mid_mode only to the next eligible reply
    pub mid_once: AtomicBool,
    /// per-message delay in ms
    pub slow_ms: AtomicU64,
    /// reply with ErrorResponse to every client-tagged Query
    pub err_all: AtomicBool,
    /// reply segmentation: 0 = single write; otherwise seed for random splits
    pub seg_seed: AtomicU64,
    /// max inter-segment delay in microseconds
    pub seg_delay_us: AtomicU64,
    /// dribble: maximum segment length when segmenting (0 = unbounded)
    pub seg_max: AtomicU64,
    pub stop: AtomicBool,
    /// md5 auth: user -> password (None = trust)
    pub md5_users: Mutex<Option<HashMap<String, String>>>,
    /// pg_shadow rows served to auth_query: user -> "md5..." hash
    pub shadow: Mutex<HashMap<String, String>>,
    /// extra exact query strings considered pooler-originated (auth_query, prewarmer)
    pub pooler_queries: Mutex<Vec<String>>,
    /// live sessions: sid -> info
    pub sessions: Mutex<HashMap<u64, Arc<SessInfo>>>,
    pub opened: AtomicU64,
    pub closed: AtomicU64,
    /// number of client-tagged requests completed (reply fully written)
    pub client_requests: AtomicU64,
    /// number of client transactions completed (Z(I) after client-tagged work)
    pub client_xacts: AtomicU64,
    pub server_version: Mutex<String>,
    pub mock_panics: AtomicU64,
}

impl MockCtl {
    fn new() -> MockCtl {
        MockCtl {
            listen: AtomicU8::new(LISTEN_UP),
            q_hang: AtomicBool::new(false),
            hc_hang: AtomicBool::new(false),
            tag_hang: AtomicBool::new(false),
            hc_fail: AtomicBool::new(false),
            close_on_parse: AtomicBool::new(false),
            mid_mode: AtomicU8::new(MID_NONE),
            mid_after: AtomicU64::new(0),
            mid_once: AtomicBool::new(false),
            slow_ms: AtomicU64::new(0),
            err_all: AtomicBool::new(false),
            seg_seed: AtomicU64::new(0),
            seg_delay_us: AtomicU64::new(0),
            seg_max: AtomicU64::new(0),
            stop: AtomicBool::new(false),
            md5_users: Mutex::new(None),
            shadow: Mutex::new(HashMap::new()),
            pooler_queries: Mutex::new(vec![]),
            sessions: Mutex::new(HashMap::new()),
            opened: AtomicU64::new(0),
            closed: AtomicU64::new(0),
            client_requests: AtomicU64::new(0),
            client_xacts: AtomicU64::new(0),
            server_version: Mutex::new("14.5 (mockpg)".to_string()),
            mock_panics: AtomicU64::new(0),
        }
    }
    pub fn heal(&self) {
        self.listen.store(LISTEN_UP, Ordering::SeqCst);
        self.q_hang.store(false, Ordering::SeqCst);
        self.hc_hang.store(false, Ordering::SeqCst);
        self.tag_hang.store(false, Ordering::SeqCst);
        self.hc_fail.store(false, Ordering::SeqCst);
        self.close_on_parse.store(false, Ordering::SeqCst);
        self.mid_mode.store(MID_NONE, Ordering::SeqCst);
        self.mid_once.store(false, Ordering::SeqCst);
        self.slow_ms.store(0, Ordering::SeqCst);
        self.err_all.store(false, Ordering::SeqCst);
    }
    pub fn live_sessions(&self) -> usize {
        self.sessions.lock().unwrap().len()
    }
    /// Remove registry entries whose thread died (socket clones keep fds open otherwise).
    pub fn kill_sessions_dead(&self) {
        let mut g = self.sessions.lock().unwrap();
        g.retain(|_, s| {
            if s.dead.load(Ordering::SeqCst) {
                if let Some(sock) = s.sock.lock().unwrap().take() {
                    let _ = sock.shutdown(Shutdown::Both);
                }
                false
            } else {
                true
            }
        });
    }
    /// Abruptly close every live session (RST).
    pub fn kill_sessions(&self) {
        let g = self.sessions.lock().unwrap();
        for s in g.values() {
            s.kill.store(true, Ordering::SeqCst);
            if let Some(sock) = s.sock.lock().unwrap().as_ref() {
                let _ = set_linger0(sock);
                let _ = sock.shutdown(Shutdown::Both);
            }
        }
    }
}

pub struct SessInfo {
    pub sid: u64,
    pub pid: i32,
    pub key: i32,
    pub cancel: AtomicBool,
    pub kill: AtomicBool,
    pub dead: AtomicBool,
    pub sock: Mutex<Option<TcpStream>>,
    /// (client, qid) of the statement currently executing (sleeping), if any
    pub running: Mutex<Option<(String, String)>>,
    /// client that last sent tagged work on this session
    pub cur_client: Mutex<Option<String>>,
    /// true while the session carries client work (from first tagged message until Z(I))
    pub busy: AtomicBool,
    pub busy_since: AtomicU64,
    /// a message whose header has arrived but whose body is still incomplete:
    /// (type, declared body length, body bytes received so far)
    pub partial: Mutex<Option<(u8, usize, Vec<u8>)>>,
}

fn set_linger0(s: &TcpStream) -> std::io::Result<()> {
    use std::os::unix::io::AsRawFd;
    let l = libc::linger {
        l_onoff: 1,
        l_linger: 0,
    };
    let r = unsafe {
        libc::setsockopt(
            s.as_raw_fd(),
            libc::SOL_SOCKET,
            libc::SO_LINGER,
            &l as *const _ as *const libc::c_void,
            std::mem::size_of::<libc::linger>() as u32,
        )
    };
    if r == 0 {
        Ok(())
    } else {
        Err(std::io::Error::last_os_error())
    }
}

pub fn linger0(s: &TcpStream) {
    let _ = set_linger0(s);
}

/// Interval record: a session carried client work from t0 to t1.
#[derive(Clone, Debug)]
pub struct BusyInterval {
    pub sid: u64,
    pub t0: u64,
    pub t1: u64,
    pub client: String,
}

pub struct Mock {
    pub idx: usize,
    pub label: String,
    pub ip: Ipv4Addr,
    pub port: u16,
    pub ctl: Arc<MockCtl>,
    pub log: Arc<Log>,
    pub busy: Arc<Mutex<Vec<BusyInterval>>>,
    handle: Option<std::thread::JoinHandle<()>>,
}

impl Mock {
    /// Start a mock backend listening on `ip`:ephemeral.
    pub fn start(idx: usize, label: &str, ip: Ipv4Addr, log: Arc<Log>) -> Mock {
        let listener = bind_retry(ip, 0);
        let port = listener.local_addr().unwrap().port();
        let ctl = Arc::new(MockCtl::new());
        let busy = Arc::new(Mutex::new(vec![]));
        let ctl2 = ctl.clone();
        let log2 = log.clone();
        let label2 = label.to_string();
        let busy2 = busy.clone();
        let handle = std::thread::Builder::new()
            .name(format!("mock-{}", label))
            .spawn(move || acceptor(idx, label2, ip, port, listener, ctl2, log2, busy2))
            .unwrap();
        Mock {
            idx,
            label: label.to_string(),
            ip,
            port,
            ctl,
            log,
            busy,
            handle: Some(handle),
        }
    }
    pub fn host(&self) -> String {
        self.ip.to_string()
    }
    pub fn stop(&mut self) {
        self.ctl.stop.store(true, Ordering::SeqCst);
        self.ctl.kill_sessions();
        if let Some(h) = self.handle.take() {
            let _ = h.join();
        }
    }
}

impl Drop for Mock {
    fn drop(&mut self) {
        self.stop();
    }
}

fn bind_retry(ip: Ipv4Addr, port: u16) -> TcpListener {
    for _ in 0..200 {
        match TcpListener::bind(SocketAddrV4::new(ip, port)) {
            Ok(l) => return l,
            Err(_) => std::thread::sleep(Duration::from_millis(5)),
        }
    }
    panic!("cannot bind mock listener on {}:{}", ip, port);
}

#[allow(clippy::too_many_arguments)]
fn acceptor(
    idx: usize,
    label: String,
    ip: Ipv4Addr,
    port: u16,
    listener: TcpListener,
    ctl: Arc<MockCtl>,
    log: Arc<Log>,
    busy: Arc<Mutex<Vec<BusyInterval>>>,
) {
    let mut listener = Some(listener);
    let mut hung: Vec<TcpStream> = vec![];
    loop {
        if ctl.stop.load(Ordering::SeqCst) {
            break;
        }
        let mode = ctl.listen.load(Ordering::SeqCst);
        if mode == LISTEN_DOWN {
            if listener.is_some() {
                listener = None; // closes the socket: connections are refused
            }
            hung.clear();
            std::thread::sleep(Duration::from_millis(1));
            continue;
        }
        if listener.is_none() {
            listener = Some(bind_retry(ip, port));
        }
        let l = listener.as_ref().unwrap();
        l.set_nonblocking(true).ok();
        match l.accept() {
            Ok((s, _)) => {
                s.set_nonblocking(false).ok();
                s.set_nodelay(true).ok();
                match mode {
                    LISTEN_ACCEPT_HANG => {
                        hung.push(s);
                    }
                    LISTEN_ACCEPT_CLOSE => {
                        drop(s);
                    }
                    _ => {
                        let ctl2 = ctl.clone();
                        let log2 = log.clone();
                        let label2 = label.clone();
                        let busy2 = busy.clone();
                        let _ = std::thread::Builder::new()
                            .name(format!("sess-{}", label))
                            .stack_size(256 * 1024)
                            .spawn(move || {
                                let guard = s.try_clone().ok();
                                let ctl3 = ctl2.clone();
                                let log3 = log2.clone();
                                let r = std::panic::catch_unwind(std::panic::AssertUnwindSafe(move || {
                                    let mut sess = Session::new(idx, label2, s, ctl2, log2, busy2);
                                    sess.run();
                                }));
                                if r.is_err() {
                                    // a mock bug must never look like a hung server
                                    log3.note("MOCK-PANIC: session thread panicked");
                                    ctl3.mock_panics.fetch_add(1, Ordering::SeqCst);
                                    if let Some(g) = guard {
                                        let _ = g.shutdown(Shutdown::Both);
                                    }
                                    ctl3.kill_sessions_dead();
                                }
                            });
                    }
                }
            }
            Err(ref e) if e.kind() == std::io::ErrorKind::WouldBlock => {
                if mode != LISTEN_ACCEPT_HANG && !hung.is_empty() {
                    hung.clear();
                }
                std::thread::sleep(Duration::from_micros(300));
            }
            Err(_) => std::thread::sleep(Duration::from_millis(1)),
        }
    }
}

#[derive(Clone, Debug)]
struct Prepared {
    query: String,
    types: Vec<i32>,
}

#[derive(Clone, Debug)]
struct Portal {
    query: String,
    rows_sent: u64,
    started: bool,
}

const REPORTED: &[(&str, &str)] = &[
    ("client_encoding", "client_encoding"),
    ("datestyle", "DateStyle"),
    ("timezone", "TimeZone"),
    ("standard_conforming_strings", "standard_conforming_strings"),
    ("application_name", "application_name"),
    ("intervalstyle", "IntervalStyle"),
    ("server_version", "server_version"),
    ("server_encoding", "server_encoding"),
    ("integer_datetimes", "integer_datetimes"),
    ("is_superuser", "is_superuser"),
    ("session_authorization", "session_authorization"),
];

pub const TRACKED: &[&str] = &[
    "client_encoding",
    "datestyle",
    "timezone",
    "standard_conforming_strings",
    "application_name",
];

fn display_name(lower: &str) -> String {
    for (l, d) in REPORTED {
        if *l == lower {
            return d.to_string();
        }
    }
    lower.to_string()
}

struct Session {
    b: usize,
    label: String,
    sid: u64,
    pid: i32,
    key: i32,
    stream: TcpStream,
    ctl: Arc<MockCtl>,
    log: Arc<Log>,
    busy_log: Arc<Mutex<Vec<BusyInterval>>>,
    info: Arc<SessInfo>,
    user: String,
    tx: u8,
    guc: BTreeMap<String, String>,
    guc_default: BTreeMap<String, String>,
    guc_tx_snapshot: Option<BTreeMap<String, String>>,
    guc_local: Vec<(String, Option<String>)>,
    reported: BTreeMap<String, String>,
    prepared: BTreeMap<String, Prepared>,
    portals: BTreeMap<String, Portal>,
    copy_in: Option<(u64, bool)>, // rows so far, via extended protocol
    ignore_till_sync: bool,
    last_client: Option<String>,
    out: Vec<u8>,
    seq: u64,
    group_first_seq: u64,
    group_client: Option<String>,
    group_qid: Option<String>,
    group_tagged: bool,
    group_open: bool,
    rng: Rng,
    last_msg_ns: u64,
}

enum Flow {
    Continue,
    Close(String),
}

impl Session {
    fn new(
        b: usize,
        label: String,
        stream: TcpStream,
        ctl: Arc<MockCtl>,
        log: Arc<Log>,
        busy_log: Arc<Mutex<Vec<BusyInterval>>>,
    ) -> Session {
        let sid = NEXT_SID.fetch_add(1, Ordering::SeqCst);
        let pid = NEXT_PID.fetch_add(1, Ordering::SeqCst);
        let key = (crate::util::fnv(&[sid.to_le_bytes(), now_ns().to_le_bytes()].concat())
            & 0x7fff_ffff) as i32;
        let info = Arc::new(SessInfo {
            sid,
            pid,
            key,
            cancel: AtomicBool::new(false),
            kill: AtomicBool::new(false),
            dead: AtomicBool::new(false),
            sock: Mutex::new(stream.try_clone().ok()),
            running: Mutex::new(None),
            cur_client: Mutex::new(None),
            partial: Mutex::new(None),
            busy: AtomicBool::new(false),
            busy_since: AtomicU64::new(0),
        });
        Session {
            b,
            label,
            sid,
            pid,
            key,
            stream,
            ctl,
            log,
            busy_log,
            info,
            user: String::new(),
            tx: b'I',
            guc: BTreeMap::new(),
            guc_default: BTreeMap::new(),
            guc_tx_snapshot: None,
            guc_local: vec![],
            reported: BTreeMap::new(),
            prepared: BTreeMap::new(),
            portals: BTreeMap::new(),
            copy_in: None,
            ignore_till_sync: false,
            last_client: None,
            out: vec![],
            seq: 0,
            group_first_seq: 0,
            group_client: None,
            group_qid: None,
            group_tagged: false,
            group_open: false,
            rng: Rng::new(sid.wrapping_mul(0x2545F4914F6CDD1D)),
            last_msg_ns: 0,
        }
    }

    fn snap(&self) -> StateSnap {
        let mut gucs = vec![];
        for (k, v) in &self.guc {
            if k == "role" {
                continue;
            }
            if self.guc_default.get(k) != Some(v) {
                gucs.push((k.clone(), v.clone()));
            }
        }
        let tracked = TRACKED
            .iter()
            .map(|k| (k.to_string(), self.guc.get(*k).cloned().unwrap_or_default()))
            .collect();
        StateSnap {
            tx: self.tx,
            copy_in: self.copy_in.is_some(),
            gucs,
            tracked,
            role: self.guc.get("role").cloned().unwrap_or("none".into()),
            prepared: self.prepared.keys().cloned().collect(),
        }
    }

    fn run(&mut self) {
        let how = match self.startup() {
            Ok(true) => {
                self.ctl
                    .sessions
                    .lock()
                    .unwrap()
                    .insert(self.sid, self.info.clone());
                self.ctl.opened.fetch_add(1, Ordering::SeqCst);
                let how = self.main_loop();
                self.ctl.sessions.lock().unwrap().remove(&self.sid);
                self.ctl.closed.fetch_add(1, Ordering::SeqCst);
                self.end_busy_impl(true);
                self.log.push(Ev::MockClose {
                    b: self.b,
                    sid: self.sid,
                    how: how.clone(),
                });
                how
            }
            Ok(false) => "not-a-session".into(),
            Err(e) => format!("startup-error: {}", e),
        };
        let _ = how;
        let _ = self.stream.shutdown(Shutdown::Both);
    }

    /// Returns Ok(true) when a session was established.
    fn startup(&mut self) -> std::io::Result<bool> {
        self.stream
            .set_read_timeout(Some(Duration::from_secs(30)))
            .ok();
        loop {
            let mut lenb = [0u8; 4];
            self.stream.read_exact(&mut lenb)?;
            let len = u32::from_be_bytes(lenb) as usize;
            if !(8..=10_000).contains(&len) {
                return Ok(false);
            }
            let mut body = vec![0u8; len - 4];
            self.stream.read_exact(&mut body)?;
            let code = i32::from_be_bytes([body[0], body[1], body[2], body[3]]);
            match code {
                80877103 => {
                    // SSLRequest: TLS is not offered by this mock
                    self.stream.write_all(b"N")?;
                    continue;
                }
                80877102 => {
                    if body.len() >= 12 {
                        let pid = i32::from_be_bytes([body[4], body[5], body[6], body[7]]);
                        let key = i32::from_be_bytes([body[8], body[9], body[10], body[11]]);
                        self.handle_cancel(pid, key);
                    }
                    return Ok(false);
                }
                196608 => {
                    let mut params = vec![];
                    let mut i = 4;
                    while i < body.len() && body[i] != 0 {
                        let (k, n) = proto::cstr_at(&body, i);
                        let (v, n2) = proto::cstr_at(&body, n);
                        params.push((k, v));
                        i = n2;
                    }
                    return self.finish_startup(params);
                }
                _ => return Ok(false),
            }
        }
    }

    fn handle_cancel(&mut self, pid: i32, key: i32) {
        let g = self.ctl.sessions.lock().unwrap();
        let mut matched = None;
        let mut running = None;
        let mut session_client = None;
        for s in g.values() {
            if s.pid == pid && s.key == key {
                matched = Some(s.sid);
                running = s.running.lock().unwrap().clone();
                session_client = s.cur_client.lock().unwrap().clone();
                s.cancel.store(true, Ordering::SeqCst);
            }
        }
        drop(g);
        self.log.push(Ev::MockCancel {
            b: self.b,
            pid,
            key,
            matched_sid: matched,
            running,
            session_client,
        });
    }

    fn finish_startup(&mut self, params: Vec<(String, String)>) -> std::io::Result<bool> {
        let get = |k: &str| {
            params
                .iter()
                .find(|p| p.0 == k)
                .map(|p| p.1.clone())
                .unwrap_or_default()
        };
        self.user = get("user");
        let db = if get("database").is_empty() {
            self.user.clone()
        } else {
            get("database")
        };
        // auth
        let md5 = self.ctl.md5_users.lock().unwrap().clone();
        if let Some(users) = md5 {
            let salt_src = self.rng.next();
            let salt = [
                salt_src as u8,
                (salt_src >> 8) as u8,
                (salt_src >> 16) as u8,
                (salt_src >> 24) as u8,
            ];
            self.stream.write_all(&proto::auth_md5(salt))?;
            let m = proto::read_msg(&mut self.stream, 10_000)?;
            let ok = match (m, users.get(&self.user)) {
                (Some(m), Some(pw)) if m.typ == b'p' => {
                    m.body == crate::util::md5_password_response(&self.user, pw, &salt)
                }
                _ => false,
            };
            if !ok {
                self.stream.write_all(&proto::error_response(
                    "FATAL",
                    "28P01",
                    &format!("password authentication failed for user \"{}\"", self.user),
                ))?;
                return Ok(false);
            }
        }
        // session defaults
        let ver = self.ctl.server_version.lock().unwrap().clone();
        let mut d: BTreeMap<String, String> = BTreeMap::new();
        d.insert("client_encoding".into(), "UTF8".into());
        d.insert("datestyle".into(), "ISO, MDY".into());
        d.insert("timezone".into(), "Etc/UTC".into());
        d.insert("standard_conforming_strings".into(), "on".into());
        d.insert("application_name".into(), "".into());
        d.insert("intervalstyle".into(), "postgres".into());
        d.insert("server_version".into(), ver);
        d.insert("server_encoding".into(), "UTF8".into());
        d.insert("integer_datetimes".into(), "on".into());
        d.insert("is_superuser".into(), "off".into());
        d.insert("session_authorization".into(), self.user.clone());
        d.insert("statement_timeout".into(), "0".into());
        d.insert("work_mem".into(), "4MB".into());
        d.insert("search_path".into(), "\"$user\", public".into());
        d.insert("role".into(), "none".into());
        for (k, v) in &params {
            if k == "user" || k == "database" || k == "options" || k == "replication" {
                continue;
            }
            d.insert(k.to_ascii_lowercase(), v.clone());
        }
        self.guc_default = d.clone();
        self.guc = d;
        let mut out = proto::auth_ok();
        for (l, disp) in REPORTED {
            let v = self.guc.get(*l).cloned().unwrap_or_default();
            self.reported.insert(l.to_string(), v.clone());
            out.extend_from_slice(&proto::parameter_status(disp, &v));
        }
        out.extend_from_slice(&proto::backend_key_data(self.pid, self.key));
        out.extend_from_slice(&proto::ready_for_query(b'I'));
        self.stream.write_all(&out)?;
        self.log.push(Ev::MockOpen {
            b: self.b,
            sid: self.sid,
            pid: self.pid,
            user: self.user.clone(),
            db,
            app: self.guc.get("application_name").cloned().unwrap_or_default(),
        });
        Ok(true)
    }

    fn wait_while<F: Fn(&MockCtl) -> bool>(&self, f: F) -> bool {
        // returns false if the session should die
        while f(&self.ctl) {
            if self.ctl.stop.load(Ordering::SeqCst) || self.info.kill.load(Ordering::SeqCst) {
                return false;
            }
            std::thread::sleep(Duration::from_millis(1));
        }
        true
    }

    fn main_loop(&mut self) -> String {
        self.stream.set_read_timeout(None).ok();
        loop {
            let m = match self.read_msg_tracking_partial(256 << 20) {
                Ok(Some(m)) => m,
                Ok(None) => return "eof".into(),
                Err(e) => return format!("read-error: {}", e.kind()),
            };
            if self.info.kill.load(Ordering::SeqCst) || self.ctl.stop.load(Ordering::SeqCst) {
                return "killed".into();
            }
            let slow = self.ctl.slow_ms.load(Ordering::SeqCst);
            if slow > 0 {
                std::thread::sleep(Duration::from_millis(slow));
            }
            match self.handle(m) {
                Flow::Continue => {}
                Flow::Close(how) => return how,
            }
        }
    }

    /// Like `proto::read_msg`, but a body that arrives in pieces is visible to the harness while it
    /// is incomplete (`SessInfo::partial`): a request torn by the sender never completes, and would
    /// otherwise leave no trace in the event log.
    fn read_msg_tracking_partial(&mut self, max_len: usize) -> std::io::Result<Option<Msg>> {
        use std::io::Read;
        let mut hdr = [0u8; 5];
        let mut got = 0;
        while got < 5 {
            let n = self.stream.read(&mut hdr[got..])?;
            if n == 0 {
                if got == 0 {
                    return Ok(None);
                }
                return Err(std::io::Error::new(std::io::ErrorKind::UnexpectedEof, "eof inside message header"));
            }
            got += n;
        }
        // PostgreSQL looks at the type byte before it trusts the length: an unknown type is
        // "invalid frontend message type", FATAL, connection closed (it does not wait for the
        // announced number of bytes)
        if !b"QPBEDCSHXdcfFp".contains(&hdr[0]) {
            use std::io::Write;
            let _ = self.stream.write_all(&proto::error_response("FATAL", "08P01", &format!("invalid frontend message type {}", hdr[0])));
            return Err(std::io::Error::new(std::io::ErrorKind::InvalidData, format!("invalid frontend message type {}", hdr[0])));
        }
        let len = u32::from_be_bytes([hdr[1], hdr[2], hdr[3], hdr[4]]) as usize;
        if len < 4 || len - 4 > max_len {
            return Err(std::io::Error::new(std::io::ErrorKind::InvalidData, format!("bad message length {} for type {:?}", len, hdr[0] as char)));
        }
        let want = len - 4;
        if want <= 65536 {
            let mut body = vec![0u8; want];
            self.stream.read_exact(&mut body)?;
            return Ok(Some(Msg { typ: hdr[0], body }));
        }
        *self.info.partial.lock().unwrap() = Some((hdr[0], want, Vec::with_capacity(want.min(32 << 20))));
        let mut chunk = vec![0u8; 65536];
        let mut have = 0usize;
        while have < want {
            let n = self.stream.read(&mut chunk[..(want - have).min(65536)])?;
            if n == 0 {
                return Err(std::io::Error::new(std::io::ErrorKind::UnexpectedEof, "eof inside message body"));
            }
            have += n;
            if let Some(p) = self.info.partial.lock().unwrap().as_mut() {
                p.2.extend_from_slice(&chunk[..n]);
            }
        }
        let body = self.info.partial.lock().unwrap().take().map(|p| p.2).unwrap_or_default();
        Ok(Some(Msg { typ: hdr[0], body }))
    }

    fn is_pooler_query(&self, sqltext: &str) -> bool {
        let t = sqltext.trim();
        if t == ";" || t == "ROLLBACK" {
            return true;
        }
        if self
            .ctl
            .pooler_queries
            .lock()
            .unwrap()
            .iter()
            .any(|q| q == t)
        {
            return true;
        }
        if let Ok(stmts) = sql::split_statements(t) {
            let stmts: Vec<String> = stmts
                .into_iter()
                .map(|s| s.trim().to_string())
                .filter(|s| !s.is_empty())
                .collect();
            if stmts.is_empty() {
                return false;
            }
            if stmts[0] == "RESET ROLE"
                && stmts
                    .iter()
                    .all(|s| s == "RESET ROLE" || s == "RESET ALL" || s == "DEALLOCATE ALL")
            {
                return true;
            }
            // SET <tracked> TO '<v>'
            let all_set = stmts.iter().all(|s| {
                let disp = ["client_encoding", "DateStyle", "TimeZone", "standard_conforming_strings", "application_name"];
                disp.iter().any(|d| s.starts_with(&format!("SET {} TO '", d)))
            });
            if all_set {
                return true;
            }
        }
        false
    }

    fn begin_busy(&mut self, client: &str) {
        if !self.info.busy.swap(true, Ordering::SeqCst) {
            self.info.busy_since.store(now_ns(), Ordering::SeqCst);
        }
        *self.info.cur_client.lock().unwrap() = Some(client.to_string());
    }

    /// `at_close`: the session ended (EOF / error) while still marked busy. The pooler closed its
    /// end some time before this thread noticed; the interval is ended at the last message seen
    /// (an under-approximation, so that a discarded connection and its replacement never overlap
    /// merely because the mock noticed the FIN late).
    fn end_busy_impl(&mut self, at_close: bool) {
        if self.info.busy.swap(false, Ordering::SeqCst) {
            let t0 = self.info.busy_since.load(Ordering::SeqCst);
            let t_end = if at_close { self.last_msg_ns.max(t0) } else { now_ns() };
            let client = self
                .info
                .cur_client
                .lock()
                .unwrap()
                .clone()
                .unwrap_or_default();
            self.busy_log.lock().unwrap().push(BusyInterval {
                sid: self.sid,
                t0,
                t1: t_end,
                client,
            });
        }
    }

    fn end_busy(&mut self) {
        self.end_busy_impl(false)
    }

    fn handle(&mut self, m: Msg) -> Flow {
        if m.typ != b'X' {
            // (the pooler's parting Terminate is handled whenever this thread gets scheduled)
            self.last_msg_ns = now_ns();
        }
        if m.typ == b'P' && self.ctl.close_on_parse.load(Ordering::SeqCst) {
            return Flow::Close("fault: closed on Parse".into());
        }
        self.seq += 1;
        let seq = self.seq;
        let raw = Arc::new(if self.log.keep_bytes.load(Ordering::Relaxed) || m.body.len() < 512 {
            m.encode()
        } else {
            let mut v = m.encode();
            v.truncate(64);
            v
        });
        // --- attribution
        let own_text: Option<String> = match m.typ {
            b'Q' => Some(proto::cstr_at(&m.body, 0).0),
            b'P' => {
                let (_, n) = proto::cstr_at(&m.body, 0);
                Some(proto::cstr_at(&m.body, n).0)
            }
            _ => None,
        };
        let dir = own_text.as_ref().map(|t| sql::directive(t));
        let own_client = dir.as_ref().and_then(|d| d.get("c").cloned());
        let own_qid = dir.as_ref().and_then(|d| d.get("q").cloned());
        let mut origin = Origin::Unattributed;
        if own_client.is_some() {
            origin = Origin::Client;
        } else if m.typ == b'Q' && self.is_pooler_query(own_text.as_ref().unwrap()) {
            origin = Origin::Pooler;
        } else if self.group_open && self.group_tagged {
            origin = Origin::Client;
        } else if self.tx != b'I' && self.last_client.is_some() && m.typ != b'X' {
            origin = Origin::Client; // continuation inside an open transaction
        } else if matches!(m.typ, b'C' | b'P')
            && proto::cstr_at(&m.body, if m.typ == b'C' { 1 } else { 0 })
                .0
                .starts_with("PGCAT_")
        {
            origin = Origin::Pooler;
        } else if m.typ == b'S' || m.typ == b'X' || m.typ == b'H' {
            origin = if self.group_open {
                if self.group_tagged {
                    Origin::Client
                } else {
                    Origin::Pooler
                }
            } else {
                Origin::Pooler
            };
        } else if matches!(m.typ, b'd' | b'c' | b'f') {
            // stray COPY messages are dropped silently by PostgreSQL; attribute to last client
            origin = Origin::Client;
        }

        if !self.group_open {
            self.group_open = true;
            self.group_first_seq = seq;
            self.group_client = None;
            self.group_qid = None;
            self.group_tagged = false;
        }
        // hand-over detection
        let mut state_for_log = None;
        if let Some(c) = &own_client {
            if let Some(prev) = &self.last_client {
                if prev != c {
                    let st = self.snap();
                    self.log.push(Ev::Handover {
                        b: self.b,
                        sid: self.sid,
                        prev: prev.clone(),
                        next: c.clone(),
                        state: st,
                        qid: own_qid.clone(),
                    });
                }
            }
            if dir.as_ref().map(|d| d.contains_key("snap")).unwrap_or(false) {
                state_for_log = Some(self.snap());
            }
            self.last_client = Some(c.clone());
            self.group_tagged = true;
            if self.group_client.is_none() {
                self.group_client = Some(c.clone());
                self.group_qid = own_qid.clone();
            }
            self.begin_busy(c);
        } else if origin == Origin::Client {
            if let Some(c) = self.last_client.clone() {
                if self.group_client.is_none() {
                    self.group_client = Some(c.clone());
                }
                self.group_tagged = true;
                self.begin_busy(&c);
            }
        }

        let tx_before = self.tx;
        let copy_before = self.copy_in.is_some();

        // Which SQL would actually run (for Execute): resolve through portal
        let mut ran = None;
        if m.typ == b'E' {
            let (portal, _) = proto::cstr_at(&m.body, 0);
            ran = self.portals.get(&portal).map(|p| p.query.clone());
        } else if m.typ == b'Q' {
            ran = own_text.clone();
        } else if m.typ == b'B' {
            let (_, n) = proto::cstr_at(&m.body, 0);
            let (stmt, _) = proto::cstr_at(&m.body, n);
            ran = self.prepared.get(&stmt).map(|p| p.query.clone());
        }

        self.log.push(Ev::MockMsg {
            b: self.b,
            sid: self.sid,
            seq,
            typ: m.typ,
            bytes: raw,
            tx_before,
            copy_before,
            client: own_client.clone().or_else(|| {
                if origin == Origin::Client {
                    self.last_client.clone()
                } else {
                    None
                }
            }),
            qid: own_qid.clone(),
            origin: origin.clone(),
            ran,
            state: state_for_log,
        });

        // --- faults that apply before processing
        if self.ctl.q_hang.load(Ordering::SeqCst) && m.typ != b'X' {
            if !self.wait_while(|c| c.q_hang.load(Ordering::SeqCst)) {
                return Flow::Close("killed-while-hung".into());
            }
        }
        if m.typ == b'Q' && own_text.as_deref().map(|t| t.contains("/*v ")).unwrap_or(false) && self.ctl.tag_hang.load(Ordering::SeqCst) {
            if !self.wait_while(|c| c.tag_hang.load(Ordering::SeqCst)) {
                return Flow::Close("killed-while-hung".into());
            }
        }
        if m.typ == b'Q' && own_text.as_deref().map(|t| t.trim()) == Some(";") {
            if self.ctl.hc_hang.load(Ordering::SeqCst)
                && !self.wait_while(|c| c.hc_hang.load(Ordering::SeqCst))
            {
                return Flow::Close("killed-while-hung".into());
            }
            if self.ctl.hc_fail.load(Ordering::SeqCst) {
                linger0(&self.stream);
                return Flow::Close("healthcheck-fail-close".into());
            }
        }

        // --- COPY IN sub-protocol
        if let Some((rows, ext)) = self.copy_in {
            match m.typ {
                b'd' => {
                    self.copy_in = Some((rows + 1, ext));
                    return Flow::Continue;
                }
                b'c' => {
                    self.copy_in = None;
                    self.out
                        .extend_from_slice(&proto::command_complete(&format!("COPY {}", rows)));
                    if !ext {
                        return self.finish_simple();
                    }
                    return Flow::Continue;
                }
                b'f' => {
                    self.copy_in = None;
                    let (msg, _) = proto::cstr_at(&m.body, 0);
                    self.error(
                        "57014",
                        &format!("COPY from stdin failed: {}", msg),
                        own_client.clone(),
                        own_qid.clone(),
                    );
                    if !ext {
                        return self.finish_simple();
                    }
                    return Flow::Continue;
                }
                b'H' | b'S' => return Flow::Continue,
                b'X' => return Flow::Close("terminate-in-copy".into()),
                _ => {
                    // any other message aborts the COPY and is consumed
                    self.copy_in = None;
                    self.error(
                        "08P01",
                        &format!(
                            "unexpected message type 0x{:02X} during COPY from stdin",
                            m.typ
                        ),
                        own_client.clone(),
                        own_qid.clone(),
                    );
                    if !ext {
                        return self.finish_simple();
                    }
                    return Flow::Continue;
                }
            }
        }

        // PostgreSQL: a message whose strings are not terminated inside the body is a protocol
        // violation ("invalid string in message", 08P01), reported as ERROR
        let well_formed = match m.typ {
            b'Q' => proto::cstr_checked(&m.body, 0).is_some(),
            b'P' => proto::cstr_checked(&m.body, 0)
                .and_then(|(_, n)| proto::cstr_checked(&m.body, n))
                .map(|(_, n)| n + 2 <= m.body.len())
                .unwrap_or(false),
            b'B' => proto::cstr_checked(&m.body, 0)
                .and_then(|(_, n)| proto::cstr_checked(&m.body, n))
                .map(|(_, n)| n + 2 <= m.body.len())
                .unwrap_or(false),
            b'D' | b'C' => !m.body.is_empty() && proto::cstr_checked(&m.body, 1).is_some(),
            b'E' => proto::cstr_checked(&m.body, 0)
                .map(|(_, n)| n + 4 <= m.body.len())
                .unwrap_or(false),
            _ => true,
        };
        if !well_formed {
            if m.typ == b'Q' {
                self.error("08P01", "invalid string in message", own_client.clone(), own_qid.clone());
                if self.tx == b'T' {
                    self.tx = b'E';
                }
                return self.finish_simple();
            }
            if !self.ignore_till_sync {
                self.ext_error("08P01", "invalid message format");
            }
            return Flow::Continue;
        }

        match m.typ {
            b'X' => Flow::Close("terminate".into()),
            b'Q' => self.simple_query(&own_text.unwrap_or_default(), origin),
            b'P' => {
                if self.ignore_till_sync {
                    return Flow::Continue;
                }
                self.begin_implicit();
                let (name, n) = proto::cstr_at(&m.body, 0);
                let (query, n2) = proto::cstr_at(&m.body, n);
                let mut types = vec![];
                // PostgreSQL: a negative parameter count, or fewer type OIDs in the message than
                // announced, is "invalid message format" / "insufficient data left in message"
                if n2 + 2 <= m.body.len() {
                    let c16 = i16::from_be_bytes([m.body[n2], m.body[n2 + 1]]);
                    if c16 < 0 || n2 + 2 + (c16 as usize) * 4 > m.body.len() {
                        self.ext_error("08P01", "invalid message format");
                        return Flow::Continue;
                    }
                }
                if n2 + 2 <= m.body.len() {
                    let cnt = i16::from_be_bytes([m.body[n2], m.body[n2 + 1]]) as usize;
                    let mut i = n2 + 2;
                    for _ in 0..cnt {
                        if i + 4 <= m.body.len() {
                            types.push(i32::from_be_bytes([
                                m.body[i],
                                m.body[i + 1],
                                m.body[i + 2],
                                m.body[i + 3],
                            ]));
                        }
                        i += 4;
                    }
                }
                let d = sql::directive(&query);
                if self.tx == b'E' {
                    self.ext_error("25P02", "current transaction is aborted, commands ignored until end of transaction block");
                } else if d.contains_key("perr") {
                    self.ext_error("42601", "syntax error at or near \"perr\"");
                } else if !name.is_empty() && self.prepared.contains_key(&name) {
                    self.ext_error(
                        "42P05",
                        &format!("prepared statement \"{}\" already exists", name),
                    );
                } else {
                    self.prepared.insert(name, Prepared { query, types });
                    self.out.extend_from_slice(&proto::parse_complete());
                }
                Flow::Continue
            }
            b'B' => {
                if self.ignore_till_sync {
                    return Flow::Continue;
                }
                self.begin_implicit();
                let (portal, n) = proto::cstr_at(&m.body, 0);
                let (stmt, _) = proto::cstr_at(&m.body, n);
                if self.tx == b'E' {
                    self.ext_error("25P02", "current transaction is aborted, commands ignored until end of transaction block");
                } else {
                    match self.prepared.get(&stmt) {
                        None => {
                            self.ext_error(
                                "26000",
                                &format!("prepared statement \"{}\" does not exist", stmt),
                            );
                        }
                        Some(p) => {
                            let q = p.query.clone();
                            if !portal.is_empty() && self.portals.contains_key(&portal) {
                                self.ext_error(
                                    "42P03",
                                    &format!("cursor \"{}\" already exists", portal),
                                );
                            } else {
                                self.portals.insert(
                                    portal,
                                    Portal {
                                        query: q,
                                        rows_sent: 0,
                                        started: false,
                                    },
                                );
                                self.out.extend_from_slice(&proto::bind_complete());
                            }
                        }
                    }
                }
                Flow::Continue
            }
            b'D' => {
                if self.ignore_till_sync {
                    return Flow::Continue;
                }
                self.begin_implicit();
                let kind = *m.body.first().unwrap_or(&0);
                let (name, _) = proto::cstr_at(&m.body, 1);
                if kind == b'S' {
                    match self.prepared.get(&name) {
                        None => self.ext_error(
                            "26000",
                            &format!("prepared statement \"{}\" does not exist", name),
                        ),
                        Some(p) => {
                            let p = p.clone();
                            self.out
                                .extend_from_slice(&proto::parameter_description(&p.types));
                            if returns_rows(&p.query) {
                                self.out
                                    .extend_from_slice(&proto::row_description(&["id", "pad"]));
                            } else {
                                self.out.extend_from_slice(&proto::no_data());
                            }
                        }
                    }
                } else {
                    match self.portals.get(&name) {
                        None => self
                            .ext_error("34000", &format!("portal \"{}\" does not exist", name)),
                        Some(p) => {
                            if returns_rows(&p.query) {
                                self.out
                                    .extend_from_slice(&proto::row_description(&["id", "pad"]));
                            } else {
                                self.out.extend_from_slice(&proto::no_data());
                            }
                        }
                    }
                }
                Flow::Continue
            }
            b'E' => {
                if self.ignore_till_sync {
                    return Flow::Continue;
                }
                self.begin_implicit();
                let (portal, n) = proto::cstr_at(&m.body, 0);
                let max = if n + 4 <= m.body.len() {
                    i32::from_be_bytes([m.body[n], m.body[n + 1], m.body[n + 2], m.body[n + 3]])
                } else {
                    0
                };
                match self.portals.get(&portal).cloned() {
                    None => {
                        self.ext_error("34000", &format!("portal \"{}\" does not exist", portal))
                    }
                    Some(p) => {
                        let r = self.exec_statement(&p.query, true, Some((&portal, max)));
                        if let Err(f) = r {
                            return f;
                        }
                    }
                }
                Flow::Continue
            }
            b'C' => {
                if self.ignore_till_sync {
                    return Flow::Continue;
                }
                let kind = *m.body.first().unwrap_or(&0);
                let (name, _) = proto::cstr_at(&m.body, 1);
                if kind == b'S' {
                    self.prepared.remove(&name);
                } else {
                    self.portals.remove(&name);
                }
                self.out.extend_from_slice(&proto::close_complete());
                Flow::Continue
            }
            b'H' => {
                // Flush: send what we have
                if !self.out.is_empty() {
                    let bytes = std::mem::take(&mut self.out);
                    if let Err(f) = self.write_reply(bytes, false) {
                        return f;
                    }
                }
                Flow::Continue
            }
            b'S' => {
                self.ignore_till_sync = false;
                if self.tx == b'I' {
                    self.end_implicit(true);
                    self.portals.clear();
                }
                self.finish_group()
            }
            b'd' | b'c' | b'f' => Flow::Continue, // dropped silently outside COPY
            b'p' => Flow::Continue,
            _ => {
                self.error(
                    "08P01",
                    &format!("invalid frontend message type {}", m.typ),
                    None,
                    None,
                );
                linger0(&self.stream);
                Flow::Close("protocol-violation".into())
            }
        }
    }

    fn begin_implicit(&mut self) {
        if self.tx == b'I' && self.guc_tx_snapshot.is_none() {
            self.guc_tx_snapshot = Some(self.guc.clone());
        }
    }

    /// End of an implicit (non-block) transaction.
    fn end_implicit(&mut self, commit: bool) {
        if let Some(snap) = self.guc_tx_snapshot.take() {
            if !commit {
                self.guc = snap;
            }
        }
        self.undo_locals();
    }

    fn undo_locals(&mut self) {
        while let Some((k, v)) = self.guc_local.pop() {
            match v {
                Some(v) => {
                    self.guc.insert(k, v);
                }
                None => {
                    self.guc.remove(&k);
                }
            }
        }
    }

    fn commit(&mut self) {
        self.guc_tx_snapshot = None;
        self.undo_locals();
        self.portals.clear();
        self.tx = b'I';
    }

    fn rollback(&mut self) {
        if let Some(s) = self.guc_tx_snapshot.take() {
            self.guc = s;
        }
        self.guc_local.clear();
        self.portals.clear();
        self.tx = b'I';
    }

    fn error(&mut self, code: &str, msg: &str, client: Option<String>, qid: Option<String>) {
        self.out
            .extend_from_slice(&proto::error_response("ERROR", code, msg));
        self.log.push(Ev::MockErr {
            b: self.b,
            sid: self.sid,
            code: code.to_string(),
            msg: msg.to_string(),
            client: client.or(self.group_client.clone()),
            qid: qid.or(self.group_qid.clone()),
        });
    }

    fn ext_error(&mut self, code: &str, msg: &str) {
        self.error(code, msg, None, None);
        self.ignore_till_sync = true;
        if self.tx == b'T' {
            self.tx = b'E';
        } else if self.tx == b'I' {
            self.end_implicit(false);
        }
    }

    fn report_gucs(&mut self) {
        for (l, disp) in REPORTED {
            let cur = self.guc.get(*l).cloned().unwrap_or_default();
            if self.reported.get(*l) != Some(&cur) {
                self.reported.insert(l.to_string(), cur.clone());
                self.out
                    .extend_from_slice(&proto::parameter_status(disp, &cur));
            }
        }
    }

    /// ReadyForQuery for the current group, write everything out.
    fn finish_group(&mut self) -> Flow {
        self.report_gucs();
        self.out.extend_from_slice(&proto::ready_for_query(self.tx));
        let bytes = std::mem::take(&mut self.out);
        let r = self.write_reply(bytes, true);
        self.group_open = false;
        if self.group_tagged {
            self.ctl.client_requests.fetch_add(1, Ordering::SeqCst);
            if self.tx == b'I' {
                self.ctl.client_xacts.fetch_add(1, Ordering::SeqCst);
            }
        }
        if self.tx == b'I' && self.copy_in.is_none() {
            self.end_busy();
        }
        match r {
            Ok(()) => Flow::Continue,
            Err(f) => f,
        }
    }

    fn finish_simple(&mut self) -> Flow {
        if self.tx == b'I' {
            self.end_implicit(true);
            self.portals.clear();
        }
        self.finish_group()
    }

    fn write_reply(&mut self, bytes: Vec<u8>, complete: bool) -> Result<(), Flow> {
        let tagged = self.group_tagged;
        let mid = self.ctl.mid_mode.load(Ordering::SeqCst);
        let after = self.ctl.mid_after.load(Ordering::SeqCst) as usize;
        let mut limit = bytes.len();
        let mut fault = MID_NONE;
        if mid != MID_NONE && tagged && bytes.len() >= after.max(1) {
            if !self.ctl.mid_once.load(Ordering::SeqCst)
                || self.ctl.mid_once.swap(false, Ordering::SeqCst)
            {
                fault = mid;
                limit = after.min(bytes.len().saturating_sub(1));
                if self.ctl.mid_once.load(Ordering::SeqCst) {
                    // consumed above
                }
            }
        }
        let seg = self.ctl.seg_seed.load(Ordering::SeqCst);
        let delay = self.ctl.seg_delay_us.load(Ordering::SeqCst);
        let seg_max = self.ctl.seg_max.load(Ordering::SeqCst) as usize;
        self.log.push(Ev::MockReply {
            b: self.b,
            sid: self.sid,
            first_seq: self.group_first_seq,
            seq: self.seq,
            bytes: Arc::new(
                if self.log.keep_bytes.load(Ordering::Relaxed) || bytes.len() < 512 {
                    bytes[..limit].to_vec()
                } else {
                    bytes[..limit.min(64)].to_vec()
                },
            ),
            client: self.group_client.clone(),
            qid: self.group_qid.clone(),
            complete: complete && fault == MID_NONE,
        });
        let res = (|| -> std::io::Result<()> {
            if seg == 0 {
                self.stream.write_all(&bytes[..limit])?;
            } else {
                let mut i = 0;
                while i < limit {
                    let remaining = limit - i;
                    let cap = if seg_max > 0 {
                        seg_max.min(remaining)
                    } else {
                        remaining
                    };
                    let n = 1 + self.rng.below(cap as u64) as usize;
                    self.stream.write_all(&bytes[i..i + n])?;
                    i += n;
                    if delay > 0 && i < limit {
                        let d = self.rng.below(delay + 1);
                        if d > 0 {
                            std::thread::sleep(Duration::from_micros(d));
                        }
                    }
                }
            }
            self.stream.flush()
        })();
        if let Err(e) = res {
            return Err(Flow::Close(format!("write-error: {}", e.kind())));
        }
        match fault {
            MID_HANG => {
                let my = self.ctl.mid_mode.load(Ordering::SeqCst);
                let _ = my;
                if !self.wait_while(|c| c.mid_mode.load(Ordering::SeqCst) == MID_HANG) {
                    return Err(Flow::Close("killed-mid-reply".into()));
                }
                // released: finish the reply
                let _ = self.stream.write_all(&bytes[limit..]);
                Ok(())
            }
            MID_FIN => Err(Flow::Close("fault-fin-mid-reply".into())),
            MID_RST => {
                linger0(&self.stream);
                Err(Flow::Close("fault-rst-mid-reply".into()))
            }
            _ => Ok(()),
        }
    }

    fn simple_query(&mut self, text: &str, origin: Origin) -> Flow {
        self.ignore_till_sync = false;
        let stmts = match sql::split_statements(text) {
            Ok(s) => s,
            Err(e) => {
                self.error("42601", &format!("syntax error: {}", e), None, None);
                if self.tx == b'T' {
                    self.tx = b'E';
                }
                return self.finish_simple();
            }
        };
        let nonempty: Vec<&String> = stmts.iter().filter(|s| !sql::strip_comments(s).trim().is_empty()).collect();
        if nonempty.is_empty() {
            self.out.extend_from_slice(&proto::empty_query_response());
            return self.finish_simple();
        }
        if self.ctl.err_all.load(Ordering::SeqCst) && origin == Origin::Client {
            self.error("XX000", "mock: scripted error (err_all)", None, None);
            if self.tx == b'T' {
                self.tx = b'E';
            }
            return self.finish_simple();
        }
        self.begin_implicit();
        let started_in_block = self.tx != b'I';
        let mut failed = false;
        for s in nonempty {
            match self.exec_statement(s, false, None) {
                Ok(true) => {}
                Ok(false) => {
                    failed = true;
                    break;
                }
                Err(f) => return f,
            }
            if self.copy_in.is_some() {
                // CopyInResponse sent; wait for data. (Remaining statements are not modelled.)
                let bytes = std::mem::take(&mut self.out);
                if let Err(f) = self.write_reply(bytes, false) {
                    return f;
                }
                return Flow::Continue;
            }
        }
        if failed {
            if self.tx == b'T' {
                self.tx = b'E';
            } else if self.tx == b'I' {
                self.end_implicit(false);
            }
            let _ = started_in_block;
        }
        self.finish_simple()
    }

    /// Execute one statement. Ok(true) = success, Ok(false) = error reported.
    fn exec_statement(
        &mut self,
        stmt: &str,
        extended: bool,
        portal: Option<(&str, i32)>,
    ) -> Result<bool, Flow> {
        let kw = sql::keywords(stmt, 3);
        let k0 = kw.first().cloned().unwrap_or_default();
        let k1 = kw.get(1).cloned().unwrap_or_default();
        let d = sql::directive(stmt);
        let client = d.get("c").cloned();
        let qid = d.get("q").cloned();
        let fail = |s: &mut Session, code: &str, msg: &str| -> Result<bool, Flow> {
            if extended {
                s.ext_error(code, msg);
            } else {
                s.error(code, msg, client.clone(), qid.clone());
            }
            Ok(false)
        };

        let is_tx_end = matches!(k0.as_str(), "COMMIT" | "END" | "ROLLBACK" | "ABORT");
        if self.tx == b'E' && !is_tx_end {
            return fail(
                self,
                "25P02",
                "current transaction is aborted, commands ignored until end of transaction block",
            );
        }

        // scripted sleep (interruptible by cancel)
        if let Some(ms) = d.get("sleep").and_then(|v| v.parse::<u64>().ok()) {
            *self.info.running.lock().unwrap() =
                Some((client.clone().unwrap_or_default(), qid.clone().unwrap_or_default()));
            self.info.cancel.store(false, Ordering::SeqCst);
            let end = now_ns() + ms * 1_000_000;
            let mut cancelled = false;
            while now_ns() < end {
                if self.info.cancel.swap(false, Ordering::SeqCst) {
                    cancelled = true;
                    break;
                }
                if self.info.kill.load(Ordering::SeqCst) || self.ctl.stop.load(Ordering::SeqCst) {
                    return Err(Flow::Close("killed-while-sleeping".into()));
                }
                std::thread::sleep(Duration::from_micros(500));
            }
            *self.info.running.lock().unwrap() = None;
            if cancelled {
                return fail(self, "57014", "canceling statement due to user request");
            }
        }

        if d.get("err").map(|v| v == "pre").unwrap_or(false) {
            return fail(self, "22012", "division by zero (scripted)");
        }
        if d.contains_key("errraw") {
            // error message echoing an identifier that is not valid UTF-8 (LATIN1 client_encoding)
            self.out.extend_from_slice(&proto::error_response_bytes("ERROR", "42P01", b"relation \"caf\xe9\xff\" does not exist"));
            if extended {
                self.ignore_till_sync = true;
                if self.tx == b'T' {
                    self.tx = b'E';
                } else if self.tx == b'I' {
                    self.end_implicit(false);
                }
            }
            return Ok(false);
        }

        match k0.as_str() {
            "BEGIN" | "START" => {
                if self.tx == b'T' {
                    self.out.extend_from_slice(&proto::notice_response(
                        "25001",
                        "there is already a transaction in progress",
                    ));
                } else {
                    if self.guc_tx_snapshot.is_none() {
                        self.guc_tx_snapshot = Some(self.guc.clone());
                    }
                    self.tx = b'T';
                }
                let tag = if k0 == "BEGIN" {
                    "BEGIN"
                } else {
                    "START TRANSACTION"
                };
                self.out.extend_from_slice(&proto::command_complete(tag));
                Ok(true)
            }
            "COMMIT" | "END" => {
                let tag = if self.tx == b'E' {
                    self.rollback();
                    "ROLLBACK"
                } else {
                    if self.tx == b'I' {
                        self.out.extend_from_slice(&proto::notice_response(
                            "25P01",
                            "there is no transaction in progress",
                        ));
                    }
                    self.commit();
                    "COMMIT"
                };
                self.out.extend_from_slice(&proto::command_complete(tag));
                Ok(true)
            }
            "ROLLBACK" | "ABORT" if k1 != "TO" => {
                if self.tx == b'I' {
                    self.out.extend_from_slice(&proto::notice_response(
                        "25P01",
                        "there is no transaction in progress",
                    ));
                }
                self.rollback();
                self.out
                    .extend_from_slice(&proto::command_complete("ROLLBACK"));
                Ok(true)
            }
            "SET" if k1 != "CONSTRAINTS" && k1 != "TRANSACTION" => match sql::parse_set(stmt) {
                Err(e) => fail(self, "42601", &e),
                Ok(s) => {
                    let old = self.guc.get(&s.name).cloned();
                    let newv = match s.value {
                        Some(v) => v,
                        None => self.guc_default.get(&s.name).cloned().unwrap_or_default(),
                    };
                    if s.kind == sql::SetKind::Local {
                        if self.tx == b'T' {
                            self.guc_local.push((s.name.clone(), old));
                            self.guc.insert(s.name, newv);
                        } else {
                            self.out.extend_from_slice(&proto::notice_response(
                                "25P01",
                                "SET LOCAL can only be used in transaction blocks",
                            ));
                        }
                    } else {
                        self.guc.insert(s.name, newv);
                    }
                    self.out.extend_from_slice(&proto::command_complete("SET"));
                    Ok(true)
                }
            },
            "RESET" => {
                if k1 == "ALL" {
                    let role = self.guc.get("role").cloned();
                    let sa = self.guc.get("session_authorization").cloned();
                    self.guc = self.guc_default.clone();
                    if let Some(r) = role {
                        self.guc.insert("role".into(), r);
                    }
                    if let Some(r) = sa {
                        self.guc.insert("session_authorization".into(), r);
                    }
                } else if k1 == "ROLE" {
                    self.guc.insert("role".into(), "none".into());
                } else if k1.is_empty() {
                    return fail(self, "42601", "syntax error at end of input");
                } else {
                    let name = if k1 == "TIME" {
                        "timezone".to_string()
                    } else {
                        k1.to_ascii_lowercase()
                    };
                    let dv = self.guc_default.get(&name).cloned().unwrap_or_default();
                    self.guc.insert(name, dv);
                }
                self.out
                    .extend_from_slice(&proto::command_complete("RESET"));
                Ok(true)
            }
            "SHOW" => {
                let name = if k1 == "TIME" {
                    "timezone".to_string()
                } else {
                    k1.to_ascii_lowercase()
                };
                let v = self.guc.get(&name).cloned().unwrap_or_default();
                if !extended {
                    self.out
                        .extend_from_slice(&proto::row_description(&[&display_name(&name)]));
                }
                self.out.extend_from_slice(&proto::data_row(&[v.as_bytes()]));
                self.out.extend_from_slice(&proto::command_complete("SHOW"));
                Ok(true)
            }
            "PREPARE" if k1 != "TRANSACTION" => {
                let name = kw.get(1).cloned().unwrap_or_default().to_ascii_lowercase();
                if self.prepared.contains_key(&name) {
                    return fail(
                        self,
                        "42P05",
                        &format!("prepared statement \"{}\" already exists", name),
                    );
                }
                let body = stmt
                    .to_ascii_uppercase()
                    .find(" AS ")
                    .map(|i| stmt[i + 4..].to_string())
                    .unwrap_or_default();
                self.prepared.insert(
                    name,
                    Prepared {
                        query: body,
                        types: vec![],
                    },
                );
                self.out
                    .extend_from_slice(&proto::command_complete("PREPARE"));
                Ok(true)
            }
            "EXECUTE" => {
                let name = k1.to_ascii_lowercase();
                match self.prepared.get(&name).cloned() {
                    None => fail(
                        self,
                        "26000",
                        &format!("prepared statement \"{}\" does not exist", name),
                    ),
                    Some(p) => self.exec_statement(&p.query, extended, portal),
                }
            }
            "DEALLOCATE" => {
                let target = if k1 == "PREPARE" {
                    kw.get(2).cloned().unwrap_or_default()
                } else {
                    k1.clone()
                };
                if target == "ALL" {
                    self.prepared.clear();
                    self.out
                        .extend_from_slice(&proto::command_complete("DEALLOCATE ALL"));
                } else {
                    let name = target.to_ascii_lowercase();
                    if self.prepared.remove(&name).is_none() {
                        return fail(
                            self,
                            "26000",
                            &format!("prepared statement \"{}\" does not exist", name),
                        );
                    }
                    self.out
                        .extend_from_slice(&proto::command_complete("DEALLOCATE"));
                }
                Ok(true)
            }
            "DISCARD" => {
                if self.tx == b'T' {
                    return fail(self, "25001", "DISCARD ALL cannot run inside a transaction block");
                }
                self.guc = self.guc_default.clone();
                self.prepared.clear();
                self.portals.clear();
                self.out
                    .extend_from_slice(&proto::command_complete("DISCARD ALL"));
                Ok(true)
            }
            "COPY" => {
                let up = sql::strip_comments(stmt).to_ascii_uppercase();
                if up.contains("FROM STDIN") {
                    self.out.extend_from_slice(&proto::copy_in_response());
                    self.copy_in = Some((0, extended));
                    Ok(true)
                } else if up.contains("TO STDOUT") {
                    let rows = d.get("rows").and_then(|v| v.parse::<u64>().ok()).unwrap_or(3);
                    let w = d.get("w").and_then(|v| v.parse::<usize>().ok()).unwrap_or(10);
                    self.out.extend_from_slice(&proto::copy_out_response());
                    let errmid = d.get("err").map(|v| v == "mid").unwrap_or(false);
                    for i in 0..rows {
                        if errmid && i == rows / 2 {
                            return fail(self, "22012", "division by zero (scripted, mid-copy)");
                        }
                        let mut line = format!(
                            "{}|{}|{}|{}\t",
                            self.label,
                            self.sid,
                            qid.clone().unwrap_or_default(),
                            i
                        )
                        .into_bytes();
                        line.extend(std::iter::repeat(b'x').take(w));
                        line.push(b'\n');
                        self.out.extend_from_slice(&proto::copy_data(&line));
                    }
                    self.out.extend_from_slice(&proto::copy_done());
                    self.out
                        .extend_from_slice(&proto::command_complete(&format!("COPY {}", rows)));
                    Ok(true)
                } else {
                    self.out.extend_from_slice(&proto::command_complete("COPY 0"));
                    Ok(true)
                }
            }
            _ => {
                // auth_query support
                if stmt.contains("pg_shadow") {
                    let shadow = self.ctl.shadow.lock().unwrap().clone();
                    let mut hit = None;
                    for (u, h) in shadow {
                        if stmt.contains(&format!("'{}'", u)) {
                            hit = Some((u, h));
                        }
                    }
                    self.out
                        .extend_from_slice(&proto::row_description(&["usename", "passwd"]));
                    let mut n = 0;
                    if let Some((u, h)) = hit {
                        self.out
                            .extend_from_slice(&proto::data_row(&[u.as_bytes(), h.as_bytes()]));
                        n = 1;
                    }
                    self.out
                        .extend_from_slice(&proto::command_complete(&format!("SELECT {}", n)));
                    return Ok(true);
                }
                if d.contains_key("vstate") {
                    let st = self.snap();
                    let text = format!(
                        "label={};sid={};pid={};{}",
                        self.label,
                        self.sid,
                        self.pid,
                        st.render()
                    );
                    if !extended {
                        self.out
                            .extend_from_slice(&proto::row_description(&["id", "pad"]));
                    }
                    self.out.extend_from_slice(&proto::data_row(&[
                        self.ident(qid.as_deref().unwrap_or(""), 0).as_bytes(),
                        text.as_bytes(),
                    ]));
                    self.out
                        .extend_from_slice(&proto::command_complete("SELECT 1"));
                    return Ok(true);
                }
                if returns_rows(stmt) {
                    let rows = d.get("rows").and_then(|v| v.parse::<u64>().ok()).unwrap_or(1);
                    let w = d.get("w").and_then(|v| v.parse::<usize>().ok()).unwrap_or(8);
                    let notices = d.get("notice").and_then(|v| v.parse::<u64>().ok()).unwrap_or(0);
                    let errmid = d.get("err").map(|v| v == "mid").unwrap_or(false);
                    let ps = d.contains_key("ps");
                    let nfy = d.contains_key("nfy");
                    let (start, limit) = match portal {
                        Some((pname, max)) => {
                            let p = self.portals.get(pname).cloned().unwrap();
                            (p.rows_sent, if max > 0 { max as u64 } else { u64::MAX })
                        }
                        None => (0, u64::MAX),
                    };
                    if !extended {
                        self.out
                            .extend_from_slice(&proto::row_description(&["id", "pad"]));
                    }
                    let pad = vec![b'x'; w];
                    let mut sent = 0u64;
                    let mut i = start;
                    while i < rows && sent < limit {
                        if errmid && i == rows / 2 {
                            return fail(self, "22012", "division by zero (scripted, mid-result)");
                        }
                        if notices > 0 && rows > 0 && i % ((rows / (notices + 1)).max(1)) == 0 && i > 0 {
                            self.out.extend_from_slice(&proto::notice_response(
                                "01000",
                                &format!("scripted notice at row {}", i),
                            ));
                        }
                        if ps && i == rows / 2 {
                            self.out.extend_from_slice(&proto::parameter_status(
                                "IntervalStyle",
                                "postgres",
                            ));
                        }
                        if nfy && i == rows / 3 {
                            self.out.extend_from_slice(&proto::notification_response(
                                self.pid, "chan", "payload",
                            ));
                        }
                        let id = self.ident(qid.as_deref().unwrap_or(""), i);
                        self.out
                            .extend_from_slice(&proto::data_row(&[id.as_bytes(), &pad]));
                        i += 1;
                        sent += 1;
                    }
                    if notices > 0 && rows == 0 {
                        self.out.extend_from_slice(&proto::notice_response(
                            "01000",
                            "scripted notice (empty result)",
                        ));
                    }
                    if let Some((pname, _)) = portal {
                        if let Some(p) = self.portals.get_mut(pname) {
                            p.rows_sent = i;
                            p.started = true;
                        }
                        if i < rows {
                            self.out.extend_from_slice(&proto::portal_suspended());
                            return Ok(true);
                        }
                    }
                    self.out
                        .extend_from_slice(&proto::command_complete(&format!("SELECT {}", sent)));
                    Ok(true)
                } else {
                    let tag = match k0.as_str() {
                        "INSERT" => "INSERT 0 1".to_string(),
                        "UPDATE" => "UPDATE 1".to_string(),
                        "DELETE" => "DELETE 1".to_string(),
                        "MERGE" => "MERGE 1".to_string(),
                        "CREATE" | "DROP" | "ALTER" => format!("{} {}", k0, k1),
                        "" => "".to_string(),
                        _ => k0.clone(),
                    };
                    self.out.extend_from_slice(&proto::command_complete(&tag));
                    Ok(true)
                }
            }
        }
    }

    fn ident(&self, qid: &str, row: u64) -> String {
        format!("{}|{}|{}|{}", self.label, self.sid, qid, row)
    }
}

pub fn returns_rows(stmt: &str) -> bool {
    let kw = sql::keywords(stmt, 1);
    matches!(
        kw.first().map(|s| s.as_str()),
        Some("SELECT") | Some("WITH") | Some("VALUES") | Some("TABLE")
    )
}

impl Drop for Session {
    fn drop(&mut self) {
        self.info.dead.store(true, Ordering::SeqCst);
        if let Some(sock) = self.info.sock.lock().unwrap().take() {
            let _ = sock.shutdown(Shutdown::Both);
        }
    }
}
