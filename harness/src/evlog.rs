//! Append-only event log of one cell, on the CLOCK_MONOTONIC timeline.

use crate::util::now_ns;
use std::sync::atomic::{AtomicU64, Ordering};
use std::sync::{Arc, Mutex};

#[derive(Clone, Debug, PartialEq, Eq)]
pub enum Origin {
    /// carries a client tag, or follows one on the same session inside the same request
    Client,
    /// exactly one of the statements the pooler is documented to issue itself
    Pooler,
    /// anything else
    Unattributed,
}

#[derive(Clone, Debug, Default, PartialEq, Eq)]
pub struct StateSnap {
    pub tx: u8,
    pub copy_in: bool,
    /// GUCs whose value differs from the session default (name, value)
    pub gucs: Vec<(String, String)>,
    /// all GUC_REPORT values tracked by the pooler (name, value)
    pub tracked: Vec<(String, String)>,
    pub role: String,
    pub prepared: Vec<String>,
}

impl StateSnap {
    pub fn render(&self) -> String {
        format!(
            "tx={} copy_in={} role={} gucs={:?} prepared={:?}",
            self.tx as char, self.copy_in, self.role, self.gucs, self.prepared
        )
    }
}

#[derive(Clone, Debug)]
pub enum Ev {
    MockOpen {
        b: usize,
        sid: u64,
        pid: i32,
        user: String,
        db: String,
        app: String,
    },
    MockClose {
        b: usize,
        sid: u64,
        how: String,
    },
    /// a message received by a mock session
    MockMsg {
        b: usize,
        sid: u64,
        seq: u64,
        typ: u8,
        bytes: Arc<Vec<u8>>,
        tx_before: u8,
        copy_before: bool,
        client: Option<String>,
        qid: Option<String>,
        origin: Origin,
        /// for Execute / simple Query: the SQL text actually run (resolved through portal/statement)
        ran: Option<String>,
        state: Option<StateSnap>,
    },
    /// bytes written by the mock in answer to the request whose last message had `seq`
    MockReply {
        b: usize,
        sid: u64,
        /// seq of the first message of the request group this reply belongs to
        first_seq: u64,
        seq: u64,
        bytes: Arc<Vec<u8>>,
        client: Option<String>,
        qid: Option<String>,
        complete: bool,
    },
    /// first client-tagged message from `next` on a session last used by `prev`
    Handover {
        b: usize,
        sid: u64,
        prev: String,
        next: String,
        state: StateSnap,
        qid: Option<String>,
    },
    MockCancel {
        b: usize,
        pid: i32,
        key: i32,
        matched_sid: Option<u64>,
        running: Option<(String, String)>,
        session_client: Option<String>,
    },
    MockErr {
        b: usize,
        sid: u64,
        code: String,
        msg: String,
        client: Option<String>,
        qid: Option<String>,
    },
    Note {
        what: String,
    },
}

#[derive(Clone, Debug)]
pub struct Event {
    pub t: u64,
    pub n: u64,
    pub ev: Ev,
}

#[derive(Default)]
pub struct Log {
    inner: Mutex<Vec<Event>>,
    n: AtomicU64,
    /// when false, message payloads are not retained (large-volume runs)
    pub keep_bytes: std::sync::atomic::AtomicBool,
}

impl Log {
    pub fn new() -> Arc<Log> {
        let l = Log::default();
        l.keep_bytes.store(true, Ordering::Relaxed);
        Arc::new(l)
    }
    pub fn push(&self, ev: Ev) -> u64 {
        let t = now_ns();
        let n = self.n.fetch_add(1, Ordering::SeqCst);
        self.inner.lock().unwrap().push(Event { t, n, ev });
        t
    }
    pub fn note(&self, what: &str) -> u64 {
        self.push(Ev::Note {
            what: what.to_string(),
        })
    }
    pub fn snapshot(&self) -> Vec<Event> {
        self.inner.lock().unwrap().clone()
    }
    pub fn len(&self) -> usize {
        self.inner.lock().unwrap().len()
    }
    pub fn clear(&self) {
        self.inner.lock().unwrap().clear();
    }
    pub fn since(&self, n0: usize) -> Vec<Event> {
        let g = self.inner.lock().unwrap();
        g[n0.min(g.len())..].to_vec()
    }
}

pub fn render_event(e: &Event, labels: &[String]) -> String {
    let lab = |b: usize| labels.get(b).cloned().unwrap_or(format!("b{}", b));
    match &e.ev {
        Ev::MockOpen {
            b, sid, user, db, ..
        } => format!("{} open {} sid={} user={} db={}", e.t, lab(*b), sid, user, db),
        Ev::MockClose { b, sid, how } => format!("{} close {} sid={} {}", e.t, lab(*b), sid, how),
        Ev::MockMsg {
            b,
            sid,
            seq,
            typ,
            bytes,
            tx_before,
            copy_before,
            client,
            qid,
            origin,
            ..
        } => format!(
            "{} msg {} sid={} seq={} {:?} tx={} copy={} client={:?} qid={:?} {:?} {}",
            e.t,
            lab(*b),
            sid,
            seq,
            *typ as char,
            *tx_before as char,
            copy_before,
            client,
            qid,
            origin,
            crate::util::printable(bytes, 120)
        ),
        Ev::MockReply {
            b,
            sid,
            seq,
            bytes,
            complete,
            first_seq,
            qid,
            ..
        } => format!(
            "{} reply {} sid={} seq={}..{} len={} complete={} qid={:?}",
            e.t,
            lab(*b),
            sid,
            first_seq,
            seq,
            bytes.len(),
            complete,
            qid
        ),
        Ev::Handover {
            b,
            sid,
            prev,
            next,
            state,
            ..
        } => format!(
            "{} handover {} sid={} {}->{} state[{}]",
            e.t,
            lab(*b),
            sid,
            prev,
            next,
            state.render()
        ),
        Ev::MockCancel {
            b,
            pid,
            key,
            matched_sid,
            running,
            ..
        } => format!(
            "{} cancel {} pid={} key={} matched={:?} running={:?}",
            e.t,
            lab(*b),
            pid,
            key,
            matched_sid,
            running
        ),
        Ev::MockErr {
            b, sid, code, msg, ..
        } => format!("{} err {} sid={} {} {}", e.t, lab(*b), sid, code, msg),
        Ev::Note { what } => format!("{} note {}", e.t, what),
    }
}
