//! Helpers shared by the property checks.

use crate::cell::Cell;
use crate::pgcat::{Cfg, PoolCfg, StartOpts};
use crate::wire::{Conn, ConnErr, StartupOpts};

pub const USER: &str = "u1";
pub const PASS: &str = "pw1";

/// One pool "db" with one shard; `roles` lists the servers (a mock is started per entry).
pub fn simple_cell(roles: &[&str], pool_size: u32, mode: &str) -> (Cell, Cfg) {
    let mut cell = Cell::new();
    let mut servers = vec![];
    for (i, r) in roles.iter().enumerate() {
        let idx = cell.add_mock(&format!("db.s0.{}.{}", r, i));
        servers.push(cell.server(idx, r));
    }
    let mut cfg = Cfg::new();
    let mut pool = PoolCfg::single("db", USER, PASS, pool_size, servers);
    pool.set("pool_mode", &format!("\"{}\"", mode));
    cfg.pools.push(pool);
    (cell, cfg)
}

pub fn connect(cell: &Cell, app: &str) -> Result<Conn, ConnErr> {
    Conn::connect(&cell.addr(), &StartupOpts::new(USER, "db", PASS).app(app))
}

pub fn start(cell: &mut Cell, cfg: &Cfg) -> Result<(), String> {
    cell.start_pgcat(cfg, &StartOpts::default())
        .map_err(|e| format!("{:?}", e))
}
