//! C12 — a client's session parameters follow it across server connections.

use super::common::*;
use crate::cell::{run_parallel, workers};
use crate::evlog::Ev;
use crate::pgcat::StartOpts;
use crate::report::Report;
use crate::sql::{quote_literal, tag};
use crate::util::Rng;
use crate::wire::{first_error, summarize, Conn, StartupOpts};
use serde_json::json;
use std::collections::{BTreeMap, HashMap};

const TRACKED_DISPLAY: &[(&str, &str)] = &[
    ("client_encoding", "client_encoding"),
    ("datestyle", "DateStyle"),
    ("timezone", "TimeZone"),
    ("standard_conforming_strings", "standard_conforming_strings"),
    ("application_name", "application_name"),
];

fn value_of_class(rng: &mut Rng, class: &str) -> String {
    let base = format!("v{}", rng.below(1000));
    match class {
        "plain" => base,
        "space" => format!("{} with space", base),
        "single_quote" => format!("{}'s", base),
        "two_quotes" => format!("a'{}'b", base),
        "double_quote" => format!("say \"{}\"", base),
        "backslash" => format!("c:\\dir\\{}", base),
        "semicolon" => format!("{}; x", base),
        "dashdash" => format!("{} -- c", base),
        "nonascii" => format!("{}-é✓", base),
        "long" => "L".repeat(rng.range(60, 200) as usize),
        "quote_semicolon" => format!("{}'; SET work_mem TO '1MB", base),
        // values of different clients that differ in nothing but letter case
        "case_variant" => rng.pick(&["Reports", "reports", "REPORTS", "rePorts"]).to_string(),
        _ => base,
    }
}

const CLASSES: &[&str] = &[
    "plain",
    "space",
    "single_quote",
    "two_quotes",
    "double_quote",
    "backslash",
    "semicolon",
    "dashdash",
    "nonascii",
    "long",
    "quote_semicolon",
    "case_variant",
    "case_variant",
];

#[derive(Clone, Debug)]
struct Check {
    client: String,
    qid: String,
    /// what the client had been told (display name -> value) when it sent the statement
    expected: BTreeMap<String, String>,
    /// class of the most recent value change per parameter (for signatures)
    last_class: BTreeMap<String, String>,
}

fn scenario(seed: u64, rep: &Report) -> Result<(), String> {
    let mut rng = Rng::new(seed);
    let pool_size = rng.range(1, 2) as u32;
    let (mut cell, mut cfg) = simple_cell(&["primary"], pool_size, "transaction");
    cfg.gset("connect_timeout", "8000");
    if rng.chance(1, 4) {
        // without the cleanup option nothing resets a connection between clients: parameter
        // tracking alone has to carry the property
        cfg.pools[0].set("cleanup_server_connections", "false");
    }
    // a third of the scenarios end with a reload that changes nothing about this pool (the pooler
    // re-validates pools then); pool validation needs validate_config on
    let reload_at_end = rng.chance(1, 3);
    if reload_at_end {
        cfg.gset("validate_config", "true");
    }
    cell.start_pgcat(&cfg, &StartOpts::default())
        .map_err(|e| format!("start: {:?}", e))?;
    let addr = cell.addr();
    // what a client that supplies NO tracked parameter is told: the pool's defaults
    let tracked_names = ["client_encoding", "DateStyle", "TimeZone", "standard_conforming_strings", "application_name"];
    let defaults_told = |addr: &str, id: &str| -> Result<BTreeMap<String, String>, String> {
        let c = Conn::connect(addr, &StartupOpts::new(USER, "db", PASS)).map_err(|e| format!("{} connect: {}", id, e))?;
        let m: BTreeMap<String, String> = tracked_names.iter().filter_map(|k| c.params.get(*k).map(|v| (k.to_string(), v.clone()))).collect();
        c.terminate();
        Ok(m)
    };
    let defaults_before = defaults_told(&addr, "d0")?;
    let n = rng.range(2, 8) as usize;
    let mut hs = vec![];
    for ci in 0..n {
        let addr = addr.clone();
        let seed = seed ^ (ci as u64 + 3) * 0xABCD;
        hs.push(std::thread::spawn(move || -> Result<(Vec<Check>, Vec<(String, String, String, String)>), String> {
            let mut rng = Rng::new(seed);
            let cid = format!("c{}", ci);
            let mut checks = vec![];
            let mut startup_told = vec![];
            let mut opts = StartupOpts::new(USER, "db", PASS);
            let mut last_class: BTreeMap<String, String> = BTreeMap::new();
            // startup parameter set
            let app_class = *rng.pick(&["plain", "space", "single_quote", "double_quote", "backslash", "semicolon", "nonascii", "long", "case_variant", "case_variant"]);
            let app = if app_class == "case_variant" { value_of_class(&mut rng, app_class) } else { format!("{}-{}", cid, value_of_class(&mut rng, app_class)) };
            opts = opts.param("application_name", &app);
            last_class.insert("application_name".into(), format!("startup_{}", app_class));
            let mut supplied = vec![("application_name".to_string(), app.clone(), app_class.to_string())];
            if rng.chance(1, 2) {
                let tz = *rng.pick(&["Europe/Paris", "America/New_York", "Asia/Tokyo", "UTC"]);
                opts = opts.param("timezone", tz);
                supplied.push(("TimeZone".into(), tz.into(), "plain".into()));
                last_class.insert("TimeZone".into(), "startup_plain".into());
            }
            if rng.chance(1, 3) {
                let ds = *rng.pick(&["ISO, DMY", "SQL, MDY", "German, DMY"]);
                opts = opts.param("datestyle", ds);
                supplied.push(("DateStyle".into(), ds.into(), "space".into()));
                last_class.insert("DateStyle".into(), "startup_space".into());
            }
            if rng.chance(1, 4) {
                opts = opts.param("client_encoding", "LATIN1");
                supplied.push(("client_encoding".into(), "LATIN1".into(), "plain".into()));
                last_class.insert("client_encoding".into(), "startup_plain".into());
            }
            let mut c = Conn::connect(&addr, &opts).map_err(|e| format!("{} connect: {}", cid, e))?;
            for (k, v, cl) in &supplied {
                let told = c.params.get(k).cloned().unwrap_or_default();
                startup_told.push((k.clone(), v.clone(), told, cl.clone()));
            }
            let steps = rng.range(6, 30);
            let mut qn = 0;
            for _ in 0..steps {
                qn += 1;
                let qid = format!("{}.q{}", cid, qn);
                match rng.below(10) {
                    0..=3 => {
                        // statement: record what we have been told so far
                        let expected: BTreeMap<String, String> = TRACKED_DISPLAY
                            .iter()
                            .map(|(_, d)| (d.to_string(), c.params.get(*d).cloned().unwrap_or_default()))
                            .collect();
                        let r = c
                            .query(&format!("SELECT 1 {}", tag(&cid, &qid, "snap rows=1")), 15_000)
                            .map_err(|(m, e)| format!("{}: {:?} {}", qid, e, summarize(&m)))?;
                        if let Some((code, msg)) = first_error(&r) {
                            return Err(format!("{} unexpected error {} {}", qid, code, msg));
                        }
                        checks.push(Check {
                            client: cid.clone(),
                            qid,
                            expected,
                            last_class: last_class.clone(),
                        });
                    }
                    4..=6 => {
                        // SET a tracked parameter (outside a transaction)
                        let (name, disp, val, class) = match rng.below(4) {
                            0 | 1 => {
                                let class = *rng.pick(CLASSES);
                                ("application_name", "application_name", value_of_class(&mut rng, class), class)
                            }
                            2 => ("TimeZone", "TimeZone", rng.pick(&["Europe/Berlin", "US/Pacific", "Asia/Kolkata"]).to_string(), "plain"),
                            _ => ("DateStyle", "DateStyle", rng.pick(&["ISO, DMY", "Postgres, MDY", "SQL, DMY"]).to_string(), "space"),
                        };
                        let r = c
                            .query(&format!("SET {} TO {} {}", name, quote_literal(&val), tag(&cid, &qid, "")), 15_000)
                            .map_err(|(m, e)| format!("{}: {:?} {}", qid, e, summarize(&m)))?;
                        if let Some((code, msg)) = first_error(&r) {
                            return Err(format!("{} SET rejected {} {}", qid, code, msg));
                        }
                        last_class.insert(disp.to_string(), class.to_string());
                    }
                    7 if rng.chance(1, 2) => {
                        // a tracked parameter changed INSIDE a transaction block (committed or rolled
                        // back): the pooler sees it only through ParameterStatus, nothing marks the
                        // connection for RESET ALL
                        let (name, disp, val) = match rng.below(3) {
                            0 => ("TimeZone", "TimeZone", rng.pick(&["Europe/Paris", "Asia/Dubai", "America/Lima"]).to_string()),
                            1 => ("DateStyle", "DateStyle", rng.pick(&["SQL, DMY", "German, DMY"]).to_string()),
                            _ => ("application_name", "application_name", format!("intx{}", rng.below(100))),
                        };
                        let end = if rng.chance(3, 4) { "COMMIT" } else { "ROLLBACK" };
                        for (k, sql) in [format!("BEGIN {}", tag(&cid, &format!("{}a", qid), "")), format!("SET {} TO {} {}", name, quote_literal(&val), tag(&cid, &format!("{}b", qid), "")), format!("{} {}", end, tag(&cid, &format!("{}c", qid), ""))].iter().enumerate() {
                            let r = c.query(sql, 15_000).map_err(|(m, e)| format!("{} step {}: {:?} {}", qid, k, e, summarize(&m)))?;
                            if let Some((code, msg)) = first_error(&r) {
                                return Err(format!("{} step {} rejected {} {}", qid, k, code, msg));
                            }
                        }
                        last_class.insert(disp.to_string(), format!("set_in_transaction_{}", end.to_lowercase()));
                    }
                    7 => {
                        let _ = c
                            .query(&format!("SET work_mem TO '{}MB' {}", rng.range(1, 64), tag(&cid, &qid, "")), 15_000)
                            .map_err(|(m, e)| format!("{}: {:?} {}", qid, e, summarize(&m)))?;
                    }
                    8 => {
                        let (name, disp) = *rng.pick(&[("application_name", "application_name"), ("TimeZone", "TimeZone"), ("DateStyle", "DateStyle")]);
                        let _ = c
                            .query(&format!("RESET {} {}", name, tag(&cid, &qid, "")), 15_000)
                            .map_err(|(m, e)| format!("{}: {:?} {}", qid, e, summarize(&m)))?;
                        last_class.insert(disp.to_string(), "reset".into());
                    }
                    _ => {
                        let d = rng.below(3000);
                        std::thread::sleep(std::time::Duration::from_micros(d));
                    }
                }
            }
            c.terminate();
            Ok((checks, startup_told))
        }));
    }
    let mut checks = vec![];
    let mut told = vec![];
    for h in hs {
        let (c, t) = h.join().map_err(|_| "client panicked".to_string())??;
        checks.extend(c);
        told.extend(t);
    }
    if reload_at_end {
        let port = cell.pg().port;
        let mut cfg2 = cfg.clone();
        cfg2.gset("ban_time", "61");
        let ev0 = cell.pg().events().iter().filter(|e| e.1 == "reload.end").count();
        cell.pg().rewrite_config(&cfg2.to_toml(port));
        cell.pg().signal(libc::SIGHUP);
        let deadline = crate::util::now_ns() + 8_000_000_000;
        while cell.pg().events().iter().filter(|e| e.1 == "reload.end").count() <= ev0 && crate::util::now_ns() < deadline {
            crate::util::sleep_ms(5);
        }
        crate::util::sleep_ms(300);
        let defaults_after = defaults_told(&addr, "d1")?;
        rep.count("default_parameters_compared_after_reload", defaults_after.len() as u64);
        for (k, v0) in &defaults_before {
            let v1 = defaults_after.get(k).cloned().unwrap_or_default();
            if *v0 != v1 {
                rep.violation(
                    &format!("C12|client_without_own_value_told_another_clients_value|param={}|after=reload", k),
                    &format!("a client that supplied no {} was told {:?} before any other client had connected and {:?} after other clients had used the pool and the configuration had been reloaded (nothing about this pool changed)", k, v0, v1),
                    json!({"seed": seed, "before": defaults_before, "after": defaults_after}),
                );
            }
        }
    }
    // mock snapshots per qid
    let mut snaps: HashMap<String, Vec<(String, String)>> = HashMap::new();
    let mut handovers = 0;
    for e in cell.log.snapshot() {
        match &e.ev {
            Ev::MockMsg {
                qid: Some(q),
                state: Some(st),
                ..
            } => {
                snaps.insert(q.clone(), st.tracked.clone());
            }
            Ev::Handover { .. } => handovers += 1,
            _ => {}
        }
    }
    rep.count("handovers", handovers);
    for (k, supplied, was_told, class) in &told {
        rep.count("startup_parameters_checked", 1);
        if supplied != was_told {
            rep.violation(
                &format!("C12|startup_parameter_told_back_differently|param={}|class={}", k, class),
                &format!("client supplied {}={:?} in its startup packet but was told {:?} in ParameterStatus", k, supplied, was_told),
                json!({"param": k, "supplied": supplied, "told": was_told, "seed": seed}),
            );
        }
    }
    for ch in &checks {
        let snap = match snaps.get(&ch.qid) {
            Some(s) => s,
            None => {
                rep.inconclusive(&format!("no snapshot for {}", ch.qid));
                continue;
            }
        };
        rep.count("statements_judged", 1);
        for (lower, disp) in TRACKED_DISPLAY {
            let server_val = snap.iter().find(|x| x.0 == *lower).map(|x| x.1.clone()).unwrap_or_default();
            let exp = ch.expected.get(*disp).cloned().unwrap_or_default();
            let mut class = ch.last_class.get(*disp).cloned().unwrap_or("default".into());
            // the pooler sends all differing parameters in one multi-statement SET: a value
            // that breaks that statement makes every parameter stale, so attribute to the cause
            if ch.expected.values().any(|v| v.contains('\'')) {
                class = "a_tracked_value_contains_single_quote".into();
            }
            rep.set_add("param_value_classes", &format!("{}:{}", disp, class));
            if server_val != exp {
                rep.violation(
                    &format!("C12|server_value_differs_from_client_value|param={}|class={}", disp, class),
                    &format!(
                        "statement {} of client {} ran on a server connection whose {} was {:?} while the client had established / been told {:?}",
                        ch.qid, ch.client, disp, server_val, exp
                    ),
                    json!({"qid": ch.qid, "param": disp, "server": server_val, "client": exp, "seed": seed, "pgcat_log_tail": cell.pg().log_tail(6)}),
                );
            }
        }
    }
    if let Some(ch) = checks.first() {
        rep.sample(json!({"qid": ch.qid, "client_expected": ch.expected, "server_snapshot": snaps.get(&ch.qid)}));
    }
    rep.distinct(seed);
    Ok(())
}

pub fn run(tier: &str) -> i32 {
    let rep = Report::new(
        "C12",
        tier,
        "exploration",
        "scenario = 2-8 clients with different startup parameter sets sharing pool_size 1-2, each interleaving SET / RESET of tracked and untracked parameters (outside transactions; values with spaces, quotes, backslashes, semicolons, comments, non-ASCII, long) with snapshot statements; oracle = mock backend's GUC table at each snapshot statement vs the values the client had been told in ParameterStatus (startup, then its own SETs), plus startup values told back unchanged; distinct = scenario seeds",
    );
    rep.assume("mock stores parameter values verbatim (PostgreSQL canonicalises some, e.g. application_name non-ASCII -> '?'; canonicalisation is idempotent so the comparison is unaffected)");
    let thorough = rep.thorough();
    let n = if thorough { 12000 } else { 1000 };
    let mut rng = Rng::new(rep.seed ^ 0xC12);
    let seeds: Vec<u64> = (0..n).map(|_| rng.next()).collect();
    run_parallel(n, workers(), |i| {
        rep.eval(1);
        if let Err(e) = scenario(seeds[i], &rep) {
            rep.inconclusive(&e);
        }
    });
    rep.finish(&[("statements_judged", 1000), ("handovers", 200)])
}
