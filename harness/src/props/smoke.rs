use super::common::*;
use crate::evlog::render_event;
use crate::pgcat::admin_rows;
use crate::sql::tag;
use crate::wire::summarize;

pub fn run() -> i32 {
    let (mut cell, cfg) = simple_cell(&["primary"], 2, "transaction");
    if let Err(e) = start(&mut cell, &cfg) {
        println!("start failed: {}", e);
        return 2;
    }
    println!("pgcat up on {}", cell.addr());
    let mut c = connect(&cell, "smoke").expect("connect");
    println!("client pid={} params={:?}", c.pid, c.params);
    let r = c.query(&format!("SELECT 1 {}", tag("c1", "c1.t1.q1", "rows=3 w=5")), 5000);
    match r {
        Ok(m) => println!("reply: {}", summarize(&m)),
        Err((m, e)) => println!("error {:?} after {}", e, summarize(&m)),
    }
    let r = c.query("BEGIN", 5000).unwrap();
    println!("begin: {}", summarize(&r));
    let r = c.query(&format!("SELECT 1 {}", tag("c1", "c1.t2.q1", "vstate")), 5000).unwrap();
    println!("vstate: {} {:?}", summarize(&r), r.iter().filter(|m| m.typ == b'D').map(|m| m.row_strings()).collect::<Vec<_>>());
    let r = c.query("COMMIT", 5000).unwrap();
    println!("commit: {}", summarize(&r));
    let mut a = cell.pg().admin().expect("admin");
    for q in ["SHOW POOLS", "SHOW SERVERS", "SHOW CLIENTS", "SHOW DATABASES"] {
        println!("{} -> {:?}", q, admin_rows(&mut a, q));
    }
    c.terminate();
    std::thread::sleep(std::time::Duration::from_millis(100));
    let labels = cell.labels();
    for e in cell.log.snapshot() {
        println!("{}", render_event(&e, &labels));
    }
    println!("hook events: {:?}", cell.pg().events().iter().map(|e| e.1.clone()).collect::<Vec<_>>());
    println!("panics: {:?}", cell.pg().panics());
    0
}
