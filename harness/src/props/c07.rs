//! C07 — broken replicas are banned and bypassed; service continues on healthy servers.

use super::common::*;
use crate::cell::{run_parallel, workers, Cell};
use crate::evlog::Ev;
use crate::mock::*;
use crate::pgcat::{admin_query, admin_rows, Cfg, PoolCfg, StartOpts};
use crate::proto;
use crate::report::Report;
use crate::sql::tag;
use crate::util::{now_ns, sleep_ms, Rng};
use crate::wire::{first_error, row_idents, summarize, Conn, StartupOpts};
use serde_json::json;
use std::collections::{HashMap, HashSet};
use std::sync::atomic::{AtomicBool, Ordering};
use std::sync::{Arc, Mutex};

const CONNECT_MS: u64 = 300;
const HC_MS: u64 = 200;
const STMT_MS: u64 = 400;

#[derive(Clone, Debug)]
struct Txn {
    cpid: i32,
    client: String,
    qid: String,
    role: String,
    t_send: u64,
    t_done: u64,
    ok: bool,
    err: String,
    served_by: Option<String>,
}

#[derive(Clone, Debug)]
struct FaultRec {
    mock: usize,
    kind: String,
    t_on: u64,
    t_off: u64,
}

#[derive(Clone, Debug)]
struct AdminRec {
    t_sent: u64,
    t_done: u64,
    what: String,
    mock: usize,
}

struct Layout {
    cell: Cell,
    primary: Option<usize>,
    replicas: Vec<usize>,
    ban_time: u64,
    hc_always: bool,
}

fn build(rng: &mut Rng, n_rep: usize, with_primary: bool, jitter: bool) -> Result<Layout, String> {
    let mut cell = Cell::new();
    let mut servers = vec![];
    let mut primary = None;
    let mut replicas = vec![];
    if with_primary {
        let i = cell.add_mock("db.s0.primary.0");
        servers.push(cell.server(i, "primary"));
        primary = Some(i);
    }
    for k in 0..n_rep {
        let i = cell.add_mock(&format!("db.s0.replica.{}", k));
        servers.push(cell.server(i, "replica"));
        replicas.push(i);
    }
    let mut cfg = Cfg::new();
    let mut pool = PoolCfg::single("db", USER, PASS, 3, servers);
    pool.set(
        "load_balancing_mode",
        if rng.chance(1, 2) { "\"random\"" } else { "\"loc\"" },
    );
    pool.users[0].extra.push(format!("statement_timeout = {}", STMT_MS));
    cfg.pools.push(pool);
    let ban_time = 2;
    let hc_always = rng.chance(1, 2);
    cfg.gset("ban_time", &ban_time.to_string());
    cfg.gset("connect_timeout", &CONNECT_MS.to_string());
    cfg.gset("healthcheck_timeout", &HC_MS.to_string());
    cfg.gset("healthcheck_delay", if hc_always { "0" } else { "100000" });
    let mut so = StartOpts::default();
    if jitter {
        so.jitter = Some(format!("{}:400:pool.get", rng.next()));
    }
    cell.start_pgcat(&cfg, &so)
        .map_err(|e| format!("start: {:?}", e))?;
    Ok(Layout {
        cell,
        primary,
        replicas,
        ban_time,
        hc_always,
    })
}

fn client_loop(addr: String, ci: usize, role: String, stop: Arc<AtomicBool>, seed: u64) -> Vec<Txn> {
    let mut rng = Rng::new(seed);
    let cid = format!("c{}", ci);
    let mut out = vec![];
    let mut n = 0;
    'outer: while !stop.load(Ordering::SeqCst) {
        let mut c = match Conn::connect(&addr, &StartupOpts::new(USER, "db", PASS).app(&cid)) {
            Ok(c) => c,
            Err(_) => {
                sleep_ms(20);
                continue;
            }
        };
        if c.query(&format!("SET SERVER ROLE TO '{}'", role), 5000).is_err() {
            continue;
        }
        while !stop.load(Ordering::SeqCst) {
            n += 1;
            let qid = format!("{}.q{}", cid, n);
            let t_send = now_ns();
            // every fifth client is impatient: it gives a statement 120 ms and then resets its
            // connection (well before the pooler's statement timeout fires on a hung server)
            let impatient = ci % 5 == 4;
            let r = c.query(
                &format!("SELECT 1 {}", tag(&cid, &qid, &format!("rows=1 sleep={}", rng.range(0, 4)))),
                if impatient { 120 } else { 60_000 },
            );
            if impatient && matches!(&r, Err((_, crate::wire::ReadErr::Timeout))) {
                c.close_rst();
                sleep_ms(20);
                continue 'outer;
            }
            let t_done = now_ns();
            match r {
                Ok(m) => {
                    let err = first_error(&m);
                    let served = row_idents(&m).first().map(|x| x.0.clone());
                    out.push(Txn {
                        cpid: c.pid,
                        client: cid.clone(),
                        qid,
                        role: role.clone(),
                        t_send,
                        t_done,
                        ok: err.is_none(),
                        err: err.map(|e| format!("{} {}", e.0, e.1)).unwrap_or_default(),
                        served_by: served,
                    });
                }
                Err((m, e)) => {
                    out.push(Txn {
                        cpid: c.pid,
                        client: cid.clone(),
                        qid,
                        role: role.clone(),
                        t_send,
                        t_done,
                        ok: false,
                        err: format!("{:?} after {}", e, summarize(&m)),
                        served_by: None,
                    });
                    // connection is gone (pgcat closes the client when a server breaks under it)
                    continue 'outer;
                }
            }
            let d = rng.below(6000);
            std::thread::sleep(std::time::Duration::from_micros(d));
        }
        c.terminate();
        break;
    }
    out
}

fn random_faults(seed: u64, thorough: bool, rep: &Report) -> Result<(), String> {
    let mut rng = Rng::new(seed);
    let n_rep = rng.range(1, 3) as usize;
    let with_primary = rng.chance(3, 4);
    let jit = rng.chance(1, 2);
    let mut lay = build(&mut rng, n_rep, with_primary, jit)?;
    let addr = lay.cell.addr();
    let stop = Arc::new(AtomicBool::new(false));
    let mut hs = vec![];
    let nclients = rng.range(6, 14) as usize;
    for ci in 0..nclients {
        let role = match ci % 4 {
            0 => "replica",
            1 => "any",
            2 => {
                if with_primary {
                    "primary"
                } else {
                    "replica"
                }
            }
            _ => "any",
        }
        .to_string();
        let addr = addr.clone();
        let stop = stop.clone();
        let s = rng.next();
        hs.push(std::thread::spawn(move || client_loop(addr, ci, role, stop, s)));
    }
    // fault script
    let mut faults: Vec<FaultRec> = vec![];
    let mut admins: Vec<AdminRec> = vec![];
    let bans_seen: Arc<Mutex<Vec<(u64, String, String)>>> = Arc::new(Mutex::new(vec![]));
    let mut adm = lay.cell.pg().admin().map_err(|e| format!("admin: {}", e))?;
    sleep_ms(150);
    let steps = rng.range(1, if thorough { 6 } else { 3 });
    let all: Vec<usize> = lay.primary.iter().cloned().chain(lay.replicas.iter().cloned()).collect();
    for _ in 0..steps {
        let target = if rng.chance(3, 4) {
            *rng.pick(&lay.replicas)
        } else {
            *rng.pick(&all)
        };
        let kind = *rng.pick(&["down", "accept_hang", "hang_on_query", "hang_on_query", "hc_hang", "hc_hang", "close_mid_reply", "slow", "admin_ban", "admin_ban_unban"]);
        let ctl = lay.cell.mocks[target].ctl.clone();
        let t_on = now_ns();
        match kind {
            "down" => {
                ctl.listen.store(LISTEN_DOWN, Ordering::SeqCst);
                ctl.kill_sessions();
            }
            "accept_hang" => {
                ctl.listen.store(LISTEN_ACCEPT_HANG, Ordering::SeqCst);
                ctl.kill_sessions();
            }
            "hang_on_query" => ctl.q_hang.store(true, Ordering::SeqCst),
            "hc_hang" => ctl.hc_hang.store(true, Ordering::SeqCst),
            "close_mid_reply" => {
                ctl.mid_after.store(rng.range(1, 40), Ordering::SeqCst);
                ctl.mid_mode.store(MID_RST, Ordering::SeqCst);
            }
            "slow" => ctl.slow_ms.store(30, Ordering::SeqCst),
            "admin_ban" | "admin_ban_unban" => {
                let host = lay.cell.mocks[target].host();
                let t0 = now_ns();
                let _ = admin_query(&mut adm, &format!("BAN {} {}", host, rng.range(1, 3)))?;
                admins.push(AdminRec {
                    t_sent: t0,
                    t_done: now_ns(),
                    what: "BAN".into(),
                    mock: target,
                });
            }
            _ => {}
        }
        // sample SHOW BANS while the fault is on
        let hold = if kind == "hc_hang" || kind == "hang_on_query" { rng.range(800, 1400) } else { rng.range(300, 1200) };
        let t_end = now_ns() + hold * 1_000_000;
        while now_ns() < t_end {
            if let Ok(rows) = admin_rows(&mut adm, "SHOW BANS") {
                rep.count("show_bans_samples", 1);
                for r in rows {
                    let role = r.get("role").cloned().unwrap_or_default();
                    let host = r.get("host").cloned().unwrap_or_default();
                    bans_seen.lock().unwrap().push((now_ns(), host.clone(), r.get("reason").cloned().unwrap_or_default()));
                    if role.eq_ignore_ascii_case("primary") {
                        rep.violation(
                            "C07|primary_listed_in_show_bans",
                            &format!("SHOW BANS lists a primary ({}) with reason {:?}", host, r.get("reason")),
                            json!({"seed": seed, "row": r}),
                        );
                    }
                }
            }
            sleep_ms(40);
        }
        ctl.heal();
        let t_off = now_ns();
        if kind == "admin_ban_unban" {
            let host = lay.cell.mocks[target].host();
            let t0 = now_ns();
            let _ = admin_query(&mut adm, &format!("UNBAN {}", host))?;
            admins.push(AdminRec {
                t_sent: t0,
                t_done: now_ns(),
                what: "UNBAN".into(),
                mock: target,
            });
        }
        if !kind.starts_with("admin") {
            faults.push(FaultRec {
                mock: target,
                kind: kind.to_string(),
                t_on,
                t_off,
            });
            rep.count(&format!("fault_{}", kind), 1);
        } else {
            rep.count(&format!("admin_{}", kind), 1);
        }
        sleep_ms(rng.range(100, 600));
    }
    // let things settle so that recovery is observed
    sleep_ms(300);
    stop.store(true, Ordering::SeqCst);
    let mut txns: Vec<Txn> = vec![];
    for h in hs {
        txns.extend(h.join().map_err(|_| "client panicked".to_string())?);
    }
    let t_end = now_ns();
    // where each qid actually arrived
    let labels = lay.cell.labels();
    let mut arrived: HashMap<String, Vec<usize>> = HashMap::new();
    for e in lay.cell.log.snapshot() {
        if let Ev::MockMsg { b, qid: Some(q), .. } = &e.ev {
            arrived.entry(q.clone()).or_default().push(*b);
        }
    }
    // ban events from pgcat's hook log: (t, port)
    // (mocks listen on distinct loopback addresses and may share a port number)
    let port_to_mock: HashMap<(String, u16), usize> = lay.cell.mocks.iter().map(|m| ((m.host(), m.port), m.idx)).collect();
    let mut ban_events: Vec<(u64, usize, String)> = vec![];
    // (t, client pid, mock) of every checkout
    let mut checkouts: Vec<(u64, i32, usize)> = vec![];
    for (t, k, line) in lay.cell.pg().events() {
        if k == "checkout" {
            if let Ok(v) = serde_json::from_str::<serde_json::Value>(&line) {
                let port = (v.get("host").and_then(|x| x.as_str()).unwrap_or("").to_string(), v.get("port").and_then(|x| x.as_u64()).unwrap_or(0) as u16);
                let cpid = v.get("cpid").and_then(|x| x.as_i64()).unwrap_or(0) as i32;
                if let Some(m) = port_to_mock.get(&port) {
                    checkouts.push((t, cpid, *m));
                }
            }
        }
        // the moment the entry is in the ban list (the "ban" event is emitted before the list's
        // write lock is taken; on a busy machine the two can be tens of ms apart)
        if k == "ban.done" {
            if let Ok(v) = serde_json::from_str::<serde_json::Value>(&line) {
                let port = (v.get("host").and_then(|x| x.as_str()).unwrap_or("").to_string(), v.get("port").and_then(|x| x.as_u64()).unwrap_or(0) as u16);
                if let Some(m) = port_to_mock.get(&port) {
                    if let Some(last) = ban_events.iter_mut().rev().find(|b| b.1 == *m) {
                        last.0 = t;
                    }
                }
            }
        }
        if k == "ban" {
            if let Ok(v) = serde_json::from_str::<serde_json::Value>(&line) {
                let port = (v.get("host").and_then(|x| x.as_str()).unwrap_or("").to_string(), v.get("port").and_then(|x| x.as_u64()).unwrap_or(0) as u16);
                let reason = v.get("reason").and_then(|x| x.as_str()).unwrap_or("").to_string();
                if let Some(m) = port_to_mock.get(&port) {
                    ban_events.push((t, *m, reason.clone()));
                    rep.count(&format!("bans_observed_{}", reason.split('(').next().unwrap_or("")), 1);
                }
            }
        }
    }
    let fault_active = |m: usize, a: u64, b: u64| faults.iter().any(|f| f.mock == m && f.t_on <= b && a <= f.t_off);
    let admin_touched = |m: usize, a: u64, b: u64| admins.iter().any(|x| x.mock == m && x.t_sent <= b && a <= x.t_done + 4_000_000_000);
    // (h) a replica whose pre-use health check got no answer for the whole health-check timeout is banned
    for e in lay.cell.log.snapshot() {
        if let Ev::MockMsg { b, typ, bytes, .. } = &e.ev {
            if *typ == b'Q' && lay.replicas.contains(b) && bytes.len() >= 7 && &bytes[5..bytes.len() - 1] == b";" {
                let t_hc = e.t;
                let hung_throughout = faults.iter().any(|f| f.mock == *b && f.kind == "hc_hang" && f.t_on <= t_hc && f.t_off >= t_hc + (HC_MS + 300) * 1_000_000);
                if hung_throughout && t_hc + (HC_MS + 1500) * 1_000_000 < t_end {
                    rep.count("health_checks_left_unanswered", 1);
                    let banned = ban_events.iter().any(|x| x.1 == *b && x.0 + 50_000_000 >= t_hc && x.0 <= t_hc + (HC_MS + 1500) * 1_000_000);
                    // (already banned: nothing new to record)
                    let already = ban_events.iter().any(|x| x.1 == *b && x.0 < t_hc && x.0 + lay.ban_time * 1_000_000_000 > t_hc);
                    if !banned && !already {
                        rep.violation(
                            "C07|replica_with_unanswered_health_check_was_not_banned",
                            &format!("{} received the pre-use health check at t={} and did not answer it for more than the health-check timeout ({} ms); no ban followed", labels[*b], t_hc, HC_MS),
                            json!({"seed": seed, "faults": faults.iter().map(|f| format!("{} {} [{}..{}]", labels[f.mock], f.kind, f.t_on, f.t_off)).collect::<Vec<_>>(),
                                   "bans": ban_events.iter().map(|b| format!("{} {} {}", b.0, labels[b.1], b.2)).collect::<Vec<_>>()}),
                        );
                    } else {
                        rep.count("unanswered_health_checks_followed_by_ban", 1);
                    }
                }
            }
        }
    }
    // (i) a replica that sits on a client statement beyond the statement timeout is banned, whether or
    // not the client is still there to be told
    for e in lay.cell.log.snapshot() {
        if let Ev::MockMsg { b, typ, qid: Some(q), .. } = &e.ev {
            if *typ == b'Q' && lay.replicas.contains(b) {
                let t0 = e.t;
                let hung = faults.iter().any(|f| f.mock == *b && f.kind == "hang_on_query" && f.t_on <= t0 && f.t_off >= t0 + (STMT_MS + 300) * 1_000_000);
                if hung && t0 + (STMT_MS + 1500) * 1_000_000 < t_end {
                    rep.count("statements_hung_beyond_statement_timeout", 1);
                    let banned = ban_events.iter().any(|x| x.1 == *b && x.0 + 50_000_000 >= t0 && x.0 <= t0 + (STMT_MS + 1500) * 1_000_000);
                    let already = ban_events.iter().any(|x| x.1 == *b && x.0 < t0 && x.0 + lay.ban_time * 1_000_000_000 > t0);
                    if !banned && !already {
                        rep.violation(
                            "C07|replica_hung_on_a_statement_beyond_statement_timeout_was_not_banned",
                            &format!("{} received {} and did not answer within the statement timeout ({} ms); no ban followed", labels[*b], q, STMT_MS),
                            json!({"seed": seed, "faults": faults.iter().map(|f| format!("{} {} [{}..{}]", labels[f.mock], f.kind, f.t_on, f.t_off)).collect::<Vec<_>>(),
                                   "bans": ban_events.iter().map(|b| format!("{} {} {}", b.0, labels[b.1], b.2)).collect::<Vec<_>>()}),
                        );
                    }
                }
            }
        }
    }
    let bound_ms = 10 * (CONNECT_MS + HC_MS + STMT_MS) + 3000;
    let margin = (lay.ban_time + 2) * 1_000_000_000;
    let wit = |t: &Txn| {
        json!({"seed": seed, "txn": format!("{:?}", t), "faults": faults.iter().map(|f| format!("{} {} [{}..{}]", labels[f.mock], f.kind, f.t_on, f.t_off)).collect::<Vec<_>>(),
               "bans": ban_events.iter().map(|b| format!("{} {} {}", b.0, labels[b.1], b.2)).collect::<Vec<_>>(), "hc_always": lay.hc_always})
    };
    for t in &txns {
        rep.count("transactions_observed", 1);
        let candidates: Vec<usize> = match t.role.as_str() {
            "primary" => lay.primary.iter().cloned().collect(),
            "replica" => lay.replicas.clone(),
            _ => all.clone(),
        };
        let dur_ms = (t.t_done - t.t_send) / 1_000_000;
        // (g) bounded detection
        if dur_ms > bound_ms {
            rep.violation(
                "C07|client_blocked_beyond_configured_timeouts",
                &format!("transaction {} (role {}) took {} ms; configured connect/health-check/statement timeouts are {}/{}/{} ms", t.qid, t.role, dur_ms, CONNECT_MS, HC_MS, STMT_MS),
                wit(t),
            );
        }
        // (a)/(f) error although a continuously healthy, never-touched candidate exists
        if !t.ok {
            rep.count("transactions_failed", 1);
            let mut where_ran = arrived.get(&t.qid).cloned().unwrap_or_default();
            // the server connection this client was given for the statement (hook anchor): a pooled
            // connection killed by an earlier fault only fails when it is next used
            let given: Vec<usize> = checkouts.iter().filter(|c| c.1 == t.cpid && c.0 >= t.t_send && c.0 <= t.t_done).map(|c| c.2).collect();
            let stale = given.iter().any(|m| faults.iter().any(|f| f.mock == *m && f.t_on <= t.t_done));
            let broke_under_it = where_ran.iter().any(|m| fault_active(*m, t.t_send, t.t_done)) || stale;
            for g in &given {
                if !where_ran.contains(g) {
                    where_ran.push(*g);
                }
            }
            if broke_under_it {
                rep.count("failed_because_server_broke_under_statement", 1);
                // (b) that server, if a replica, must be banned shortly afterwards
                for m in &where_ran {
                    // (a pooled connection that died in an earlier fault only shows when it is next
                    // used; the server itself may be healthy again, so no ban is required then)
                    if lay.replicas.contains(m) && fault_active(*m, t.t_send, t.t_done) && t.t_done + 1_500_000_000 < t_end {
                        let banned = ban_events.iter().any(|b| b.1 == *m && b.0 + 50_000_000 >= t.t_send && b.0 <= t.t_done + 1_500_000_000);
                        if !banned {
                            rep.violation(
                                "C07|replica_broke_mid_statement_but_was_not_banned",
                                &format!("{} broke while executing {} but no ban followed", labels[*m], t.qid),
                                wit(t),
                            );
                        } else {
                            rep.count("mid_statement_breaks_followed_by_ban", 1);
                        }
                    }
                }
            } else {
                let healthy: Vec<usize> = candidates
                    .iter()
                    .cloned()
                    .filter(|m| !fault_active(*m, t.t_send.saturating_sub(margin), t.t_done) && !admin_touched(*m, t.t_send.saturating_sub(margin), t.t_done))
                    // a server that had a fault earlier may still be banned although it is healthy
                    // again: a pooled connection that died in the fault fails its health check only
                    // when it is next used, possibly seconds later, and the pooler bans on that
                    .filter(|m| {
                        let ban_ns = lay.ban_time as u64 * 1_000_000_000;
                        !ban_events.iter().any(|b| b.1 == *m && b.0 + ban_ns + 100_000_000 >= t.t_send && b.0 <= t.t_done && faults.iter().any(|f| f.mock == *m && f.t_on <= b.0))
                    })
                    .collect();
                // the pooler's own limits here are a few hundred ms of real time: when this machine
                // stalled for a comparable time, a spurious health-check / connect timeout inside
                // the pooler says nothing about the servers
                let stalled = crate::util::max_stall_ms(t.t_send.saturating_sub(3_000_000_000), t.t_done);
                if !healthy.is_empty() && stalled >= 80 {
                    rep.count("verdicts_withheld_machine_stalled", 1);
                } else if !healthy.is_empty() {
                    rep.violation(
                        &format!("C07|transaction_failed_although_healthy_candidate_existed|role={}", t.role),
                        &format!(
                            "transaction {} (role {}) failed with [{}] although {} had been healthy and unbanned throughout",
                            t.qid, t.role, t.err, healthy.iter().map(|m| labels[*m].clone()).collect::<Vec<_>>().join(",")
                        ),
                        wit(t),
                    );
                } else {
                    rep.count("failed_with_no_continuously_healthy_candidate", 1);
                }
            }
        } else {
            // role honoured
            if let Some(s) = &t.served_by {
                let role_ok = match t.role.as_str() {
                    "primary" => s.contains(".primary."),
                    "replica" => s.contains(".replica."),
                    _ => true,
                };
                if !role_ok {
                    rep.violation(
                        &format!("C07|served_by_wrong_role|role={}", t.role),
                        &format!("transaction {} requested role {} but was served by {}", t.qid, t.role, s),
                        wit(t),
                    );
                }
            }
        }
        // (c) banned replica must be avoided while another candidate exists
        if let Some(s) = &t.served_by {
            if let Some(m) = labels.iter().position(|l| l == s) {
                if lay.replicas.contains(&m) {
                    for (tb, bm, reason) in &ban_events {
                        if *bm != m {
                            continue;
                        }
                        let ban_secs = if reason.starts_with("AdminBan") {
                            reason.trim_start_matches("AdminBan(").trim_end_matches(')').parse::<u64>().unwrap_or(1)
                        } else {
                            lay.ban_time
                        };
                        let lo = tb + 20_000_000;
                        let hi = tb + ban_secs * 1_000_000_000;
                        // the pooler looks at the ban list when it checks a server out, which is some
                        // time after the client sent: the whole transaction must lie inside the ban
                        if t.t_send > lo && t.t_done < hi {
                            // no UNBAN in between, and not every replica banned (unban-all)
                            let unbanned = admins.iter().any(|a| a.what == "UNBAN" && a.mock == m && a.t_sent <= t.t_done && a.t_done >= *tb);
                            let banned_replicas: HashSet<usize> = ban_events.iter().filter(|b| b.0 <= t.t_done && b.0 + (ban_secs.max(lay.ban_time) + 3) * 1_000_000_000 >= *tb).map(|b| b.1).collect();
                            let all_banned = lay.replicas.iter().all(|r| banned_replicas.contains(r));
                            let others = candidates.iter().filter(|c| **c != m).count();
                            if !unbanned && !all_banned && others > 0 {
                                rep.count("statements_judged_against_a_ban", 1);
                                rep.violation(
                                    &format!("C07|banned_replica_received_client_statement|reason={}", reason.split('(').next().unwrap_or("")),
                                    &format!(
                                        "{} was banned at t={} ({}), transaction {} was sent {} ms later (ban lasts {} s, no UNBAN, other candidates exist) and was still served by it",
                                        s, tb, reason, t.qid, (t.t_send - tb) / 1_000_000, ban_secs
                                    ),
                                    wit(t),
                                );
                            }
                        }
                    }
                }
            }
        }
        // count statements that correctly avoided a banned replica
        for (tb, bm, _) in &ban_events {
            if t.t_send > tb + 20_000_000 && t.t_send < tb + lay.ban_time * 1_000_000_000 && candidates.contains(bm) && t.ok {
                rep.count("statements_sent_during_a_ban", 1);
                break;
            }
        }
    }
    // primary keeps receiving traffic after recovery
    if let Some(p) = lay.primary {
        let last_fault_off = faults.iter().filter(|f| f.mock == p).map(|f| f.t_off).max();
        if let Some(off) = last_fault_off {
            let eligible: Vec<&Txn> = txns.iter().filter(|t| t.role == "primary" && t.t_send > off + 500_000_000).collect();
            if eligible.len() >= 20 && !eligible.iter().any(|t| t.ok) {
                rep.violation(
                    "C07|primary_not_used_after_recovery",
                    &format!("{} primary-role transactions after the primary recovered, none succeeded", eligible.len()),
                    json!({"seed": seed}),
                );
            }
        }
    }
    if txns.len() > 3 {
        rep.sample(json!({"seed": seed, "replicas": n_rep, "primary": with_primary, "faults": faults.iter().map(|f| format!("{}:{}", labels[f.mock], f.kind)).collect::<Vec<_>>(), "bans": ban_events.len(), "transactions": txns.len(), "failed": txns.iter().filter(|t| !t.ok).count()}));
    }
    rep.distinct(crate::util::fnv(format!("{}:{}:{:?}", n_rep, with_primary, faults.iter().map(|f| f.kind.clone()).collect::<Vec<_>>()).as_bytes()));
    Ok(())
}

/// all replicas banned => unban all; ban expiry; UNBAN.
/// A replica that breaks while the pooler prepares a client's statement on it (statement cache on: the
/// client's Bind lands on a server connection that does not have the statement yet, the pooler sends
/// the Parse itself) fails that transaction only and is banned like any replica that breaks under a
/// client's statement.
fn broken_during_prepare(seed: u64, rep: &Report) -> Result<(), String> {
    let mut cell = Cell::new();
    let p = cell.add_mock("db.s0.primary.0");
    let r0 = cell.add_mock("db.s0.replica.0");
    let r1 = cell.add_mock("db.s0.replica.1");
    let mut cfg = Cfg::new();
    let mut pool = PoolCfg::single("db", USER, PASS, 1, vec![cell.server(p, "primary"), cell.server(r0, "replica"), cell.server(r1, "replica")]);
    pool.set("default_role", "\"replica\"");
    pool.set("prepared_statements_cache_size", "16");
    cfg.pools.push(pool);
    cfg.gset("ban_time", "60");
    cell.start_pgcat(&cfg, &StartOpts::default()).map_err(|e| format!("start: {:?}", e))?;
    let mut adm = cell.pg().admin().map_err(|e| format!("admin: {}", e))?;
    let mut c = Conn::connect(&cell.addr(), &StartupOpts::new(USER, "db", PASS).app("pp")).map_err(|e| e.to_string())?;
    let text = format!("SELECT 1 {}", tag("pp", "pp.prep", "rows=1"));
    let mut b = proto::parse("s1", &text, &[]);
    b.extend(proto::sync());
    c.send(&b).map_err(|e| e.to_string())?;
    c.read_until_ready(5000).map_err(|(m, e)| format!("prepare: {:?} {}", e, summarize(&m)))?;
    sleep_ms(20);
    // which replica has the statement now? the other one will break on its first Parse
    let has: Vec<usize> = cell.log.snapshot().iter().filter_map(|e| match &e.ev { Ev::MockMsg { b, typ, qid: Some(q), .. } if *typ == b'P' && q == "pp.prep" => Some(*b), _ => None }).collect();
    let with_stmt = match has.first() {
        Some(b) if *b == r0 || *b == r1 => *b,
        _ => return Err("the Parse did not arrive at a replica".into()),
    };
    let other = if with_stmt == r0 { r1 } else { r0 };
    cell.mocks[other].ctl.close_on_parse.store(true, Ordering::SeqCst);
    let other_label = cell.mocks[other].label.clone();
    let other_host = cell.mocks[other].host();
    let mut failed_once = false;
    for k in 0..40 {
        let mut b = proto::bind("", "s1", &[], &[], &[]);
        b.extend(proto::execute("", 0));
        b.extend(proto::sync());
        if c.send(&b).is_err() {
            failed_once = true;
            break;
        }
        match c.read_until_ready(8000) {
            Ok(m) if first_error(&m).is_none() => {}
            _ => {
                failed_once = true;
                let _ = k;
                break;
            }
        }
    }
    if !failed_once {
        // forty transactions never landed on the other replica
        rep.count("prepare_fault_never_reached", 1);
        return Ok(());
    }
    rep.count("replica_broke_during_pooler_issued_prepare", 1);
    sleep_ms(300);
    let bans = crate::pgcat::admin_rows(&mut adm, "SHOW BANS")?;
    let listed = bans.iter().any(|r| r.get("host").map(|h| *h == other_host).unwrap_or(false));
    // and the following replica transactions of a fresh client stay away from it
    cell.mocks[other].ctl.heal();
    let n0 = cell.log.len();
    let mut d = Conn::connect(&cell.addr(), &StartupOpts::new(USER, "db", PASS).app("pq")).map_err(|e| e.to_string())?;
    for k in 0..12 {
        let _ = d.query(&format!("SELECT 1 {}", tag("pq", &format!("pq.q{}", k), "rows=1")), 8000);
    }
    let reached = cell.log.since(n0).iter().filter(|e| matches!(&e.ev, Ev::MockMsg { b, qid: Some(q), .. } if *b == other && q.starts_with("pq."))).count();
    if !listed || reached > 0 {
        rep.violation(
            "C07|replica_that_broke_while_a_statement_was_prepared_on_it_not_banned",
            &format!("{} closed its connection while the pooler was preparing a client's statement on it: SHOW BANS lists it: {}; {} of the next 12 replica transactions were sent to it (ban_time 60 s)", other_label, listed, reached),
            json!({"seed": seed, "bans": bans, "log_tail": cell.pg().log_tail(8)}),
        );
    }
    Ok(())
}

fn scripted(seed: u64, rep: &Report) -> Result<(), String> {
    let mut rng = Rng::new(seed);
    let mut lay = build(&mut rng, 2, true, false)?;
    let addr = lay.cell.addr();
    let mut adm = lay.cell.pg().admin().map_err(|e| format!("admin: {}", e))?;
    let mut c = Conn::connect(&addr, &StartupOpts::new(USER, "db", PASS).app("s")).map_err(|e| e.to_string())?;
    c.query("SET SERVER ROLE TO 'replica'", 5000).map_err(|e| format!("{:?}", e.1))?;
    let mut n = 0;
    let mut run = |c: &mut Conn, k: usize| -> Vec<(bool, Option<String>, String)> {
        let mut out = vec![];
        for _ in 0..k {
            n += 1;
            let qid = format!("s.q{}", n);
            match c.query(&format!("SELECT 1 {}", tag("s", &qid, "rows=1")), 20_000) {
                Ok(m) => out.push((first_error(&m).is_none(), row_idents(&m).first().map(|x| x.0.clone()), summarize(&m))),
                Err((m, e)) => out.push((false, None, format!("{:?} {}", e, summarize(&m)))),
            }
        }
        out
    };
    let h0 = lay.cell.mocks[lay.replicas[0]].host();
    let h1 = lay.cell.mocks[lay.replicas[1]].host();
    let l0 = lay.cell.mocks[lay.replicas[0]].label.clone();
    // --- admin ban one replica: the other serves everything
    admin_query(&mut adm, &format!("BAN {} 30", h0))?;
    let r = run(&mut c, 40);
    rep.count("scripted_statements", r.len() as u64);
    if r.iter().any(|x| x.1.as_deref() == Some(l0.as_str())) {
        rep.violation("C07|admin_banned_replica_received_client_statement", &format!("{} served statements after BAN {} 30 was acknowledged", l0, h0), json!({"seed": seed}));
    }
    if r.iter().any(|x| !x.0) {
        rep.violation("C07|transaction_failed_with_one_replica_admin_banned", &format!("a replica-role transaction failed although one replica was healthy and unbanned: {:?}", r.iter().find(|x| !x.0)), json!({"seed": seed}));
    }
    // --- UNBAN restores it
    admin_query(&mut adm, &format!("UNBAN {}", h0))?;
    let r = run(&mut c, 80);
    if !r.iter().any(|x| x.1.as_deref() == Some(l0.as_str())) {
        rep.violation("C07|replica_still_avoided_after_unban", &format!("80 replica-role transactions after UNBAN {} and none reached it", h0), json!({"seed": seed}));
    } else {
        rep.count("unban_restored_traffic", 1);
    }
    // --- ban both: all banned => unban all, transactions keep being served
    admin_query(&mut adm, &format!("BAN {} 30", h0))?;
    admin_query(&mut adm, &format!("BAN {} 30", h1))?;
    let r = run(&mut c, 20);
    if r.iter().any(|x| !x.0) {
        rep.violation("C07|all_replicas_banned_but_not_unbanned", &format!("with every replica banned a replica-role transaction was refused instead of unbanning all: {:?}", r.iter().find(|x| !x.0)), json!({"seed": seed}));
    } else {
        rep.count("unban_all_events", 1);
    }
    // --- ban with a duration ends
    admin_query(&mut adm, &format!("BAN {} 1", h0))?;
    sleep_ms(3200);
    let r = run(&mut c, 80);
    if !r.iter().any(|x| x.1.as_deref() == Some(l0.as_str())) {
        rep.violation("C07|ban_did_not_end_after_its_duration", &format!("BAN {} 1 was issued, 3.2 s later 80 replica-role transactions all avoided it", h0), json!({"seed": seed}));
    } else {
        rep.count("ban_expiries_observed", 1);
    }
    // --- primary can never be banned
    if let Some(p) = lay.primary {
        let hp = lay.cell.mocks[p].host();
        admin_query(&mut adm, &format!("BAN {} 30", hp))?;
        let rows = admin_rows(&mut adm, "SHOW BANS")?;
        if rows.iter().any(|r| r.get("host") == Some(&hp)) {
            rep.violation("C07|primary_listed_in_show_bans", &format!("after BAN {} the primary appears in SHOW BANS", hp), json!({"seed": seed, "rows": rows}));
        }
        let mut cp = Conn::connect(&addr, &StartupOpts::new(USER, "db", PASS).app("sp")).map_err(|e| e.to_string())?;
        cp.query("SET SERVER ROLE TO 'primary'", 5000).map_err(|e| format!("{:?}", e.1))?;
        let r = cp.query(&format!("SELECT 1 {}", tag("sp", "sp.q1", "rows=1")), 10_000);
        let ok = r.as_ref().map(|m| first_error(m).is_none()).unwrap_or(false);
        if !ok {
            rep.violation("C07|primary_unusable_after_admin_ban", "primary-role transaction failed after an admin BAN naming the primary's host", json!({"seed": seed}));
        } else {
            rep.count("primary_never_banned_checks", 1);
        }
    }
    Ok(())
}

/// Two shards: bans in one shard must not influence the other (unban-all is per shard).
/// One replica sits on every statement (never answers), the other is healthy; clients that give
/// up after 120 ms and reset their connection, and clients that wait. Either way the hung replica
/// must be banned once the statement timeout has passed, and then be left alone.
fn hung_replica_and_impatient_clients(seed: u64, rep: &Report) -> Result<(), String> {
    let mut rng = Rng::new(seed);
    let mut lay = build(&mut rng, 2, true, false)?;
    let hung = lay.replicas[0];
    let labels = lay.cell.labels();
    let addr = lay.cell.addr();
    let impatient = rng.chance(2, 3);
    // the replica either hangs on everything (also on the pooler's own round trips: health check,
    // parameter sync) or only on client statements (the statement timeout is what detects it)
    // ... or it goes silent in the MIDDLE of a large reply (after the first 8 KiB have been relayed)
    let hang_kind = rng.below(3);
    let everything = hang_kind == 0;
    let mid_reply = hang_kind == 2;
    if everything {
        lay.cell.mocks[hung].ctl.q_hang.store(true, Ordering::SeqCst);
    } else if mid_reply {
        lay.cell.mocks[hung].ctl.mid_after.store(12_000, Ordering::SeqCst);
        lay.cell.mocks[hung].ctl.mid_mode.store(MID_HANG, Ordering::SeqCst);
    } else {
        lay.cell.mocks[hung].ctl.tag_hang.store(true, Ordering::SeqCst);
    }
    let t_on = now_ns();
    let mut reached_hung = 0;
    for k in 0..12 {
        let mut c = Conn::connect(&addr, &StartupOpts::new(USER, "db", PASS).app("imp")).map_err(|e| e.to_string())?;
        let _ = c.query("SET SERVER ROLE TO 'replica'", 5000);
        let qid = format!("imp.q{}", k);
        let r = c.query(&format!("SELECT 1 {}", tag("imp", &qid, if mid_reply { "rows=40 w=1000" } else { "rows=1" })), if impatient { 120 } else { 5000 });
        match r {
            Err((_, crate::wire::ReadErr::Timeout)) => {
                reached_hung += 1;
                c.close_rst();
            }
            Ok(m) => {
                if first_error(&m).is_some() {
                    reached_hung += 1;
                }
                c.terminate();
            }
            Err((m, e)) => {
                reached_hung += 1;
                if !impatient && e == crate::wire::ReadErr::Timeout {
                    rep.violation(
                        &format!("C07|client_blocked_beyond_configured_timeouts|hangs_on={}", if everything { "every_message" } else if mid_reply { "middle_of_a_large_reply" } else { "client_statements" }),
                        &format!("a client waited 5 s for {} (connect / health-check / statement timeouts are {}/{}/{} ms) while {} hung; got {}", qid, CONNECT_MS, HC_MS, STMT_MS, labels[hung], summarize(&m)),
                        json!({"seed": seed, "log": lay.cell.pg().log_tail(6)}),
                    );
                }
            }
        }
        if reached_hung >= 1 {
            break;
        }
    }
    if reached_hung == 0 {
        return Err("no statement reached the hung replica".into());
    }
    // statement timeout (400 ms) + slack
    sleep_ms(STMT_MS + 700);
    rep.count("hung_replica_scenarios", 1);
    let needle = format!("\"host\":\"{}\",\"port\":{}", lay.cell.mocks[hung].host(), lay.cell.mocks[hung].port);
    let banned = lay.cell.pg().events().iter().any(|(t, k, line)| k == "ban" && *t >= t_on && line.contains(&needle));
    if !banned {
        rep.violation(
            &format!("C07|replica_hung_on_a_statement_beyond_statement_timeout_was_not_banned|client={}|hangs_on={}", if impatient { "reset_its_connection_first" } else { "waited" }, if everything { "every_message" } else if mid_reply { "middle_of_a_large_reply" } else { "client_statements" }),
            &format!("{} sat on a client statement for more than the statement timeout ({} ms); the client {}; no ban followed", labels[hung], STMT_MS, if impatient { "had reset its connection after 120 ms" } else { "waited for the pooler's error" }),
            json!({"seed": seed, "needle": needle, "events": lay.cell.pg().events().iter().filter(|e| e.1.starts_with("ban")).map(|e| format!("{} {} {}", e.0, e.1, e.2)).collect::<Vec<_>>(), "reached_hung": reached_hung, "log": lay.cell.pg().log_text().lines().filter(|l| l.contains("Banning") || l.contains("timeout") || l.contains("ERROR")).map(|l| l.chars().take(200).collect::<String>()).collect::<Vec<_>>()}),
        );
    }
    // while it is banned (and still hung) patient clients are served by the other replica at once
    for k in 0..6 {
        let mut c = Conn::connect(&addr, &StartupOpts::new(USER, "db", PASS).app("pat")).map_err(|e| e.to_string())?;
        let _ = c.query("SET SERVER ROLE TO 'replica'", 5000);
        let qid = format!("pat.q{}", k);
        let t0 = now_ns();
        let r = c.query(&format!("SELECT 1 {}", tag("pat", &qid, "rows=1")), 5000);
        let ms = (now_ns() - t0) / 1_000_000;
        let ok = matches!(&r, Ok(m) if first_error(m).is_none());
        if banned && (!ok || ms > 300) {
            rep.violation(
                "C07|banned_hung_replica_still_tried",
                &format!("after {} had been banned for hanging, a replica transaction took {} ms / failed ({})", labels[hung], ms, match &r { Ok(m) => summarize(m), Err((m, e)) => format!("{:?} {}", e, summarize(m)) }),
                json!({"seed": seed}),
            );
            break;
        }
        c.terminate();
    }
    lay.cell.mocks[hung].ctl.heal();
    lay.cell.mocks[hung].ctl.tag_hang.store(false, Ordering::SeqCst);
    Ok(())
}

fn scripted_multishard(seed: u64, rep: &Report) -> Result<(), String> {
    use crate::pgcat::{ShardCfg, UserCfg};
    let mut rng = Rng::new(seed);
    let mut cell = Cell::new();
    let mut pool = PoolCfg::new("db");
    let nshards = 2;
    let nrep = rng.range(2, 3) as usize;
    let mut reps: Vec<Vec<usize>> = vec![];
    for s in 0..nshards {
        let mut servers = vec![];
        let p = cell.add_mock(&format!("db.s{}.primary.0", s));
        servers.push(cell.server(p, "primary"));
        let mut rs = vec![];
        for k in 0..nrep {
            let m = cell.add_mock(&format!("db.s{}.replica.{}", s, k + 1));
            servers.push(cell.server(m, "replica"));
            rs.push(m);
        }
        reps.push(rs);
        pool.shards.push(ShardCfg { id: s.to_string(), database: format!("d{}", s), servers, mirrors: vec![] });
    }
    pool.users.push(UserCfg::new(USER, PASS, 3));
    let mut cfg = Cfg::new();
    cfg.pools.push(pool);
    cfg.gset("ban_time", "60");
    cell.start_pgcat(&cfg, &StartOpts::default()).map_err(|e| format!("start: {:?}", e))?;
    let mut adm = cell.pg().admin().map_err(|e| format!("admin: {}", e))?;
    // ban (nrep - 1) replicas in shard 0 and 1 replica in shard 1: in total as many bans as one
    // shard has replicas, but no shard has all of its replicas banned
    let mut banned: Vec<usize> = vec![];
    for k in 0..nrep - 1 {
        banned.push(reps[0][k]);
    }
    banned.push(reps[1][0]);
    for m in &banned {
        admin_query(&mut adm, &format!("BAN {} 60", cell.mocks[*m].host()))?;
    }
    let bans_before = admin_rows(&mut adm, "SHOW BANS")?.len();
    let mut c = Conn::connect(&cell.addr(), &StartupOpts::new(USER, "db", PASS).app("ms")).map_err(|e| e.to_string())?;
    c.query("SET SERVER ROLE TO 'replica'", 5000).map_err(|e| format!("{:?}", e.1))?;
    let mut n = 0;
    for shard in 0..nshards {
        c.query(&format!("SET SHARD TO '{}'", shard), 5000).map_err(|e| format!("{:?}", e.1))?;
        for _ in 0..40 {
            n += 1;
            let qid = format!("ms.q{}", n);
            let r = c.query(&format!("SELECT 1 {}", tag("ms", &qid, "rows=1")), 10_000).map_err(|(m, e)| format!("{:?} {}", e, summarize(&m)))?;
            rep.count("multishard_statements", 1);
            if let Some((_, msg)) = first_error(&r) {
                rep.violation("C07|transaction_refused_although_unbanned_replica_exists|multishard", &format!("shard {}: {}", shard, msg), json!({"seed": seed}));
                continue;
            }
            let served = row_idents(&r).first().map(|x| x.0.clone()).unwrap_or_default();
            if banned.iter().any(|m| cell.mocks[*m].label == served) {
                rep.violation(
                    "C07|admin_banned_replica_received_client_statement|multishard",
                    &format!("{} is banned (bans are spread over {} shards, no shard has all replicas banned) but served {} of shard {}", served, nshards, qid, shard),
                    json!({"seed": seed, "replicas_per_shard": nrep}),
                );
            }
            if !served.starts_with(&format!("db.s{}.replica", shard)) {
                rep.violation("C07|served_by_wrong_shard_or_role|multishard", &format!("{} (shard {}, role replica) was served by {}", qid, shard, served), json!({"seed": seed}));
            }
        }
    }
    let bans_after = admin_rows(&mut adm, "SHOW BANS")?.len();
    if bans_after != bans_before {
        rep.violation("C07|bans_lifted_although_no_shard_had_all_replicas_banned|multishard", &format!("SHOW BANS went from {} to {} rows without UNBAN or expiry", bans_before, bans_after), json!({"seed": seed}));
    } else {
        rep.count("multishard_ban_sets_intact", 1);
    }
    Ok(())
}

pub fn run(tier: &str) -> i32 {
    let rep = Report::new(
        "C07",
        tier,
        "fault_enumeration",
        "random leg: shards with 1-3 replicas, with/without primary, both load-balancing modes, health check always/never, 6-14 looping clients with role any/primary/replica, fault scripts of 1-6 steps over {down, accept-and-hang, hang on query, health-check hang, close mid-reply, slow, admin BAN, BAN+UNBAN}; oracles on the mock log (incl. every health check left unanswered beyond its timeout must be followed by a ban), client outcomes/latencies, pgcat ban hook events and SHOW BANS samples, with happens-before margins; scripted legs: a replica hung on a statement with clients that wait or reset their connection first => banned; admin BAN / UNBAN / all-banned => unban-all / ban expiry / primary never banned; distinct = distinct (layout, fault kinds) scripts",
    );
    rep.assume("a statement is judged against a ban only if sent >20 ms after pgcat's ban hook event and before ban_time elapsed, with no UNBAN and not all replicas banned");
    rep.assume("an error is excused only if the statement reached a server that had a fault active, or no candidate of the requested role was continuously healthy and untouched for ban_time+2 s before");
    let thorough = rep.thorough();
    let n = if thorough { 900 } else { 60 };
    let mut rng = Rng::new(rep.seed ^ 0xC07);
    let seeds: Vec<u64> = (0..n).map(|_| rng.next()).collect();
    // (half the cores: the scenarios' verdicts depend on 200-400 ms timeouts of the pooler, and
    // sixteen cells of busy clients are themselves a load that delays health checks)
    run_parallel(n, (workers() / 2).max(1), |i| {
        rep.eval(1);
        let r = rep.realtime_scenario(|| {
            if i % 6 == 5 {
                scripted(seeds[i], &rep)
            } else if i % 12 == 9 {
                broken_during_prepare(seeds[i], &rep)
            } else if i % 12 == 3 {
                hung_replica_and_impatient_clients(seeds[i], &rep)
            } else if i % 6 == 4 {
                scripted_multishard(seeds[i], &rep)
            } else {
                random_faults(seeds[i], thorough, &rep)
            }
        });
        if let Err(e) = r {
            rep.inconclusive(&e);
        }
    });
    rep.finish(&[
        ("transactions_observed", 5000),
        ("statements_sent_during_a_ban", 50),
        ("unban_all_events", 3),
        ("ban_expiries_observed", 3),
        ("hung_replica_scenarios", 1),
    ])
}
