//! Transaction workload runner shared by C01 / C02 (generic leg) / C04 / C18:
//! N scripted clients run generated transactions against one pool, with random think times
//! and random abrupt exits; returns the traces and leaves the mock log in the cell.

use super::common::*;
use crate::cell::Cell;
use crate::pgcat::{Cfg, StartOpts};
use crate::util::{now_ns, sleep_ms, Rng};
use crate::wire::Conn;
use crate::wl::{gen_txn, run_txn, ClientTrace, GenOpts, Outcome};

#[derive(Clone, Debug)]
pub struct TxwParams {
    pub seed: u64,
    pub mode: String,
    pub pool_size: u32,
    pub clients: usize,
    pub txns_per_client: usize,
    pub worker_threads: u32,
    pub abort_pct: u64,
    pub think_max_ms: u64,
    pub connect_timeout_ms: u64,
    pub jitter_us: u64,
    pub gen: GenOpts,
    pub replicas: usize,
    pub stagger_ms: u64,
    /// stall the pre-use health check now and then (answered late, not never)
    pub hc_stall: bool,
    /// prepared_statements_cache_size (0 = caching off)
    pub cache: u64,
    /// all clients announce the same application_name (no parameter sync between hand-overs:
    /// nothing the pooler sends on its own stands between two clients' statements)
    pub same_app: bool,
    /// prewarmer plugin on: every new server connection first runs a pooler-issued query whose
    /// reply is this many rows of 400 bytes (0 = plugin off)
    pub prewarm_rows: u64,
}

impl TxwParams {
    pub fn describe(&self) -> String {
        format!(
            "mode={} pool_size={} clients={} txns={} workers={} abort%={} jitter_us={} replicas={} hc_stall={} cache={} same_app={} prewarm_rows={}",
            self.mode,
            self.pool_size,
            self.clients,
            self.txns_per_client,
            self.worker_threads,
            self.abort_pct,
            self.jitter_us,
            self.replicas,
            self.hc_stall,
            self.cache,
            self.same_app,
            self.prewarm_rows
        )
    }
}

pub struct TxwRun {
    pub cell: Cell,
    pub traces: Vec<ClientTrace>,
    pub params: TxwParams,
    pub cfg: Cfg,
}

pub fn build(p: &TxwParams) -> (Cell, Cfg) {
    let mut roles = vec!["primary"];
    for _ in 0..p.replicas {
        roles.push("replica");
    }
    let (cell, mut cfg) = simple_cell(&roles, p.pool_size, &p.mode);
    cfg.gset("worker_threads", &p.worker_threads.to_string());
    cfg.gset("connect_timeout", &p.connect_timeout_ms.to_string());
    if p.cache > 0 {
        cfg.pools[0].set("prepared_statements_cache_size", &p.cache.to_string());
    }
    if p.prewarm_rows > 0 {
        cfg.pools[0].set("query_parser_enabled", "true");
        cfg.pools[0].raw_tables = format!(
            "\n[pools.{{POOL}}.plugins]\n\n[pools.{{POOL}}.plugins.prewarmer]\nenabled = true\nqueries = [\"SELECT * FROM warm /*v c=prewarmer q=prewarm.q rows={} w=400 */\"]\n",
            p.prewarm_rows
        );
    }
    if p.hc_stall {
        cfg.gset("healthcheck_delay", "0");
        cfg.gset("healthcheck_timeout", "80");
    }
    (cell, cfg)
}

/// Run the workload. Err = environmental problem (inconclusive).
pub fn run(p: &TxwParams) -> Result<TxwRun, String> {
    let (mut cell, cfg) = build(p);
    let mut so = StartOpts::default();
    if p.jitter_us > 0 {
        so.jitter = Some(format!("{}:{}", p.seed, p.jitter_us));
    }
    cell.start_pgcat(&cfg, &so)
        .map_err(|e| format!("pgcat start: {:?}", e))?;
    let stop = std::sync::Arc::new(std::sync::atomic::AtomicBool::new(false));
    let stall_thread = if p.hc_stall {
        let ctls: Vec<_> = cell.mocks.iter().map(|m| m.ctl.clone()).collect();
        let stop2 = stop.clone();
        let seed = p.seed;
        Some(std::thread::spawn(move || {
            let mut rng = Rng::new(seed ^ 0x5747);
            while !stop2.load(std::sync::atomic::Ordering::SeqCst) {
                sleep_ms(rng.range(20, 120));
                let c = rng.pick(&ctls).clone();
                c.hc_hang.store(true, std::sync::atomic::Ordering::SeqCst);
                sleep_ms(rng.range(120, 300));
                c.hc_hang.store(false, std::sync::atomic::Ordering::SeqCst);
            }
        }))
    } else {
        None
    };
    let traces = run_clients(&cell, p);
    stop.store(true, std::sync::atomic::Ordering::SeqCst);
    if let Some(t) = stall_thread {
        let _ = t.join();
    }
    for m in &cell.mocks {
        m.ctl.heal();
    }
    Ok(TxwRun {
        cell,
        traces,
        params: p.clone(),
        cfg,
    })
}

pub fn run_clients(cell: &Cell, p: &TxwParams) -> Vec<ClientTrace> {
    let addr = cell.addr();
    let mut handles = vec![];
    for ci in 0..p.clients {
        let addr = addr.clone();
        let p = p.clone();
        handles.push(
            std::thread::Builder::new()
                .stack_size(512 * 1024)
                .spawn(move || client_main(&addr, ci, &p))
                .unwrap(),
        );
    }
    handles.into_iter().map(|h| h.join().unwrap()).collect()
}

fn client_main(addr: &str, ci: usize, p: &TxwParams) -> ClientTrace {
    let mut rng = Rng::new(p.seed ^ (ci as u64 + 1).wrapping_mul(0xA24BAED4963EE407));
    let cid = format!("c{}", ci);
    let mut tr = ClientTrace {
        id: cid.clone(),
        ..Default::default()
    };
    if p.stagger_ms > 0 {
        sleep_ms(rng.below(p.stagger_ms + 1));
    }
    let mut conn = match Conn::connect(
        addr,
        &crate::wire::StartupOpts::new(USER, "db", PASS).app(&if p.same_app { "app_shared".to_string() } else { format!("app_{}", cid) }),
    ) {
        Ok(c) => c,
        Err(e) => {
            tr.connect_err = Some(e.to_string());
            return tr;
        }
    };
    tr.pid = conn.pid;
    tr.t_connect = now_ns();
    let timeout = p.connect_timeout_ms * 6 + 20_000;
    for t in 0..p.txns_per_client {
        let (kind, steps) = gen_txn(&mut rng, &cid, t, &p.gen);
        // vanish in the middle of an autocommit COPY ... FROM STDIN (after CopyInResponse, rows flowing)?
        if rng.below(100) < p.abort_pct && steps.len() == 1 && matches!(steps[0].kind, crate::wl::StepKind::CopyIn { .. }) {
            let _ = conn.send(&steps[0].bytes);
            let mut got_g = false;
            for _ in 0..10 {
                match conn.read_msg(3000) {
                    Ok(m) if m.typ == b'G' => {
                        got_g = true;
                        break;
                    }
                    Ok(_) => {}
                    Err(_) => break,
                }
            }
            if got_g {
                let _ = conn.send(&crate::proto::copy_data(b"0\tvanishing\n"));
                sleep_ms(rng.below(5));
            }
            tr.t_close = now_ns();
            match rng.below(3) {
                0 => {
                    tr.how_closed = "terminate_mid_copy_in".into();
                    conn.terminate();
                }
                1 => {
                    tr.how_closed = "fin_mid_copy_in".into();
                    conn.close_fin();
                }
                _ => {
                    tr.how_closed = "rst_mid_copy_in".into();
                    conn.close_rst();
                }
            }
            return tr;
        }
        // abrupt exit in the middle of this transaction?
        if rng.below(100) < p.abort_pct && steps.len() > 1 {
            let upto = rng.range(1, steps.len() as u64 - 1) as usize;
            let res = run_txn(&mut conn, &kind, &steps[..upto], timeout);
            tr.txns.push(res);
            tr.t_close = now_ns();
            match rng.below(4) {
                3 => {
                    // malformed Close (no body): pgcat's decoder fails while a server is borrowed
                    tr.how_closed = "malformed_close_mid_txn".into();
                    let _ = conn.send(&crate::proto::Msg::new(b'C', vec![]).encode());
                    let _ = conn.drain_to_eof(3000);
                    conn.close_fin();
                }
                0 => {
                    tr.how_closed = "terminate_mid_txn".into();
                    conn.terminate();
                }
                1 => {
                    tr.how_closed = "fin_mid_txn".into();
                    conn.close_fin();
                }
                _ => {
                    tr.how_closed = "rst_mid_txn".into();
                    conn.close_rst();
                }
            }
            return tr;
        }
        let res = run_txn(&mut conn, &kind, &steps, timeout);
        let broken = res
            .steps
            .iter()
            .any(|s| matches!(s.outcome, Outcome::Eof | Outcome::Timeout | Outcome::Io(_)));
        tr.txns.push(res);
        if broken {
            tr.t_close = now_ns();
            tr.how_closed = "connection_lost".into();
            return tr;
        }
        if p.think_max_ms > 0 {
            let d = rng.below(p.think_max_ms * 1000 + 1);
            if d > 0 {
                std::thread::sleep(std::time::Duration::from_micros(d));
            }
        }
    }
    tr.t_close = now_ns();
    tr.how_closed = "terminate".into();
    conn.terminate();
    tr
}
