//! C05 / C06 / C13 / C19: library-level leg (pgv-lib) + wire-level leg against labelled mocks.

use super::common::*;
use super::libleg;
use crate::cell::{run_parallel, workers, Cell};
use crate::evlog::{Ev, Origin};
use crate::mock::*;
use crate::pgcat::{Cfg, PoolCfg, ShardCfg, StartOpts, UserCfg};
use crate::proto::{self, Msg};
use crate::report::Report;
use crate::sql::tag;
use crate::util::{printable, sleep_ms, Rng};
use crate::wire::{first_error, row_idents, summarize, Conn, StartupOpts};
use serde_json::json;
use std::collections::HashMap;
use std::sync::atomic::Ordering;

fn arrivals(cell: &Cell) -> HashMap<String, Vec<String>> {
    let labels = cell.labels();
    let mut m: HashMap<String, Vec<String>> = HashMap::new();
    for e in cell.log.snapshot() {
        if let Ev::MockMsg { b, qid: Some(q), .. } = &e.ev {
            let l = labels[*b].clone();
            let v = m.entry(q.clone()).or_default();
            if !v.contains(&l) {
                v.push(l);
            }
        }
    }
    m
}

// =====================================================================================  C05

struct Stmt {
    sql: &'static str,
    write: bool,
    shape: &'static str,
}

const C05_STMTS: &[Stmt] = &[
    Stmt { sql: "SELECT * FROM t1 WHERE id = 1", write: false, shape: "select" },
    Stmt { sql: "SELECT a FROM t1 UNION SELECT a FROM t2", write: false, shape: "select_union" },
    Stmt { sql: "WITH c AS (SELECT 1 AS x) SELECT * FROM c", write: false, shape: "cte_read" },
    Stmt { sql: "SELECT * FROM (SELECT * FROM t1) s", write: false, shape: "subquery_from" },
    Stmt { sql: "SELECT (SELECT max(id) FROM t2) FROM t1", write: false, shape: "subquery_scalar" },
    Stmt { sql: "SELECT * FROM t1 WHERE id IN (SELECT id FROM t2)", write: false, shape: "subquery_where" },
    Stmt { sql: "INSERT INTO t1 (id) VALUES (1)", write: true, shape: "insert" },
    Stmt { sql: "UPDATE t1 SET a = 2 WHERE id = 1", write: true, shape: "update" },
    Stmt { sql: "DELETE FROM t1 WHERE id = 1", write: true, shape: "delete" },
    Stmt { sql: "CREATE TABLE x9 (id int)", write: true, shape: "ddl_create" },
    Stmt { sql: "TRUNCATE t1", write: true, shape: "truncate" },
    Stmt { sql: "WITH t AS (INSERT INTO t1 (id) VALUES (1) RETURNING *) SELECT * FROM t", write: true, shape: "cte_insert_returning" },
    Stmt { sql: "WITH t AS (UPDATE t1 SET a = 1 RETURNING *) SELECT * FROM t", write: true, shape: "cte_update_returning" },
    Stmt { sql: "SELECT * INTO t9 FROM t1", write: true, shape: "select_into" },
    Stmt { sql: "SELECT * FROM t1 FOR UPDATE", write: true, shape: "for_update" },
    Stmt { sql: "SELECT * FROM t1 FOR SHARE", write: true, shape: "for_share" },
    Stmt { sql: "SELECT * FROM (SELECT * FROM t1 FOR UPDATE) s", write: true, shape: "nested_for_update" },
    Stmt { sql: "SELECT * FROM t1 WHERE id IN (SELECT id FROM t2 FOR SHARE)", write: true, shape: "nested_for_share" },
    Stmt { sql: "UPDATE t1 SET a = 1; SELECT * FROM t1", write: true, shape: "multi_write_then_read" },
    Stmt { sql: "SELECT * FROM t1; UPDATE t1 SET a = 1", write: true, shape: "multi_read_then_write" },
    Stmt { sql: "SELECT * FROM t1 FOR SHARE; SELECT * FROM t2", write: true, shape: "multi_lock_then_read" },
    Stmt { sql: "SELECT * FROM t1; SELECT * FROM t2", write: false, shape: "multi_reads" },
];

fn c05_wire(seed: u64, rep: &Report) -> Result<(), String> {
    let mut rng = Rng::new(seed);
    let primary_reads = rng.chance(1, 3);
    let default_role = *rng.pick(&["any", "replica"]);
    let mut cell = Cell::new();
    let p = cell.add_mock("db.s0.primary.0");
    let r1 = cell.add_mock("db.s0.replica.1");
    let r2 = cell.add_mock("db.s0.replica.2");
    let mut cfg = Cfg::new();
    let mut pool = PoolCfg::single("db", USER, PASS, 3, vec![cell.server(p, "primary"), cell.server(r1, "replica"), cell.server(r2, "replica")]);
    pool.set("query_parser_enabled", "true");
    pool.set("query_parser_read_write_splitting", "true");
    pool.set("primary_reads_enabled", if primary_reads { "true" } else { "false" });
    pool.set("default_role", &format!("\"{}\"", default_role));
    // a third of the scenarios on a pool with a second shard, the client never selecting one: which
    // shard serves a statement is then the pool's default_shard policy, its role still the router's
    let default_shard = if rng.chance(1, 3) { *rng.pick(&["shard_0", "random", "random_healthy", "shard_1"]) } else { "" };
    if !default_shard.is_empty() {
        let p1 = cell.add_mock("db.s1.primary.0");
        let r3 = cell.add_mock("db.s1.replica.1");
        pool.shards.push(crate::pgcat::ShardCfg { id: "1".into(), database: "db1".into(), servers: vec![cell.server(p1, "primary"), cell.server(r3, "replica")], mirrors: vec![] });
        pool.set("default_shard", &format!("\"{}\"", default_shard));
        rep.set_add("wire_default_shard_policy", default_shard);
    }
    cfg.pools.push(pool);
    cfg.gset("connect_timeout", "400");
    cell.start_pgcat(&cfg, &StartOpts::default()).map_err(|e| format!("start: {:?}", e))?;
    let mut c = connect(&cell, "w").map_err(|e| e.to_string())?;
    let cfgname = format!("primary_reads={},default_role={}{}", primary_reads, default_role, if default_shard.is_empty() { String::new() } else { format!(",default_shard={}", default_shard) });
    // (qid, write?, shape, session role override)
    let mut sent: Vec<(String, bool, &'static str, String, bool)> = vec![];
    let mut session = "auto".to_string();
    let n = rng.range(40, 120);
    for i in 0..n {
        if rng.chance(1, 8) {
            session = rng.pick(&["primary", "replica", "any", "auto", "default"]).to_string();
            let r = c.query(&format!("SET SERVER ROLE TO '{}'", session), 5000).map_err(|e| format!("set role: {:?}", e.1))?;
            if first_error(&r).is_some() {
                return Err(format!("SET SERVER ROLE answered {}", summarize(&r)));
            }
            continue;
        }
        let st = rng.pick(C05_STMTS);
        let qid = format!("w.q{}", i);
        let use_ext = rng.chance(1, 4) && !st.sql.contains(';');
        let text = format!("{} {}", st.sql, tag("w", &qid, ""));
        let r = if use_ext {
            let mut b = proto::parse("", &text, &[]);
            b.extend(proto::bind("", "", &[], &[], &[]));
            b.extend(proto::execute("", 0));
            b.extend(proto::sync());
            c.send(&b).map_err(|e| e.to_string())?;
            c.read_until_ready(8000)
        } else {
            c.query(&text, 8000)
        };
        match r {
            Ok(m) => {
                if let Some((code, msg)) = first_error(&m) {
                    if code == "58000" {
                        return Err(format!("pooler error on {}: {}", st.shape, msg));
                    }
                }
            }
            Err((m, e)) => return Err(format!("{}: {:?} {}", qid, e, summarize(&m))),
        }
        sent.push((qid, st.write, st.shape, session.clone(), use_ext));
    }
    let arr = arrivals(&cell);
    for (qid, write, shape, session, ext) in &sent {
        let at = match arr.get(qid) {
            Some(a) => a.clone(),
            None => {
                rep.violation(&format!("C05|statement_never_reached_a_server|shape={}", shape), &format!("{} never arrived at any server", qid), json!({"seed": seed}));
                continue;
            }
        };
        rep.count("wire_statements_routed", 1);
        rep.distinct_str(&format!("{}|{}|{}|{}", shape, cfgname, session, ext));
        let on_primary = at.iter().all(|l| l.contains(".primary."));
        let on_replica = at.iter().all(|l| l.contains(".replica."));
        let proto_name = if *ext { "extended" } else { "simple" };
        match session.as_str() {
            "primary" => {
                if !on_primary {
                    rep.violation(&format!("C05|explicit_role_not_honoured|set=primary|shape={}", shape), &format!("after SET SERVER ROLE TO 'primary', {} ({}) ran on {:?}", qid, shape, at), json!({"seed": seed, "cfg": cfgname}));
                }
            }
            "replica" => {
                // reads must be on a replica; writes under an explicit replica choice are don't-care
                if !*write && !on_replica {
                    rep.violation(&format!("C05|explicit_role_not_honoured|set=replica|shape={}", shape), &format!("after SET SERVER ROLE TO 'replica', {} ({}) ran on {:?}", qid, shape, at), json!({"seed": seed, "cfg": cfgname}));
                }
            }
            "any" => {}
            _ => {
                // parser decides ("auto"), or pool default ("default": parser still enabled by pool config)
                if session == "default" && default_role == "replica" && !*write {
                    if !on_replica && !primary_reads {
                        rep.violation(&format!("C05|plain_read_pinned_to_primary|shape={}|{}", shape, proto_name), &format!("{} ({}) ran on {:?} with primary reads off", qid, shape, at), json!({"seed": seed, "cfg": cfgname}));
                    }
                } else if *write {
                    if !on_primary {
                        rep.violation(
                            &format!("C05|non_read_not_on_primary|shape={}|{}|primary_reads={}", shape, proto_name, primary_reads),
                            &format!("{} ({}: `{}`) ran on {:?}; config {} session {}", qid, shape, C05_STMTS.iter().find(|s| s.shape == *shape).map(|s| s.sql).unwrap_or(""), at, cfgname, session),
                            json!({"seed": seed, "cfg": cfgname}),
                        );
                    }
                } else if !primary_reads && on_primary {
                    rep.violation(&format!("C05|plain_read_pinned_to_primary|shape={}|{}", shape, proto_name), &format!("{} ({}) ran on the primary although primary reads are off and nothing asked for it (session {})", qid, shape, session), json!({"seed": seed, "cfg": cfgname}));
                }
            }
        }
    }
    // wrong-role substitute: replicas down, explicit replica request must fail rather than use the primary
    let r = c.query("SET SERVER ROLE TO 'replica'", 5000).map_err(|e| format!("{:?}", e.1))?;
    let _ = r;
    for m in [r1, r2] {
        cell.mocks[m].ctl.listen.store(LISTEN_DOWN, Ordering::SeqCst);
        cell.mocks[m].ctl.kill_sessions();
    }
    sleep_ms(30);
    for k in 0..3 {
        let qid = format!("w.sub{}", k);
        let r = c.query(&format!("SELECT 1 {}", tag("w", &qid, "")), 8000);
        rep.count("wire_substitute_trials", 1);
        let a = arrivals(&cell);
        if let Some(at) = a.get(&qid) {
            if at.iter().any(|l| l.contains(".primary.")) {
                rep.violation("C05|primary_used_as_substitute_for_replica", &format!("with every replica down and SET SERVER ROLE TO 'replica', {} was served by the primary", qid), json!({"seed": seed}));
            }
        }
        if r.is_err() {
            break;
        }
    }
    Ok(())
}

pub fn run_c05(tier: &str) -> i32 {
    let rep = Report::new("C05", tier, "exploration",
        "lib leg: statements assembled from an explicit grammar (generator knows read / not-a-read by construction) x default_role x primary_reads x session overrides x simple/Parse, judged on QueryRouter::role() after parse+infer; wire leg: labelled statement shapes (incl. data-modifying CTEs, SELECT INTO, nested locking clauses, multi-statement messages) over simple and extended protocol against 1 primary + 2 replicas, judged on the role label of the mock that received each tagged statement, plus explicit SET SERVER ROLE sequences and the no-substitute rule; distinct = lib shapes + wire (shape,config,session,protocol) cells");
    let lib_ok = libleg::run("C05", &rep, libleg::identity);
    let n = if rep.thorough() { 400 } else { 40 };
    let mut rng = Rng::new(rep.seed ^ 0xC05);
    let seeds: Vec<u64> = (0..n).map(|_| rng.next()).collect();
    run_parallel(n, workers(), |i| {
        rep.eval(1);
        if let Err(e) = c05_wire(seeds[i], &rep) {
            rep.inconclusive(&e);
        }
    });
    rep.sample(json!({"wire_statement_shapes": C05_STMTS.iter().map(|s| format!("{}:{}", s.shape, if s.write {"not-a-read"} else {"read"})).collect::<Vec<_>>()}));
    let mut mins = vec![("wire_statements_routed", 1000)];
    if lib_ok {
        mins.push(("lib_evaluations", 100_000));
    }
    rep.finish(&mins)
}

// =====================================================================================  C06

fn ref_shards(func: &str, n: usize, keys: &[i64]) -> Result<Vec<usize>, String> {
    let out = std::process::Command::new(libleg::lib_bin())
        .arg("ref-shard")
        .arg(func)
        .arg(n.to_string())
        .args(keys.iter().map(|k| k.to_string()))
        .output()
        .map_err(|e| format!("ref-shard: {}", e))?;
    if !out.status.success() {
        return Err("ref-shard failed".into());
    }
    Ok(String::from_utf8_lossy(&out.stdout).lines().filter_map(|l| l.trim().parse().ok()).collect())
}

fn c06_wire(seed: u64, rep: &Report) -> Result<(), String> {
    let mut rng = Rng::new(seed);
    let n = *rng.pick(&[2usize, 3, 5, 12, 16]); // 12, 16: numeric order of shard ids differs from their textual order
    let func = if rng.chance(1, 4) { "sha1" } else { "pg_bigint_hash" };
    let mut cell = Cell::new();
    let mut pool = PoolCfg::new("sh");
    for s in 0..n {
        let m = cell.add_mock(&format!("sh.s{}.primary.0", s));
        pool.shards.push(ShardCfg { id: s.to_string(), database: format!("shard{}", s), servers: vec![cell.server(m, "primary")], mirrors: vec![] });
    }
    pool.users.push(UserCfg::new(USER, PASS, 2));
    pool.set("query_parser_enabled", "true");
    pool.set("sharding_function", &format!("\"{}\"", func));
    pool.set("automatic_sharding_key", "\"data.id\"");
    pool.set("sharding_key_regex", "'/\\* sharding_key: (\\d+) \\*/'");
    pool.set("shard_id_regex", "'/\\* shard_id: (\\d+) \\*/'");
    pool.set("query_parser_read_write_splitting", "true");
    // a third of the scenarios with activity-based primary routing on (reads of recently written
    // tables, and everything during the initial delay, go to the primary: the ROLE may change, the
    // shard of a key must not)
    let activity = rng.chance(1, 3);
    if activity {
        pool.set("db_activity_based_routing", "true");
        pool.set("db_activity_init_delay", *rng.pick(&["1", "400", "5000"]));
    }
    let mut cfg = Cfg::new();
    cfg.pools.push(pool);
    cell.start_pgcat(&cfg, &StartOpts::default()).map_err(|e| format!("start: {:?}", e))?;
    let mut c = Conn::connect(&cell.addr(), &StartupOpts::new(USER, "sh", PASS).app("k")).map_err(|e| e.to_string())?;
    let keys: Vec<i64> = (0..30).map(|_| match rng.below(4) { 0 => rng.below(100) as i64, 1 => rng.next() as i64 & i64::MAX, 2 => rng.below(1 << 33) as i64, _ => rng.below(100000) as i64 }).collect();
    let expect = ref_shards(if func == "sha1" { "sha1" } else { "pg" }, n, &keys)?;
    if expect.len() != keys.len() {
        return Err("reference returned wrong count".into());
    }
    // (qid, expected shard, path)
    let mut sent: Vec<(String, usize, String, i64)> = vec![];
    let mut qn = 0;
    for (k, exp) in keys.iter().zip(expect.iter()) {
        let path = *rng.pick(&["set_sharding_key", "comment_regex", "literal_where", "literal_insert", "bind_text", "bind_binary", "set_sharding_key_sticky", "bind_after_unresolved_bind", "bind_after_unresolved_bind"]);
        qn += 1;
        let qid = format!("k.q{}", qn);
        let t = tag("k", &qid, "");
        let run_q = |c: &mut Conn, sql: &str| -> Result<Vec<Msg>, String> { c.query(sql, 8000).map_err(|(m, e)| format!("{:?} {}", e, summarize(&m))) };
        match path {
            "set_sharding_key" | "set_sharding_key_sticky" => {
                let r = run_q(&mut c, &format!("SET SHARDING KEY TO '{}'", k))?;
                if first_error(&r).is_some() {
                    return Err(format!("SET SHARDING KEY answered {}", summarize(&r)));
                }
                run_q(&mut c, &format!("SELECT * FROM other {}", t))?;
                if path == "set_sharding_key_sticky" {
                    // the selection persists for following transactions
                    for j in 0..2 {
                        let q2 = format!("{}s{}", qid, j);
                        run_q(&mut c, &format!("SELECT * FROM other2 {}", tag("k", &q2, "")))?;
                        sent.push((q2, *exp, "sticky_after_set_sharding_key".into(), *k));
                    }
                }
            }
            "comment_regex" => {
                run_q(&mut c, &format!("/* sharding_key: {} */ SELECT * FROM other {}", k, t))?;
            }
            "literal_where" => {
                run_q(&mut c, &format!("SELECT * FROM data WHERE id = {} {}", k, t))?;
            }
            "literal_insert" => {
                run_q(&mut c, &format!("INSERT INTO data (id, v) VALUES ({}, 'x') {}", k, t))?;
            }
            "bind_after_unresolved_bind" => {
                // first a Bind from which no single shard follows (NULL key, or two keys of different
                // shards), then a statement with another parameter layout: only its own key counts
                let first = format!("{}u", qid);
                let tf = tag("k", &first, "");
                let mut b = vec![];
                // an integer that is the key of ANOTHER shard
                let others: Vec<i64> = (0..40).map(|j| (*k % 1_000_000) + 1 + j).collect();
                let e2 = ref_shards(if func == "sha1" { "sha1" } else { "pg" }, n, &others)?;
                let other = others.iter().zip(e2.iter()).find(|(_, s)| **s != *exp).map(|(o, _)| *o).unwrap_or(*k);
                if rng.chance(1, 2) {
                    b.extend(proto::parse("", &format!("SELECT * FROM data WHERE id = $1 {}", tf), &[]));
                    b.extend(proto::bind("", "", &[], &[None], &[]));
                } else {
                    b.extend(proto::parse("", &format!("SELECT * FROM data WHERE id = $1 OR id = $2 {}", tf), &[]));
                    b.extend(proto::bind("", "", &[], &[Some(k.to_string().into_bytes()), Some(other.to_string().into_bytes())], &[]));
                }
                b.extend(proto::execute("", 0));
                b.extend(proto::sync());
                c.send(&b).map_err(|e| e.to_string())?;
                c.read_until_ready(8000).map_err(|(m, e)| format!("{:?} {}", e, summarize(&m)))?;
                let mut b = proto::parse("", &format!("SELECT * FROM data WHERE v = $1 AND id = $2 {}", t), &[]);
                // (the non-key parameter is itself an integer that hashes to another shard)
                b.extend(proto::bind("", "", &[], &[Some(other.to_string().into_bytes()), Some(k.to_string().into_bytes())], &[]));
                b.extend(proto::execute("", 0));
                b.extend(proto::sync());
                c.send(&b).map_err(|e| e.to_string())?;
                c.read_until_ready(8000).map_err(|(m, e)| format!("{:?} {}", e, summarize(&m)))?;
            }
            "bind_text" | "bind_binary" => {
                let mut b = proto::parse("", &format!("SELECT * FROM data WHERE id = $1 {}", t), &[]);
                if path == "bind_text" {
                    b.extend(proto::bind("", "", &[], &[Some(k.to_string().into_bytes())], &[]));
                } else {
                    b.extend(proto::bind("", "", &[1], &[Some(k.to_be_bytes().to_vec())], &[]));
                }
                b.extend(proto::execute("", 0));
                b.extend(proto::sync());
                c.send(&b).map_err(|e| e.to_string())?;
                c.read_until_ready(8000).map_err(|(m, e)| format!("{:?} {}", e, summarize(&m)))?;
            }
            _ => unreachable!(),
        }
        sent.push((qid, *exp, path.to_string(), *k));
    }
    // SET SHARD: in range sticks, out of range is refused and leaves the shard unchanged
    let cur = rng.below(n as u64) as usize;
    let r = c.query(&format!("SET SHARD TO '{}'", cur), 5000).map_err(|e| format!("{:?}", e.1))?;
    if first_error(&r).is_some() {
        return Err(format!("SET SHARD in range answered {}", summarize(&r)));
    }
    for bad in [n, n + 1, 1000] {
        let r = c.query(&format!("SET SHARD TO '{}'", bad), 5000).map_err(|e| format!("{:?}", e.1))?;
        rep.count("wire_out_of_range_set_shard", 1);
        if first_error(&r).is_none() {
            rep.violation("C06|out_of_range_set_shard_accepted", &format!("SET SHARD TO '{}' with {} shards answered {}", bad, n, summarize(&r)), json!({"seed": seed}));
        }
        let r = c.query("SHOW SHARD", 5000).map_err(|e| format!("{:?}", e.1))?;
        let shown = r.iter().find(|m| m.typ == b'D').map(|m| m.row_strings().join(","));
        if shown.as_deref() != Some(&cur.to_string()) {
            rep.violation("C06|refused_set_shard_changed_current_shard", &format!("after refused SET SHARD TO '{}', SHOW SHARD says {:?}, expected {}", bad, shown, cur), json!({"seed": seed}));
        }
        qn += 1;
        let qid = format!("k.q{}", qn);
        // (a timed-out read would leave the connection one reply behind: give the scenario up instead)
        c.query(&format!("SELECT * FROM other {}", tag("k", &qid, "")), 20_000).map_err(|(m, e)| format!("statement after refused SET SHARD: {:?} {}", e, summarize(&m)))?;
        sent.push((qid, cur, "after_refused_set_shard".into(), -1));
    }
    let arr = arrivals(&cell);
    for (qid, exp, path, k) in &sent {
        rep.count("wire_statements_routed", 1);
        rep.distinct_str(&format!("{}|{}|{}|{}", path, n, func, k));
        match arr.get(qid) {
            None => rep.violation(&format!("C06|statement_never_reached_a_server|path={}", path), &format!("{} (key {}) never arrived", qid, k), json!({"seed": seed})),
            Some(at) => {
                let want = format!("sh.s{}.primary.0", exp);
                if at.len() != 1 || at[0] != want {
                    rep.violation(
                        &format!("C06|statement_on_wrong_shard|path={}|func={}{}", path, func, if activity { "|db_activity_based_routing" } else { "" }),
                        &format!("{} (key {}, {} shards, {}) ran on {:?}, PostgreSQL's partition is shard {}", qid, k, n, func, at, exp),
                        json!({"seed": seed, "key": k, "shards": n}),
                    );
                }
            }
        }
    }
    Ok(())
}

pub fn run_c06(tier: &str) -> i32 {
    let rep = Report::new("C06", tier, "exploration",
        "lib leg: Sharder::shard vs an independent transcription of hashint8extended/hash_combine64/partition modulus (validated on the repo's PostgreSQL-derived vectors) over 2^24 (quick) / all 2^32 (thorough, exhaustive) values of the 32-bit word the hash consumes x 10 shard counts + random 64-bit keys, and agreement of every key-delivery path; wire leg: 2/3/5/12/16 single-server shards, statements delivered by SET SHARDING KEY / comment regex / literal / INSERT VALUES / Bind text / Bind binary / a Bind following one that resolved to no single shard (NULL key, keys of two shards) must land on the mock of the reference shard, selection sticks, out-of-range SET SHARD refused; distinct = lib keys + wire (path,shards,function,key)");
    let lib_ok = libleg::run("C06", &rep, libleg::identity);
    if lib_ok && rep.get("lib:exhaustive_u32") >= 1 {
        rep.extra("exhaustive", json!(true));
        rep.extra("exhaustive_note", json!("exhaustive over all 2^32 values of the folded word consumed by the hash, for 10 shard counts; not exhaustive over 64-bit keys"));
    }
    if !std::path::Path::new(&libleg::lib_bin()).exists() {
        rep.inconclusive("wire leg needs pgv-lib ref-shard for expected shards");
        return rep.finish(&[("wire_statements_routed", 1)]);
    }
    let n = if rep.thorough() { 300 } else { 32 };
    let mut rng = Rng::new(rep.seed ^ 0xC06);
    let seeds: Vec<u64> = (0..n).map(|_| rng.next()).collect();
    run_parallel(n, workers(), |i| {
        rep.eval(1);
        if let Err(e) = c06_wire(seeds[i], &rep) {
            rep.inconclusive(&e);
        }
    });
    rep.finish(&[("wire_statements_routed", 500), ("lib_evaluations", 1_000_000)])
}

// =====================================================================================  C13

fn c13_wire(seed: u64, rep: &Report) -> Result<(), String> {
    let mut rng = Rng::new(seed);
    let n = 3usize;
    let mut cell = Cell::new();
    let mut pool = PoolCfg::new("sh");
    for s in 0..n {
        let p = cell.add_mock(&format!("sh.s{}.primary.0", s));
        let r = cell.add_mock(&format!("sh.s{}.replica.1", s));
        pool.shards.push(ShardCfg { id: s.to_string(), database: format!("shard{}", s), servers: vec![cell.server(p, "primary"), cell.server(r, "replica")], mirrors: vec![] });
    }
    pool.users.push(UserCfg::new(USER, PASS, 2));
    // comment-based routing configured in every combination (the commands are independent of it)
    match rng.below(4) {
        0 => {}
        1 => {
            pool.set("sharding_key_regex", "'/\\* sharding_key: (\\d+) \\*/'");
        }
        2 => {
            pool.set("shard_id_regex", "'/\\* shard_id: (\\d+) \\*/'");
        }
        _ => {
            pool.set("sharding_key_regex", "'/\\* sharding_key: (\\d+) \\*/'");
            pool.set("shard_id_regex", "'/\\* shard_id: (\\d+) \\*/'");
        }
    }
    let mut cfg = Cfg::new();
    cfg.pools.push(pool);
    cell.start_pgcat(&cfg, &StartOpts::default()).map_err(|e| format!("start: {:?}", e))?;
    let mut c = Conn::connect(&cell.addr(), &StartupOpts::new(USER, "sh", PASS).app("m")).map_err(|e| e.to_string())?;
    let case = |rng: &mut Rng, s: &str| -> String { s.chars().map(|ch| if rng.chance(1, 2) { ch.to_ascii_uppercase() } else { ch.to_ascii_lowercase() }).collect() };
    // blanks the grammar allows before the command, before and after the semicolon; up to a few hundred
    let pad = |rng: &mut Rng| -> String { " ".repeat(match rng.below(5) { 0 => rng.range(1, 8) as usize, 1 => rng.range(20, 120) as usize, 2 => rng.range(120, 600) as usize, _ => 0 }) };
    // reference state
    let mut shard: Option<usize> = None;
    let mut role = "any".to_string(); // parser disabled in this pool => default shows "any"
    let mut preads: Option<bool> = None;
    let pool_preads = true;
    let mut qn = 0;
    for _ in 0..rng.range(30, 80) {
        let q = rng.pick(&["'", ""]).to_string();
        let semi = if rng.chance(1, 3) { ";" } else { "" };
        match rng.below(9) {
            0 if rng.chance(1, 8) => {
                // a number that fits no machine word: whatever the pooler makes of it (its own error,
                // or not its business and passed on), the client gets a complete reply and the
                // session's shard stays what it was
                let s = format!("{}{}", rng.range(1, 9), "9".repeat(rng.range(20, 45) as usize));
                let sql = format!("{} {}{}{}{}", case(&mut rng, "set shard to"), q, s, q, semi);
                rep.count("wire_commands", 1);
                rep.count("wire_set_shard_beyond_u64", 1);
                match c.query(&sql, 4000) {
                    Ok(_) => {}
                    Err((m, e)) => {
                        rep.violation("C13|command_got_no_complete_reply|cmd=set_shard|value=beyond_u64", &format!("`{}` got {:?} after {}", sql, e, summarize(&m)), json!({"seed": seed}));
                        return Ok(());
                    }
                }
            }
            0 if rng.chance(1, 4) => {
                // a shard the pool does not have: refused, and the session stays where it was
                let s = n + rng.below(4) as usize;
                let sql = format!("{} {}{}{}{}", case(&mut rng, "set shard to"), q, s, q, semi);
                let r = c.query(&sql, 5000).map_err(|e| format!("{:?}", e.1))?;
                rep.count("wire_commands", 1);
                rep.count("wire_refused_set_shard", 1);
                if first_error(&r).is_none() {
                    rep.violation("C13|set_shard_to_unconfigured_shard_accepted", &format!("`{}` with {} shards answered {}", sql, n, summarize(&r)), json!({"seed": seed}));
                }
                // `shard` (the reference state) is deliberately left unchanged
            }
            0 => {
                let s = rng.below(n as u64) as usize;
                // (numerals of any length: leading zeros do not change the value)
                let zeros = "0".repeat(match rng.below(4) { 0 => rng.range(1, 10) as usize, 1 => rng.range(30, 90) as usize, _ => 0 });
                let sql = format!("{}{} {}{}{}{}{}{}{}", pad(&mut rng), case(&mut rng, "set shard to"), q, zeros, s, q, pad(&mut rng), semi, pad(&mut rng));
                let r = c.query(&sql, 5000).map_err(|e| format!("{:?}", e.1))?;
                rep.count("wire_commands", 1);
                if proto::type_string(&r) != "CZ" {
                    rep.violation("C13|must_accept_command_not_answered_by_pooler|cmd=set_shard", &format!("`{}` answered {}", sql, summarize(&r)), json!({"seed": seed}));
                }
                shard = Some(s);
            }
            1 => {
                let v = *rng.pick(&["primary", "replica", "any"]);
                let sql = format!("{}{} '{}'{}{}{}", pad(&mut rng), case(&mut rng, "set server role to"), case(&mut rng, v), pad(&mut rng), semi, pad(&mut rng));
                let r = c.query(&sql, 5000).map_err(|e| format!("{:?}", e.1))?;
                rep.count("wire_commands", 1);
                if proto::type_string(&r) != "CZ" {
                    rep.violation("C13|must_accept_command_not_answered_by_pooler|cmd=set_server_role", &format!("`{}` answered {}", sql, summarize(&r)), json!({"seed": seed}));
                }
                role = v.to_string();
            }
            2 => {
                let v = *rng.pick(&["on", "off", "default"]);
                let sql = format!("{}{} {}{}{}{}{}{}", pad(&mut rng), case(&mut rng, "set primary reads to"), q, case(&mut rng, v), q, pad(&mut rng), semi, pad(&mut rng));
                let r = c.query(&sql, 5000).map_err(|e| format!("{:?}", e.1))?;
                rep.count("wire_commands", 1);
                if proto::type_string(&r) != "CZ" {
                    rep.violation("C13|must_accept_command_not_answered_by_pooler|cmd=set_primary_reads", &format!("`{}` answered {}", sql, summarize(&r)), json!({"seed": seed}));
                }
                preads = match v { "on" => Some(true), "off" => Some(false), _ => None };
            }
            3 | 4 | 5 => {
                let (cmd, expect) = match rng.below(3) {
                    0 => ("show shard", shard.map(|s| s.to_string()).unwrap_or("unset".into())),
                    1 => ("show server role", role.clone()),
                    _ => ("show primary reads", if preads.unwrap_or(pool_preads) { "on".to_string() } else { "off".to_string() }),
                };
                let sql = format!("{}{}{}{}{}", pad(&mut rng), case(&mut rng, cmd), pad(&mut rng), semi, pad(&mut rng));
                let r = c.query(&sql, 5000).map_err(|e| format!("{:?}", e.1))?;
                rep.count("wire_commands", 1);
                let shown = r.iter().find(|m| m.typ == b'D').map(|m| m.row_strings().join(","));
                if proto::type_string(&r) != "TDCZ" {
                    rep.violation(&format!("C13|must_accept_command_not_answered_by_pooler|cmd={}", cmd.replace(' ', "_")), &format!("`{}` answered {}", sql, summarize(&r)), json!({"seed": seed}));
                } else if shown.as_deref() != Some(expect.as_str()) {
                    rep.violation(&format!("C13|show_disagrees_with_preceding_sets|cmd={}", cmd.replace(' ', "_")), &format!("`{}` answered {:?}, the preceding SETs established {}", sql, shown, expect), json!({"seed": seed}));
                }
            }
            _ => {
                // near misses / embedded forms: must be forwarded untouched (they carry a tag so
                // the mock can attribute them; the trailing comment itself makes them non-commands)
                qn += 1;
                let qid = format!("m.q{}", qn);
                let base = *rng.pick(&["SET SHARD TO '1'", "SET SHARDING KEY TO '5'", "SET SERVER ROLE TO 'primary'", "SET PRIMARY READS TO 'on'", "SHOW SHARD", "SET SHARDS TO '1'", "SELECT 'SET SHARD TO ''1'''", "SET SHARD TO '1'; SELECT 1", "SELECT 1; SHOW SHARD"]);
                let sql = format!("{} {}", base, tag("m", &qid, ""));
                let sent = proto::query(&sql);
                c.send(&sent).map_err(|e| e.to_string())?;
                let r = c.read_until_ready(8000).map_err(|(m, e)| format!("{:?} {}", e, summarize(&m)))?;
                rep.count("wire_near_misses", 1);
                sleep_ms(1);
                let got: Vec<std::sync::Arc<Vec<u8>>> = cell.log.snapshot().iter().filter_map(|e| match &e.ev { Ev::MockMsg { qid: Some(q), bytes, .. } if *q == qid => Some(bytes.clone()), _ => None }).collect();
                if got.is_empty() {
                    rep.violation("C13|non_command_swallowed_by_pooler", &format!("`{}` is not one of the documented commands but never reached a server; reply {}", sql, summarize(&r)), json!({"seed": seed}));
                } else if *got[0] != sent {
                    rep.violation("C13|non_command_altered_on_its_way", &format!("`{}` reached the server as {}", sql, printable(&got[0], 120)), json!({"seed": seed}));
                }
            }
        }
    }
    // no bare command text may have reached any mock
    for e in cell.log.snapshot() {
        if let Ev::MockMsg { bytes, origin, typ, .. } = &e.ev {
            // (a SET SHARD whose number does not fit 64 bits is outside the documented surface: it
            // may be answered by the pooler or passed on)
            let beyond_u64 = { let t = String::from_utf8_lossy(bytes); t.bytes().filter(|b| b.is_ascii_digit()).count() >= 21 };
            if *origin == Origin::Unattributed && *typ == b'Q' && !beyond_u64 {
                rep.violation("C13|command_forwarded_to_server", &format!("a pooler command reached a server: {}", printable(bytes, 100)), json!({"seed": seed}));
            }
        }
    }
    rep.distinct(seed);
    Ok(())
}

pub fn run_c13(tier: &str) -> i32 {
    let rep = Report::new("C13", tier, "exploration",
        "lib leg: 10^6 (quick) / 10^8 (thorough) strings over the command vocabulary and command sequences, try_execute_command vs a hand-written reference recogniser/state machine (three-valued: must-accept / must-reject / don't-care), panics caught; wire leg: random-case command sessions with SHOW checked against the reference state, near misses / embedded / multi-statement forms must arrive at a mock byte-identical, no bare command text at any mock; distinct = lib strings + wire sessions");
    let lib_ok = libleg::run("C13", &rep, libleg::identity);
    let n = if rep.thorough() { 600 } else { 48 };
    let mut rng = Rng::new(rep.seed ^ 0xC13);
    let seeds: Vec<u64> = (0..n).map(|_| rng.next()).collect();
    run_parallel(n, workers(), |i| {
        rep.eval(1);
        if let Err(e) = c13_wire(seeds[i], &rep) {
            rep.inconclusive(&e);
        }
    });
    let mut mins = vec![("wire_commands", 500), ("wire_near_misses", 100)];
    if lib_ok {
        mins.push(("lib_evaluations", 500_000));
    }
    rep.finish(&mins)
}

// =====================================================================================  C19

fn c19_sigmap(sig: &str) -> Option<String> {
    // multi-statement messages where only some statements equal an intercept rule: the
    // property speaks of "a query matching a rule"; a mixed message is don't-care
    if sig.starts_with("C19|intercept|shape=multi[") {
        return None;
    }
    // positions the plugin never looks at fail for every spelling: one finding per position
    for pos in ["drop_table", "grant_revoke_on", "comment_on", "from_only"] {
        if sig.contains(&format!("|pos={}|", pos)) {
            return Some(format!("C19|table_access|pos={}|any_spelling|expected=deny|got=allow", pos));
        }
    }
    Some(sig.to_string())
}

const PLUGINS: &str = r#"
[pools.{POOL}.plugins]

[pools.{POOL}.plugins.prewarmer]
enabled = false
queries = []

[pools.{POOL}.plugins.query_logger]
enabled = false

[pools.{POOL}.plugins.table_access]
enabled = true
tables = ["pg_user", "secrets", "Orders"]

[pools.{POOL}.plugins.intercept]
enabled = true

[pools.{POOL}.plugins.intercept.queries.0]
query = "select current_database() as a, current_schemas(false) as b"
schema = [["a", "text"], ["b", "text"]]
result = [["${DATABASE}", "{public}"]]
"#;

fn c19_wire(seed: u64, plugins_on: bool, rep: &Report) -> Result<(), String> {
    let mut rng = Rng::new(seed);
    let (mut cell, mut cfg) = simple_cell(&["primary"], 2, "transaction");
    cfg.pools[0].set("query_parser_enabled", "true");
    // where the plugin configuration lives: in the pool's own section (which wins over a global
    // one), or only in the global [plugins] section (the default for pools without their own)
    let global = |t: &str| t.replace("pools.{POOL}.plugins", "plugins");
    let level = rng.below(3);
    if plugins_on {
        match level {
            0 => cfg.pools[0].raw_tables = PLUGINS.to_string(),
            1 => cfg.raw_tail.push_str(&global(PLUGINS)),
            _ => {
                // the pool's own section next to a global one that lists something else and intercepts nothing
                cfg.pools[0].raw_tables = PLUGINS.to_string();
                cfg.raw_tail.push_str(&global(PLUGINS).replace("tables = [\"pg_user\", \"secrets\", \"Orders\"]", "tables = [\"listed_for_other_pools_only\"]").replace("[plugins.intercept]\nenabled = true", "[plugins.intercept]\nenabled = false"));
            }
        }
        rep.set_add("plugin_configuration_level", ["pool", "global_only", "pool_over_global"][level as usize]);
    } else if level == 2 {
        // a global section that blocks and intercepts, and a pool that switches its plugins off
        cfg.pools[0].raw_tables = PLUGINS.replace("enabled = true", "enabled = false");
        cfg.raw_tail.push_str(&global(PLUGINS));
        rep.set_add("plugin_configuration_level", "pool_disables_global");
    }
    // half of the scenarios with the prepared-statement cache on, and a third in session mode
    // (the client keeps its server, buffered extended messages of a denied batch have somewhere to go)
    let cache_on = rng.chance(1, 2);
    if cache_on {
        cfg.pools[0].set("prepared_statements_cache_size", "16");
    }
    let session_mode = rng.chance(1, 3);
    if session_mode {
        cfg.pools[0].set("pool_mode", "\"session\"");
    }
    cell.start_pgcat(&cfg, &StartOpts::default()).map_err(|e| format!("start: {:?}", e))?;
    let mut c = connect(&cell, "p").map_err(|e| e.to_string())?;
    // every statement that had to be denied: none of them may show up at a server later either
    let mut must_never_arrive: Vec<(String, String, String)> = vec![];
    // (sql template with {T}, position)
    let templates: &[(&str, &str)] = &[
        ("SELECT * FROM {T}", "from"),
        ("SELECT * FROM t1 JOIN {T} ON t1.id = {T}.id", "join"),
        ("SELECT * FROM t1 WHERE id IN (SELECT id FROM {T})", "subquery"),
        ("WITH c AS (SELECT * FROM {T}) SELECT * FROM c", "cte"),
        ("INSERT INTO {T} (id) VALUES (1)", "insert_target"),
        ("UPDATE {T} SET a = 1", "update_target"),
        ("DELETE FROM {T} WHERE id = 1", "delete_target"),
        ("DELETE FROM t1 USING {T} WHERE t1.id = {T}.id", "delete_using"),
        ("COPY {T} TO STDOUT", "copy_to"),
        ("SELECT 1; SELECT * FROM {T}", "second_statement"),
        ("SELECT * FROM {T}; SELECT 1", "first_statement"),
    ];
    let spellings: &[(&str, &str, bool)] = &[
        ("pg_user", "lower", true),
        ("PG_USER", "upper", true),
        ("Pg_User", "mixed", true),
        ("\"pg_user\"", "quoted_lower", true),
        ("pg_catalog.pg_user", "schema_name", true),
        ("pg_catalog.\"pg_user\"", "schema_quoted_name", true),
        ("secrets", "lower2", true),
        ("\"PG_USER\"", "quoted_upper_is_other_relation", false),
        ("\"Orders\"", "quoted_mixed_listed", true),
        ("public.\"Orders\"", "schema_quoted_mixed_listed", true),
        ("Orders", "unquoted_mixed_folds_to_other_relation", false),
        ("pg_users", "listed_as_substring", false),
        ("orders", "unlisted", false),
    ];
    let mut in_block = false;
    let mut role_override = false;
    let mut qn = 0;
    for _ in 0..rng.range(30, 70) {
        qn += 1;
        let qid = format!("p.q{}", qn);
        if rng.chance(1, 10) {
            let sql = if in_block { "COMMIT" } else { "BEGIN" };
            in_block = !in_block;
            let _ = c.query(&format!("{} {}", sql, tag("p", &qid, "")), 8000).map_err(|(m, e)| format!("{:?} {}", e, summarize(&m)))?;
            continue;
        }
        if rng.chance(1, 12) {
            // an explicit role choice (switches the session's parser-based routing off): the plugins
            // must keep judging every statement
            let v = *rng.pick(&["primary", "any", "auto", "default"]);
            let r = c.query(&format!("SET SERVER ROLE TO '{}'", v), 8000).map_err(|(m, e)| format!("{:?} {}", e, summarize(&m)))?;
            if first_error(&r).is_none() {
                rep.count("wire_set_server_role_before_statements", 1);
                role_override = v != "auto" && v != "default";
            }
            continue;
        }
        if rng.chance(1, 8) {
            // intercept rule, modulo case and whitespace
            let sql = if rng.chance(1, 2) { "select current_database() as a, current_schemas(false) as b" } else { "SELECT  current_database()  AS a,   current_schemas(false) AS b" };
            let r = c.query(sql, 8000).map_err(|(m, e)| format!("{:?} {}", e, summarize(&m)))?;
            rep.count("wire_intercept_queries", 1);
            let rows: Vec<Vec<String>> = r.iter().filter(|m| m.typ == b'D').map(|m| m.row_strings()).collect();
            if plugins_on {
                if rows != vec![vec!["db".to_string(), "{public}".to_string()]] {
                    rep.violation("C19|intercept_rule_not_applied", &format!("`{}` answered {} rows {:?}, the rule configures [[db, {{public}}]]", sql, summarize(&r), rows), json!({"seed": seed}));
                }
            } else if rows == vec![vec!["db".to_string(), "{public}".to_string()]] {
                rep.violation("C19|intercepted_with_plugins_disabled", &format!("`{}` was intercepted although no plugin is configured", sql), json!({"seed": seed}));
            }
            continue;
        }
        let (tpl, pos) = *rng.pick(templates);
        let (name, spelling, listed) = *rng.pick(spellings);
        let sql = format!("{} {}", tpl.replace("{T}", name), tag("p", &qid, ""));
        let ext = rng.chance(1, 3) && !tpl.contains(';') && !tpl.starts_with("COPY");
        let r = if ext && rng.chance(1, 3) {
            // named Parse alone, then Bind/Execute by that name in a later batch, then Close
            c.send(&[proto::parse("s_n", &sql, &[]), proto::sync()].concat()).map_err(|e| e.to_string())?;
            let r1 = c.read_until_ready(8000);
            match r1 {
                Err(e) => (Err(e), "extended_named_parse_then_bind_later"),
                Ok(mut m1) => {
                    let mut b = vec![];
                    b.extend(proto::bind("", "s_n", &[], &[], &[]));
                    b.extend(proto::execute("", 0));
                    b.extend(proto::sync());
                    c.send(&b).map_err(|e| e.to_string())?;
                    match c.read_until_ready(8000) {
                        Ok(m2) => {
                            c.send(&[proto::close(b'S', "s_n"), proto::sync()].concat()).map_err(|e| e.to_string())?;
                            let m3 = c.read_until_ready(8000);
                            // the verdict on "denied" is taken from the Parse batch
                            let _ = m2;
                            match m3 {
                                Ok(_) => (Ok(std::mem::take(&mut m1)), "extended_named_parse_then_bind_later"),
                                Err(e) => (Err(e), "extended_named_parse_then_bind_later"),
                            }
                        }
                        Err((m, e)) => {
                            // disconnected after Bind of a statement that was never prepared: acceptable
                            // for the client, but the scenario cannot continue on this connection
                            let reached = { sleep_ms(2); arrivals(&cell).contains_key(&qid) };
                            if plugins_on && listed && reached {
                                rep.violation(&format!("C19|denied_statement_reached_server|pos={}|spelling={}|extended_named_parse_then_bind_later", pos, spelling), &format!("`{}` was denied at Parse, the later Bind/Execute by name sent it to a server", sql), json!({"seed": seed}));
                            }
                            if !(plugins_on && listed) {
                                return Err(format!("{}: {:?} {}", qid, e, summarize(&m)));
                            }
                            c = connect(&cell, "p").map_err(|e| e.to_string())?;
                            in_block = false;
                            continue;
                        }
                    }
                }
            }
        } else if ext {
            // the denied Parse is not always the last one of the batch
            let mut b = vec![];
            let first_denied = rng.chance(1, 2);
            let other = format!("SELECT 1 {}", tag("p", &format!("{}x", qid), ""));
            if first_denied {
                b.extend(proto::parse("s_a", &sql, &[]));
                b.extend(proto::parse("s_b", &other, &[]));
            } else {
                b.extend(proto::parse("s_b", &other, &[]));
                b.extend(proto::parse("s_a", &sql, &[]));
            }
            b.extend(proto::bind("", "s_a", &[], &[], &[]));
            b.extend(proto::execute("", 0));
            b.extend(proto::close(b'S', "s_a"));
            b.extend(proto::close(b'S', "s_b"));
            b.extend(proto::sync());
            c.send(&b).map_err(|e| e.to_string())?;
            (c.read_until_ready(8000), if first_denied { "extended_denied_parse_first" } else { "extended_denied_parse_last" })
        } else {
            (c.query(&sql, 8000), "simple")
        };
        let (r, proto_name) = r;
        let r = r.map_err(|(m, e)| format!("{}: {:?} {}", qid, e, summarize(&m)))?;
        if in_block && first_error(&r).map(|e| e.0 == "25P02").unwrap_or(false) {
            // transaction already failed on the server for another reason: leave it
            let _ = c.query("ROLLBACK", 5000);
            in_block = false;
            continue;
        }
        sleep_ms(1);
        let reached = arrivals(&cell).contains_key(&qid);
        let denied = first_error(&r).map(|e| e.1.contains("permission for table")).unwrap_or(false);
        rep.count("wire_statements_judged", 1);
        rep.distinct_str(&format!("{}|{}|{}|{}|{}", pos, spelling, proto_name, in_block, plugins_on));
        rep.set_add("position_x_spelling", &format!("{}x{}", pos, spelling));
        let must_deny = plugins_on && listed;
        if must_deny && !reached {
            must_never_arrive.push((qid.clone(), sql.clone(), format!("pos={}|spelling={}|{}", pos, spelling, proto_name)));
        }
        if must_deny && reached {
            // which Parse of the batch is denied matters, not where the table is mentioned
            let sig = if proto_name == "extended_denied_parse_first" && arrivals(&cell).contains_key(&format!("{}x", qid)) {
                "C19|denied_statement_reached_server|extended_batch_with_allowed_parse_after_denied_parse".to_string()
            } else {
                format!("C19|denied_statement_reached_server|pos={}|spelling={}|{}{}", pos, spelling, proto_name, if role_override { "|after_set_server_role" } else { "" })
            };
            rep.violation(
                &sig,
                &format!("`{}` refers to a listed table ({} in {} position, {} protocol{}) and was executed on a server; client saw {}", sql, spelling, pos, proto_name, if in_block { ", inside a transaction" } else { "" }, summarize(&r)),
                json!({"seed": seed}),
            );
        } else if must_deny && !denied {
            rep.violation(
                &format!("C19|no_permission_error_for_denied_statement|pos={}|spelling={}|{}", pos, spelling, proto_name),
                &format!("`{}` refers to a listed table but the client saw {}", sql, summarize(&r)),
                json!({"seed": seed}),
            );
        }
        if !must_deny && denied {
            rep.violation(
                &format!("C19|statement_blocked_without_reason|pos={}|spelling={}|plugins_on={}", pos, spelling, plugins_on),
                &format!("`{}` does not refer to a listed table (or plugins are off) but was denied", sql),
                json!({"seed": seed}),
            );
        }
        if denied && in_block {
            // pooler-generated error does not abort the server transaction; keep going
        }
    }
    if in_block {
        let _ = c.query("COMMIT", 5000);
    }
    let _ = c.query(&format!("SELECT 1 {}", tag("p", "p.last", "")), 5000);
    sleep_ms(2);
    let arr = arrivals(&cell);
    for (qid, sql, what) in &must_never_arrive {
        rep.count("wire_denied_statements_rechecked_at_end", 1);
        if arr.contains_key(qid) {
            rep.violation(
                &format!("C19|denied_statement_reached_server_with_a_later_batch|{}|cache={}|mode={}", what.split('|').last().unwrap_or(""), cache_on, if session_mode { "session" } else { "transaction" }),
                &format!("`{}` ({}) was answered with the permission error, but its messages were sent to a server together with a later batch of the same client", sql, what),
                json!({"seed": seed}),
            );
            break;
        }
    }
    Ok(())
}

pub fn run_c19(tier: &str) -> i32 {
    let rep = Report::new("C19", tier, "exploration",
        "lib leg: statements from the grammar with relation slots filled from {listed, unlisted, substring, column/alias-only} x 8 spellings x ~20 positions, execute_plugins verdict vs generator label, intercept rules modulo case/whitespace; wire leg: 11 positions x 13 spellings (incl. a listed mixed-case table that only its quoted spelling names) over simple and extended protocol (denied Parse first or last in the batch), inside/outside transactions, plugins on and off: denied statements never appear at a mock and the client sees the permission error, intercepted queries return exactly the configured rows; distinct = lib inputs + wire (position,spelling,protocol,in-transaction,plugins)");
    rep.assume("multi-statement messages in which only some statements equal an intercept rule are don't-care (the property speaks of a query matching a rule)");
    let lib_ok = libleg::run("C19", &rep, c19_sigmap);
    let n = if rep.thorough() { 500 } else { 48 };
    let mut rng = Rng::new(rep.seed ^ 0xC19);
    let seeds: Vec<u64> = (0..n).map(|_| rng.next()).collect();
    run_parallel(n, workers(), |i| {
        rep.eval(1);
        if let Err(e) = c19_wire(seeds[i], i % 5 != 4, &rep) {
            rep.inconclusive(&e);
        }
    });
    let mut mins = vec![("wire_statements_judged", 1000)];
    if lib_ok {
        mins.push(("lib_evaluations", 100_000));
    }
    rep.finish(&mins)
}
