//! C17 — shutdown is graceful.

use super::common::*;
use crate::cell::{run_parallel, workers};
use crate::pgcat::{admin_query, StartOpts, ADMIN_PASS, ADMIN_USER};
use crate::report::Report;
use crate::sql::tag;
use crate::util::{now_ns, sleep_ms, Rng};
use crate::wire::{summarize, Conn, ConnErr, ReadErr, StartupOpts};
use serde_json::json;
use std::sync::atomic::{AtomicU64, Ordering};
use std::sync::Arc;

#[derive(Clone, Debug)]
struct Sc {
    seed: u64,
    idle: usize,
    in_txn: usize,
    /// remaining work of in-flight transactions after the signal, ms
    remaining_ms: u64,
    timeout_ms: u64,
    signal: String, // sigint | admin_shutdown | sigterm | double_sigint
    admin_client: bool,
    /// clients that came and went before the population was built
    visitors: usize,
    /// the signal arrives when the pooler has already been up for longer than shutdown_timeout
    late_signal: bool,
    /// clients that have sent part of an extended-protocol batch (no Sync yet) when the signal arrives
    mid_batch: usize,
}

#[derive(Debug)]
enum ClientReport {
    Idle {
        got_admin_error: bool,
        got_eof: bool,
        detail: String,
    },
    InTxn {
        completed: bool,
        detail: String,
        t_done: u64,
    },
    MidBatch {
        /// a NEW transaction started >= 300 ms after the signal was served
        served_new_transaction: bool,
        detail: String,
    },
}

fn scenario(sc: &Sc, rep: &Report) -> Result<(), String> {
    let (mut cell, mut cfg) = simple_cell(&["primary"], 8, "transaction");
    cfg.gset("shutdown_timeout", &sc.timeout_ms.to_string());
    cell.start_pgcat(&cfg, &StartOpts::default())
        .map_err(|e| format!("start: {:?}", e))?;
    let addr = cell.addr();
    let t_sig = Arc::new(AtomicU64::new(0));
    let mut hs = vec![];
    // every client picks its startup style: StartupMessage directly, or SSLRequest first and, when
    // answered 'N' (no certificate configured), plain text on the same socket (libpq sslmode=prefer)
    let mut srng = Rng::new(sc.seed);
    for v in 0..sc.visitors {
        let prefer = srng.chance(1, 2);
        rep.count(if prefer { "clients_sslrequest_then_plain" } else { "clients_direct_startup" }, 1);
        let cid = format!("visitor{}", v);
        let mut c = Conn::connect(&addr, &StartupOpts::new(USER, "db", PASS).app(&cid).prefer_tls(prefer)).map_err(|e| format!("{} connect: {}", cid, e))?;
        c.query(&format!("SELECT 1 {}", tag(&cid, &format!("{}.q1", cid), "")), 5000).map_err(|(m, e)| format!("{}: {:?} {}", cid, e, summarize(&m)))?;
        if srng.chance(1, 2) {
            c.terminate();
        } else {
            c.close_fin();
        }
    }
    if sc.visitors > 0 {
        sleep_ms(30);
    }
    let ready = Arc::new(std::sync::Barrier::new(sc.idle + sc.in_txn + sc.mid_batch + 1));
    for i in 0..sc.idle {
        let addr = addr.clone();
        let ready = ready.clone();
        let t_sig = t_sig.clone();
        let prefer = srng.chance(1, 2);
        rep.count(if prefer { "clients_sslrequest_then_plain" } else { "clients_direct_startup" }, 1);
        hs.push(std::thread::spawn(move || -> Result<ClientReport, String> {
            let cid = format!("idle{}", i);
            let mut c = Conn::connect(&addr, &StartupOpts::new(USER, "db", PASS).app(&cid).prefer_tls(prefer))
                .map_err(|e| format!("{} connect: {}", cid, e))?;
            c.query(&format!("SELECT 1 {}", tag(&cid, &format!("{}.q1", cid), "")), 5000)
                .map_err(|(m, e)| format!("{} warmup: {:?} {}", cid, e, summarize(&m)))?;
            ready.wait();
            // idle; wait for whatever the pooler sends
            while t_sig.load(Ordering::SeqCst) == 0 {
                sleep_ms(1);
            }
            let (msgs, eof) = c.drain_to_eof(8000);
            let got = msgs.iter().any(|m| {
                m.typ == b'E'
                    && m.err_message()
                        .contains("terminating connection due to administrator command")
            });
            Ok(ClientReport::Idle {
                got_admin_error: got,
                got_eof: eof,
                detail: summarize(&msgs),
            })
        }));
    }
    for i in 0..sc.in_txn {
        let addr = addr.clone();
        let ready = ready.clone();
        let t_sig = t_sig.clone();
        let remaining = sc.remaining_ms;
        let prefer = srng.chance(1, 2);
        rep.count(if prefer { "clients_sslrequest_then_plain" } else { "clients_direct_startup" }, 1);
        hs.push(std::thread::spawn(move || -> Result<ClientReport, String> {
            let cid = format!("txn{}", i);
            let mut c = Conn::connect(&addr, &StartupOpts::new(USER, "db", PASS).app(&cid).prefer_tls(prefer))
                .map_err(|e| format!("{} connect: {}", cid, e))?;
            c.query(&format!("BEGIN {}", tag(&cid, &format!("{}.q1", cid), "")), 5000)
                .map_err(|(m, e)| format!("{} begin: {:?} {}", cid, e, summarize(&m)))?;
            ready.wait();
            while t_sig.load(Ordering::SeqCst) == 0 {
                sleep_ms(1);
            }
            // the transaction is in progress at signal time; finish its remaining work
            let mut detail = String::new();
            let mut ok = true;
            let parts = 2;
            for k in 0..parts {
                let qid = format!("{}.q{}", cid, k + 2);
                match c.query(
                    &format!(
                        "SELECT 1 {}",
                        tag(&cid, &qid, &format!("rows=2 sleep={}", remaining / parts))
                    ),
                    20_000,
                ) {
                    Ok(m) => {
                        let ids = crate::wire::row_idents(&m);
                        if crate::wire::first_error(&m).is_some()
                            || ids.len() != 2
                            || ids.iter().any(|x| x.2 != qid)
                        {
                            ok = false;
                            detail = format!("statement {} answered {}", qid, summarize(&m));
                            break;
                        }
                    }
                    Err((m, e)) => {
                        ok = false;
                        detail = format!("statement {}: {:?} after {}", qid, e, summarize(&m));
                        break;
                    }
                }
            }
            if ok {
                match c.query(&format!("COMMIT {}", tag(&cid, &format!("{}.qc", cid), "")), 20_000) {
                    Ok(m) => {
                        let t = crate::proto::type_string(&m);
                        if !t.starts_with("C") || crate::wire::first_error(&m).is_some() {
                            ok = false;
                            detail = format!("COMMIT answered {}", summarize(&m));
                        }
                    }
                    Err((m, e)) => {
                        ok = false;
                        detail = format!("COMMIT: {:?} after {}", e, summarize(&m));
                    }
                }
            }
            let t_done = now_ns();
            let _ = c.drain_to_eof(3000);
            Ok(ClientReport::InTxn {
                completed: ok,
                detail,
                t_done,
            })
        }));
    }
    for i in 0..sc.mid_batch {
        let addr = addr.clone();
        let ready = ready.clone();
        let t_sig = t_sig.clone();
        hs.push(std::thread::spawn(move || -> Result<ClientReport, String> {
            let cid = format!("mb{}", i);
            let mut c = Conn::connect(&addr, &StartupOpts::new(USER, "db", PASS).app(&cid)).map_err(|e| format!("{} connect: {}", cid, e))?;
            c.query(&format!("SELECT 1 {}", tag(&cid, &format!("{}.q1", cid), "")), 5000).map_err(|(m, e)| format!("{} warmup: {:?} {}", cid, e, summarize(&m)))?;
            // part of a batch, no Sync: the client is between transactions as far as any server knows
            let mut b = crate::proto::parse("", &format!("SELECT 1 {}", tag(&cid, &format!("{}.q2", cid), "rows=1")), &[]);
            if i % 2 == 0 {
                b.extend(crate::proto::bind("", "", &[], &[], &[]));
                b.extend(crate::proto::execute("", 0));
            }
            c.send(&b).map_err(|e| e.to_string())?;
            ready.wait();
            while t_sig.load(Ordering::SeqCst) == 0 {
                sleep_ms(1);
            }
            sleep_ms(60);
            // finish the batch (either outcome is fine: completed, or told about the shutdown)
            let mut rest = vec![];
            if i % 2 != 0 {
                rest.extend(crate::proto::bind("", "", &[], &[], &[]));
                rest.extend(crate::proto::execute("", 0));
            }
            rest.extend(crate::proto::sync());
            let _ = c.send(&rest);
            let first = c.read_until_ready(5000);
            sleep_ms(300);
            // a NEW transaction now must not be served any more
            let mut served = false;
            let mut detail = format!("batch: {}", match &first { Ok(m) => summarize(m), Err((m, e)) => format!("{:?} {}", e, summarize(m)) });
            for k in 0..2 {
                match c.query(&format!("SELECT 1 {}", tag(&cid, &format!("{}.new{}", cid, k), "rows=1")), 3000) {
                    Ok(m) if crate::wire::first_error(&m).is_none() && !crate::wire::row_idents(&m).is_empty() => {
                        served = true;
                        detail = format!("{}; new transaction {} answered {}", detail, k, summarize(&m));
                    }
                    _ => break,
                }
                sleep_ms(100);
            }
            let _ = c.drain_to_eof(2000);
            Ok(ClientReport::MidBatch { served_new_transaction: served, detail })
        }));
    }
    let mut adm = if sc.admin_client || sc.signal == "admin_shutdown" {
        Some(cell.pg().admin().map_err(|e| format!("admin: {}", e))?)
    } else {
        None
    };
    ready.wait();
    // idle clients must have been idle for >= 50 ms before the signal
    sleep_ms(80);
    if sc.late_signal {
        // (idle clients stay idle, open transactions stay open meanwhile)
        let up_to = cell.pg().t_spawn + (sc.timeout_ms + 200) * 1_000_000;
        while now_ns() < up_to {
            sleep_ms(10);
        }
        rep.count("signals_after_uptime_exceeded_shutdown_timeout", 1);
    }
    // a client whose TCP connection is accepted before the signal and that sends its startup packet
    // only afterwards (slow network, TLS handshake, password prompt)
    let mut slow_starter = if sc.signal != "sigterm" && sc.in_txn > 0 && sc.remaining_ms >= 300 { Conn::raw(&addr).ok() } else { None };
    if slow_starter.is_some() {
        sleep_ms(30);
    }
    let log_from = cell.pg().log_len();
    let ts = now_ns();
    match sc.signal.as_str() {
        "sigint" | "double_sigint" => cell.pg().signal(libc::SIGINT),
        "sigterm" => cell.pg().signal(libc::SIGTERM),
        "admin_shutdown" => {
            let (_, rows, msgs) = admin_query(adm.as_mut().unwrap(), "SHUTDOWN")?;
            if rows.first().and_then(|r| r.first()).map(|s| s.as_str()) != Some("t") {
                return Err(format!("SHUTDOWN answered {}", summarize(&msgs)));
            }
        }
        _ => unreachable!(),
    }
    t_sig.store(ts, Ordering::SeqCst);
    if sc.signal == "double_sigint" {
        sleep_ms(60);
        cell.pg().signal(libc::SIGINT);
    }
    let graceful = sc.signal != "sigterm";
    // ---- new logins during drain
    if graceful && (sc.in_txn > 0 && sc.remaining_ms >= 300) {
        if cell.pg().wait_log("Got SIGINT", log_from, 3000).is_some() {
            sleep_ms(20);
            for k in 0..3 {
                match Conn::connect(&addr, &StartupOpts::new(USER, "db", PASS).app("late").prefer_tls(k == 1)) {
                    Ok(c) => {
                        rep.violation(
                            "C17|non_admin_login_admitted_after_shutdown_signal",
                            &format!("a new non-admin client was admitted {} ms after {}", (now_ns() - ts) / 1_000_000, sc.signal),
                            json!({"scenario": format!("{:?}", sc)}),
                        );
                        c.close_fin();
                    }
                    Err(ConnErr::Refused { message, .. }) => {
                        rep.count("late_logins_refused", 1);
                        let _ = (k, message);
                    }
                    Err(_) => rep.count("late_logins_refused", 1),
                }
            }
            if let Some(mut c) = slow_starter.take() {
                let mut logged_in = false;
                if c.send(&crate::proto::startup_message(&[("user".into(), USER.into()), ("database".into(), "db".into()), ("application_name".into(), "slow".into())])).is_ok() {
                    for _ in 0..40 {
                        match c.read_msg(3000) {
                            Ok(m) if m.typ == b'R' && m.body.len() >= 8 && m.body[..4] == [0, 0, 0, 5] => {
                                let resp = crate::util::md5_password_response(USER, PASS, &[m.body[4], m.body[5], m.body[6], m.body[7]]);
                                if c.send(&crate::proto::password_message(&resp)).is_err() {
                                    break;
                                }
                            }
                            Ok(m) if m.typ == b'Z' => {
                                logged_in = true;
                                break;
                            }
                            Ok(m) if m.typ == b'E' => break,
                            Ok(_) => {}
                            Err(_) => break,
                        }
                    }
                }
                rep.count("slow_starters_checked", 1);
                if logged_in {
                    rep.count("slow_starters_logged_in", 1);
                    sleep_ms(300);
                    let mut served = 0;
                    for k in 0..2 {
                        match c.query(&format!("SELECT 1 {}", tag("slow", &format!("slow.q{}", k), "rows=1")), 3000) {
                            Ok(m) if crate::wire::first_error(&m).is_none() && !crate::wire::row_idents(&m).is_empty() => served += 1,
                            _ => break,
                        }
                        sleep_ms(100);
                    }
                    if served > 0 {
                        rep.violation(
                            &format!("C17|client_that_finished_its_login_after_the_signal_was_served_transactions|signal={}", sc.signal),
                            &format!("a non-admin client whose connection was accepted before {} and whose startup packet followed it was logged in and then served {} new transactions 300+ ms later", sc.signal, served),
                            json!({"scenario": format!("{:?}", sc)}),
                        );
                    }
                }
                let _ = c.drain_to_eof(500);
            }
            match Conn::connect(&addr, &StartupOpts::new(ADMIN_USER, "pgcat", ADMIN_PASS)) {
                Ok(mut a) => {
                    rep.count("late_admin_logins_admitted", 1);
                    if admin_query(&mut a, "SHOW VERSION").is_err() {
                        rep.violation("C17|admin_unusable_during_drain", "new admin connection could not run SHOW VERSION during drain", json!({}));
                    }
                }
                Err(e) => {
                    if cell.pg().alive() {
                        rep.violation(
                            "C17|admin_login_refused_during_drain",
                            &format!("admin login refused during drain: {}", e),
                            json!({"scenario": format!("{:?}", sc)}),
                        );
                    }
                }
            }
            if let Some(a) = adm.as_mut() {
                if cell.pg().alive() && admin_query(a, "SHOW VERSION").is_err() && cell.pg().alive() {
                    rep.violation("C17|existing_admin_connection_broken_during_drain", "existing admin connection stopped working during drain", json!({}));
                }
            }
        }
    }
    // ---- collect client reports
    let mut reports = vec![];
    for h in hs {
        reports.push(h.join().map_err(|_| "client thread panicked".to_string())??);
    }
    let t_clients_gone = now_ns();
    drop(adm);
    // ---- exit
    let bound_ms = sc.timeout_ms * 10 + 3000;
    let waited = cell.pg().wait_exit(bound_ms);
    let exit = match waited {
        Some((st, t)) => Some((st, t)),
        None => None,
    };
    rep.count(&format!("scenarios_{}", sc.signal), 1);
    let work_fits = sc.remaining_ms * 2 < sc.timeout_ms;
    for r in &reports {
        match r {
            ClientReport::Idle {
                got_admin_error,
                got_eof,
                detail,
            } => {
                rep.count("idle_clients_checked", 1);
                if graceful && !*got_admin_error {
                    rep.violation(
                        &format!("C17|idle_client_not_told_administrator_command|signal={}", sc.signal),
                        &format!("idle transaction-mode client got [{}] eof={} instead of the administrator-command error", detail, got_eof),
                        json!({"scenario": format!("{:?}", sc)}),
                    );
                }
            }
            ClientReport::MidBatch { served_new_transaction, detail } => {
                rep.count("mid_batch_clients_checked", 1);
                if graceful && *served_new_transaction {
                    rep.violation(
                        &format!("C17|client_mid_batch_at_the_signal_kept_being_served_new_transactions|signal={}", sc.signal),
                        &format!("a transaction-mode client had sent part of an extended-protocol batch when {} arrived; more than 300 ms after finishing that batch it could still start new transactions: {}", sc.signal, detail),
                        json!({"scenario": format!("{:?}", sc)}),
                    );
                }
            }
            ClientReport::InTxn {
                completed,
                detail,
                t_done,
            } => {
                rep.count("in_flight_transactions_checked", 1);
                if graceful && work_fits {
                    if *completed {
                        rep.count("in_flight_transactions_completed_after_signal", 1);
                    } else {
                        rep.violation(
                            &format!("C17|in_flight_transaction_broken|signal={}", sc.signal),
                            &format!(
                                "transaction in progress at {} with {} ms of work left (shutdown_timeout {} ms) did not finish correctly: {}",
                                sc.signal, sc.remaining_ms, sc.timeout_ms, detail
                            ),
                            json!({"scenario": format!("{:?}", sc), "t_done_ms_after_signal": (t_done.saturating_sub(ts)) / 1_000_000, "pgcat_log_tail": cell.pg().log_tail(12)}),
                        );
                    }
                }
            }
        }
    }
    match exit {
        None => {
            rep.violation(
                &format!("C17|process_still_running_long_after_signal|signal={}", sc.signal),
                &format!("pgcat still running {} ms after {} (shutdown_timeout {} ms)", bound_ms, sc.signal, sc.timeout_ms),
                json!({"scenario": format!("{:?}", sc), "pgcat_log_tail": cell.pg().log_tail(12)}),
            );
        }
        Some((st, t_exit)) => {
            let lat_ms = (t_exit.saturating_sub(ts)) / 1_000_000;
            rep.max(&format!("max_exit_latency_ms_{}", sc.signal), lat_ms);
            rep.set_add("exit_status", &format!("{:?}", st.code()));
            if sc.signal == "sigterm" && lat_ms > 3000 {
                rep.violation(
                    "C17|sigterm_did_not_exit_promptly",
                    &format!("exit {} ms after SIGTERM", lat_ms),
                    json!({"scenario": format!("{:?}", sc)}),
                );
            }
            if graceful {
                // once every client has left, exit must follow promptly (not wait for the timeout)
                let gone_ms = (t_clients_gone.saturating_sub(ts)) / 1_000_000;
                if sc.idle + sc.in_txn == 0 {
                    rep.count("signals_with_no_non_admin_client_connected", 1);
                }
                if gone_ms + 3000 < sc.timeout_ms && lat_ms > gone_ms + 3000 {
                    rep.violation(
                        &format!("C17|did_not_exit_once_all_clients_left|signal={}", sc.signal),
                        &format!(
                            "all clients had left {} ms after the signal but the process exited only after {} ms (shutdown_timeout {} ms)",
                            gone_ms, lat_ms, sc.timeout_ms
                        ),
                        json!({"scenario": format!("{:?}", sc)}),
                    );
                } else {
                    rep.count("exit_latency_checked", 1);
                }
            }
        }
    }
    rep.distinct(crate::util::fnv(format!("{:?}", (sc.idle, sc.in_txn, sc.remaining_ms / 50, sc.timeout_ms, &sc.signal, sc.admin_client, sc.visitors, sc.late_signal)).as_bytes()));
    Ok(())
}

pub fn run(tier: &str) -> i32 {
    let rep = Report::new(
        "C17",
        tier,
        "exploration",
        "scenario = one pgcat process with 0-10 idle, 0-6 mid-transaction and 0-2 mid-batch (Parse/Bind sent, no Sync yet) clients (0-600 ms of work left), 0-3 earlier visitors that already left, every client starting either with StartupMessage or with SSLRequest answered 'N' then plain text, optional admin connection, shutdown_timeout 0.5-8 s, signal (a third of them sent when the pooler has been up for longer than shutdown_timeout) in {SIGINT, admin SHUTDOWN, SIGTERM, SIGINT twice}; oracle = waitpid time/status from the parent, replies seen by each population member, login attempts after the 'Got SIGINT' log line; distinct = distinct population/timing classes",
    );
    rep.assume("session-mode clients are outside the property's wording and not generated");
    let thorough = rep.thorough();
    let n = if thorough { 1500 } else { 96 };
    let mut rng = Rng::new(rep.seed ^ 0xC17);
    let scs: Vec<Sc> = (0..n)
        .map(|i| {
            let signal = ["sigint", "admin_shutdown", "sigterm", "double_sigint", "sigint", "sigint"][i % 6];
            let big_timeout = rng.chance(1, 3);
            // one scenario in eight: no non-admin client at all when the signal arrives (empty
            // pooler, only an admin connection, or everybody has already left)
            let empty = i % 8 == 7;
            let big_timeout = big_timeout || empty;
            Sc {
                seed: rng.next(),
                idle: if empty { 0 } else { rng.range(0, 10) as usize },
                in_txn: if empty { 0 } else { rng.range(0, 6) as usize },
                remaining_ms: *rng.pick(&[0, 50, 150, 300, 600]),
                timeout_ms: if big_timeout { 8000 } else { *rng.pick(&[500, 1000, 2000]) },
                signal: signal.into(),
                admin_client: rng.chance(1, 3),
                visitors: if rng.chance(1, 2) { rng.range(1, 3) as usize } else { 0 },
                late_signal: !big_timeout && rng.chance(1, 3),
                mid_batch: if empty { 0 } else { *rng.pick(&[0, 0, 1, 2]) },
            }
        })
        .collect();
    run_parallel(n, workers(), |i| {
        rep.eval(1);
        if let Err(e) = scenario(&scs[i], &rep) {
            rep.inconclusive(&e);
        }
    });
    rep.sample(json!(format!("{:?}", scs[0])));
    rep.sample(json!(format!("{:?}", scs[1])));
    rep.finish(&[
        ("idle_clients_checked", 100),
        ("in_flight_transactions_completed_after_signal", 20),
        ("exit_latency_checked", 30),
    ])
}
