//! Per-property scenarios and oracles.

pub mod common;
pub mod smoke;

pub fn run(what: &str, tier: &str, _rest: &[String]) -> i32 {
    match what {
        "smoke" => smoke::run(),
        _ => {
            eprintln!("unknown check {} ({})", what, tier);
            64
        }
    }
}
