//! Per-property scenarios and oracles.

pub mod c01;
pub mod c02;
pub mod c03;
pub mod c04;
pub mod c07;
pub mod c08;
pub mod c09;
pub mod c10;
pub mod c11;
pub mod c12;
pub mod c14;
pub mod c15;
pub mod c16;
pub mod c17;
pub mod c18;
pub mod c20;
pub mod common;
pub mod libleg;
pub mod routing;
pub mod smoke;
pub mod txw;

pub fn run(what: &str, tier: &str, _rest: &[String]) -> i32 {
    match what {
        "smoke" => smoke::run(),
        "C01" => c01::run(tier),
        "C02" => c02::run(tier),
        "C03" => c03::run(tier),
        "C04" => c04::run(tier),
        "C05" => routing::run_c05(tier),
        "C06" => routing::run_c06(tier),
        "C07" => c07::run(tier),
        "C13" => routing::run_c13(tier),
        "C19" => routing::run_c19(tier),
        "C08" => c08::run(tier),
        "C09" => c09::run(tier),
        "C10" => c10::run(tier),
        "C11" => c11::run(tier),
        "C12" => c12::run(tier),
        "C14" => c14::run(tier),
        "C15" => c15::run(tier),
        "C16" => c16::run(tier),
        "C17" => c17::run(tier),
        "C18" => c18::run(tier),
        "C18diag" => c18::diag(),
        "C20" => c20::run(tier),
        _ => {
            eprintln!("unknown check {} ({})", what, tier);
            64
        }
    }
}
