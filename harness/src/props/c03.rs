//! C03 — queries and replies are relayed complete, in order and unmodified.

use super::common::*;
use crate::cell::{run_parallel, workers};
use crate::evlog::{Ev, Origin};
use crate::mock::*;
use crate::pgcat::StartOpts;
use crate::proto;
use crate::report::Report;
use crate::sql::tag;
use crate::util::{fnv, hex_prefix, printable, Rng};
use crate::wire::{Conn, StartupOpts};
use crate::wl::{run_step, Outcome, Step, StepKind, StepResult};
use serde_json::json;
use std::collections::{BTreeMap, HashMap};
use std::sync::atomic::Ordering;

fn cuts(rng: &mut Rng, len: usize) -> Vec<usize> {
    if len < 2 || rng.chance(1, 3) {
        return vec![];
    }
    let n = rng.range(1, 4) as usize;
    let mut c: Vec<usize> = (0..n).map(|_| rng.range(1, len as u64 - 1) as usize).collect();
    c.sort();
    c.dedup();
    c
}

pub fn gen_requests(rng: &mut Rng, cid: &str, n: usize, big: bool) -> Vec<(bool, Step)> {
    // (needs_block, step): steps flagged true are wrapped in BEGIN/COMMIT by the caller
    let mut out = vec![];
    for i in 0..n {
        let qid = format!("{}.r{}", cid, i);
        let kind = rng.below(14);
        let w = |rng: &mut Rng| -> u64 {
            match rng.below(6) {
                0 => rng.range(1, 20),
                1 => rng.range(20, 400),
                2 => rng.range(400, 3000),
                3 => rng.range(8100, 8300),
                4 => rng.range(3000, 9000),
                _ => rng.range(1, 200),
            }
        };
        let rows = |rng: &mut Rng| -> u64 {
            match rng.below(6) {
                0 => 0,
                1 => 1,
                2 => 2,
                3 => rng.range(3, 40),
                4 => rng.range(40, 400),
                _ => rng.range(1, 100),
            }
        };
        let mut step = match kind {
            0 | 1 | 2 => Step::plain(
                &qid,
                "simple_rows",
                proto::query(&format!(
                    "SELECT * FROM t {}",
                    tag(cid, &qid, &format!("rows={} w={}", rows(rng), w(rng)))
                )),
            ),
            3 => {
                let width = if big {
                    rng.range(100_000, 8 << 20)
                } else {
                    rng.range(20_000, 300_000)
                };
                Step::plain(
                    &qid,
                    "big_row",
                    proto::query(&format!(
                        "SELECT * FROM t {}",
                        tag(cid, &qid, &format!("rows={} w={}", rng.range(1, 3), width))
                    )),
                )
            }
            4 => Step::plain(&qid, "empty_query", proto::query(&tag(cid, &qid, ""))),
            5 => Step::plain(
                &qid,
                "multi_statement",
                proto::query(&format!(
                    "SELECT 1 {}; UPDATE t SET a=1 {}; SELECT 2 {}",
                    tag(cid, &qid, &format!("rows={} w={}", rows(rng), w(rng))),
                    tag(cid, &qid, ""),
                    tag(cid, &qid, &format!("rows={} w={}", rows(rng), w(rng)))
                )),
            ),
            6 => Step::plain(
                &qid,
                "notices_interleaved",
                proto::query(&format!(
                    "SELECT * FROM t {}",
                    tag(
                        cid,
                        &qid,
                        &format!(
                            "rows={} w={} notice={} ps nfy",
                            rng.range(0, 300),
                            w(rng),
                            rng.range(1, 5)
                        )
                    )
                )),
            ),
            7 => Step::plain(
                &qid,
                "error_midstream",
                proto::query(&format!(
                    "SELECT * FROM t {}",
                    tag(
                        cid,
                        &qid,
                        &format!("rows={} w={} err=mid", rng.range(2, 300), w(rng))
                    )
                )),
            ),
            8 => Step::plain(
                &qid,
                "copy_out",
                proto::query(&format!(
                    "COPY t TO STDOUT {}",
                    tag(
                        cid,
                        &qid,
                        &format!(
                            "rows={} w={}{}",
                            rows(rng),
                            w(rng),
                            if rng.chance(1, 6) { " err=mid" } else { "" }
                        )
                    )
                )),
            ),
            9 => {
                let n = rng.range(0, 12);
                let chunks = (0..n)
                    .map(|_| {
                        let l = match rng.below(4) {
                            0 => rng.range(8180, 8210),
                            1 => rng.range(1, 50),
                            2 => rng.range(4000, 4200),
                            _ => rng.range(50, 3000),
                        };
                        vec![b'z'; l as usize]
                    })
                    .collect();
                Step {
                    qid: qid.clone(),
                    kind: StepKind::CopyIn {
                        chunks,
                        fail: rng.chance(1, 4),
                    },
                    bytes: proto::query(&format!("COPY t FROM STDIN {}", tag(cid, &qid, ""))),
                    what: "copy_in".into(),
                    readies: 1,
                    cuts: vec![],
                }
            }
            10 => {
                let mut b = proto::parse(
                    "",
                    &format!(
                        "SELECT * FROM t {}",
                        tag(cid, &qid, &format!("rows={} w={}", rows(rng), w(rng)))
                    ),
                    &[],
                );
                b.extend(proto::bind("", "", &[], &[], &[]));
                b.extend(proto::describe(b'P', ""));
                b.extend(proto::execute("", 0));
                b.extend(proto::sync());
                Step::plain(&qid, "extended_batch", b)
            }
            11 => {
                // portal suspension and re-Execute inside one batch
                let mut b = proto::parse(
                    "",
                    &format!(
                        "SELECT * FROM t {}",
                        tag(cid, &qid, &format!("rows={} w={}", rng.range(3, 60), w(rng)))
                    ),
                    &[],
                );
                b.extend(proto::bind("", "", &[], &[], &[]));
                b.extend(proto::execute("", rng.range(1, 5) as i32));
                b.extend(proto::execute("", rng.range(1, 5) as i32));
                b.extend(proto::execute("", 0));
                b.extend(proto::sync());
                Step::plain(&qid, "portal_suspension", b)
            }
            12 => {
                // two pipelined batches in one write
                let mut b = vec![];
                for _ in 0..2 {
                    b.extend(proto::parse(
                        "",
                        &format!(
                            "SELECT * FROM t {}",
                            tag(cid, &qid, &format!("rows={} w={}", rows(rng), w(rng)))
                        ),
                        &[],
                    ));
                    b.extend(proto::bind("", "", &[], &[], &[]));
                    b.extend(proto::execute("", 0));
                    b.extend(proto::sync());
                }
                let mut s = Step::plain(&qid, "pipelined_batches", b);
                s.readies = 2;
                s
            }
            _ => {
                let mut b = vec![];
                let k = rng.range(2, 4) as usize;
                for _ in 0..k {
                    b.extend(proto::query(&format!(
                        "SELECT * FROM t {}",
                        tag(cid, &qid, &format!("rows={} w={}", rows(rng), w(rng)))
                    )));
                }
                let mut s = Step::plain(&qid, "pipelined_queries", b);
                s.readies = k;
                s
            }
        };
        step.cuts = cuts(rng, step.bytes.len());
        out.push((false, step));
    }
    out
}

struct Scenario {
    seed: u64,
    mode: String,
    pool_size: u32,
    clients: usize,
    reqs: usize,
    seg: bool,
    dribble: bool,
    big: bool,
    /// another client keeps the only server busy for longer than connect_timeout now and then:
    /// some requests are refused with the pool error, and must then not reach a server at all
    contention: bool,
}

fn run_scenario(sc: &Scenario, rep: &Report) -> Result<(), String> {
    let (mut cell, mut cfg) = simple_cell(&["primary"], sc.pool_size, &sc.mode);
    cfg.gset("connect_timeout", if sc.contention { "150" } else { "10000" });
    cell.start_pgcat(&cfg, &StartOpts::default())
        .map_err(|e| format!("start: {:?}", e))?;
    let holder_stop = std::sync::Arc::new(std::sync::atomic::AtomicBool::new(false));
    let holder = if sc.contention {
        let addr = cell.addr();
        let stop = holder_stop.clone();
        let n_hold = sc.pool_size;
        Some(std::thread::spawn(move || {
            let mut conns: Vec<Conn> = (0..n_hold).filter_map(|k| Conn::connect(&addr, &StartupOpts::new(USER, "db", PASS).app(&format!("holder{}", k))).ok()).collect();
            let mut n = 0;
            while !stop.load(Ordering::SeqCst) {
                n += 1;
                for (k, c) in conns.iter_mut().enumerate() {
                    let _ = c.query(&format!("BEGIN {}", tag(&format!("holder{}", k), &format!("holder{}.b{}", k, n), "")), 5000);
                }
                crate::util::sleep_ms(300);
                for (k, c) in conns.iter_mut().enumerate() {
                    let _ = c.query(&format!("COMMIT {}", tag(&format!("holder{}", k), &format!("holder{}.c{}", k, n), "")), 5000);
                }
                crate::util::sleep_ms(120);
            }
            for c in conns {
                c.terminate();
            }
        }))
    } else {
        None
    };
    if sc.seg {
        let c = &cell.mocks[0].ctl;
        c.seg_seed.store(sc.seed | 1, Ordering::SeqCst);
        c.seg_delay_us.store(if sc.dribble { 0 } else { 150 }, Ordering::SeqCst);
        c.seg_max
            .store(if sc.dribble { 64 } else { 0 }, Ordering::SeqCst);
    }
    let addr = cell.addr();
    let mut handles = vec![];
    for ci in 0..sc.clients {
        let addr = addr.clone();
        let seed = sc.seed ^ (ci as u64 + 1) * 0x9E37;
        let reqs = sc.reqs;
        let big = sc.big;
        handles.push(std::thread::spawn(move || -> Result<Vec<StepResult>, String> {
            let mut rng = Rng::new(seed);
            let cid = format!("c{}", ci);
            let mut conn = Conn::connect(&addr, &StartupOpts::new(USER, "db", PASS).app(&cid))
                .map_err(|e| format!("connect: {}", e))?;
            let mut out = vec![];
            for (_, st) in gen_requests(&mut rng, &cid, reqs, big) {
                let r = run_step(&mut conn, &st, 60_000);
                let refused = matches!(&r.outcome, Outcome::PoolerError(m) if m.contains("could not get connection from the pool"));
                let bad = r.outcome != Outcome::Ok && !refused;
                out.push(r);
                if bad {
                    break;
                }
            }
            conn.terminate();
            Ok(out)
        }));
    }
    let mut results = vec![];
    for h in handles {
        results.push(h.join().map_err(|_| "client thread panicked".to_string())??);
    }
    holder_stop.store(true, Ordering::SeqCst);
    if let Some(h) = holder {
        let _ = h.join();
    }
    // ---- oracle
    let events = cell.log.snapshot();
    let labels = cell.labels();
    // per session: seq -> bytes ; replies grouped by qid
    let mut msgs: HashMap<(usize, u64), BTreeMap<u64, std::sync::Arc<Vec<u8>>>> = HashMap::new();
    struct Grp {
        b: usize,
        sid: u64,
        first: u64,
        last: u64,
        reply: Vec<u8>,
    }
    let mut groups: HashMap<String, Vec<Grp>> = HashMap::new();
    for e in &events {
        match &e.ev {
            Ev::MockMsg {
                b,
                sid,
                seq,
                bytes,
                origin,
                typ,
                ..
            } => {
                msgs.entry((*b, *sid)).or_default().insert(*seq, bytes.clone());
                if *origin == Origin::Unattributed && *typ != b'X' {
                    rep.violation(
                        "C03|unattributed_message_at_server",
                        &format!(
                            "mock {} sid={} received a message that no client sent and that is not a documented pooler statement: {}",
                            labels[*b], sid, printable(bytes, 100)
                        ),
                        json!({"bytes": printable(bytes, 300)}),
                    );
                }
            }
            Ev::MockReply {
                b,
                sid,
                first_seq,
                seq,
                bytes,
                qid: Some(q),
                ..
            } => {
                let g = groups.entry(q.clone()).or_default();
                match g.last_mut() {
                    Some(last) if last.b == *b && last.sid == *sid && last.first == *first_seq => {
                        last.last = *seq;
                        last.reply.extend_from_slice(bytes);
                    }
                    _ => g.push(Grp {
                        b: *b,
                        sid: *sid,
                        first: *first_seq,
                        last: *seq,
                        reply: bytes.to_vec(),
                    }),
                }
            }
            _ => {}
        }
    }
    for steps in &results {
        for st in steps {
            rep.eval(1);
            rep.count("requests_compared", 1);
            rep.set_add("request_kinds", &st.what);
            if matches!(&st.outcome, Outcome::PoolerError(m) if m.contains("could not get connection from the pool")) && sc.contention {
                // refused: the client was told the request failed; nothing of it may reach a server
                rep.count("requests_refused_with_pool_error", 1);
                // (pipelined requests share one tag between their parts: a refused first part says
                // nothing about the later ones, which are served normally)
                if !st.what.starts_with("pipelined") && (groups.contains_key(&st.qid) || events.iter().any(|e| matches!(&e.ev, Ev::MockMsg { qid: Some(q), .. } if *q == st.qid))) {
                    rep.violation(
                        &format!("C03|request_refused_with_pool_error_reached_a_server|kind={}", st.what),
                        &format!("request {} ({}) was answered with the pool error and nevertheless arrived at a server", st.qid, st.what),
                        json!({"qid": st.qid, "seed": sc.seed}),
                    );
                }
                continue;
            }
            if st.outcome != Outcome::Ok {
                rep.violation(
                    &format!("C03|request_failed|kind={}|outcome={:?}", st.what, std::mem::discriminant(&st.outcome)),
                    &format!("request {} ({}) did not complete: {:?}; reply so far {}", st.qid, st.what, st.outcome, crate::wire::summarize(&st.msgs)),
                    json!({"qid": st.qid, "kind": st.what, "pgcat_log_tail": cell.pg.as_ref().map(|p| p.log_tail(10))}),
                );
                continue;
            }
            let gs = match groups.get(&st.qid) {
                Some(g) => g,
                None => {
                    let evs: Vec<String> = events.iter().map(|e| crate::evlog::render_event(e, &labels)).filter(|l| l.contains(&st.qid) || l.contains(" reply ")).collect();
                    rep.violation(
                        &format!("C03|request_never_reached_server|kind={}", st.what),
                        &format!("request {} ({}) never arrived at a server", st.qid, st.what),
                        json!({"qid": st.qid, "events": evs}),
                    );
                    continue;
                }
            };
            let mut req = vec![];
            let mut reply = vec![];
            for g in gs {
                if let Some(m) = msgs.get(&(g.b, g.sid)) {
                    for (_, bytes) in m.range(g.first..=g.last) {
                        req.extend_from_slice(bytes);
                    }
                }
                reply.extend_from_slice(&g.reply);
            }
            rep.count("bytes_compared", (req.len() + reply.len()) as u64);
            rep.distinct(fnv(format!("{}:{}:{}", st.what, reply.len() % 8196, reply.len() / 8196).as_bytes()));
            rep.set_add("reply_len_mod_8196_buckets", &format!("{}", (reply.len() % 8196) / 128));
            if req != st.sent {
                let at = req.iter().zip(st.sent.iter()).position(|(a, b)| a != b).unwrap_or(req.len().min(st.sent.len()));
                rep.violation(
                    &format!("C03|request_bytes_differ|kind={}", st.what),
                    &format!(
                        "request {} ({}): server received {} bytes, client sent {} bytes, first difference at offset {}",
                        st.qid, st.what, req.len(), st.sent.len(), at
                    ),
                    json!({"qid": st.qid, "client_sent_at_diff": hex_prefix(&st.sent[at.min(st.sent.len())..], 48), "server_got_at_diff": hex_prefix(&req[at.min(req.len())..], 48),
                           "seed": sc.seed}),
                );
            }
            if reply != st.recv {
                let at = reply.iter().zip(st.recv.iter()).position(|(a, b)| a != b).unwrap_or(reply.len().min(st.recv.len()));
                rep.violation(
                    &format!("C03|reply_bytes_differ|kind={}", st.what),
                    &format!(
                        "request {} ({}): server wrote {} bytes, client received {} bytes up to ReadyForQuery, first difference at offset {} (server reply types {}, client got {})",
                        st.qid, st.what, reply.len(), st.recv.len(), at,
                        proto::type_string(&proto::split_msgs(&reply).0).chars().take(60).collect::<String>(),
                        proto::type_string(&st.msgs).chars().take(60).collect::<String>()
                    ),
                    json!({"qid": st.qid, "server_wrote_at_diff": hex_prefix(&reply[at.min(reply.len())..], 48), "client_got_at_diff": hex_prefix(&st.recv[at.min(st.recv.len())..], 48),
                           "seed": sc.seed, "seg": sc.seg, "dribble": sc.dribble}),
                );
            }
        }
    }
    if let Some(st) = results.first().and_then(|r| r.first()) {
        rep.sample(json!({"qid": st.qid, "kind": st.what, "sent": printable(&st.sent, 90), "received_types": proto::type_string(&st.msgs).chars().take(40).collect::<String>(), "received_bytes": st.recv.len()}));
    }
    Ok(())
}

pub fn run(tier: &str) -> i32 {
    let rep = Report::new(
        "C03",
        tier,
        "exploration",
        "request = one client request of a generated kind (row counts/widths across the 8196-byte thresholds, big rows, empty, multi-statement, notices/ParameterStatus/notifications, error mid-stream, COPY in/out/fail, extended batch, portal suspension, pipelined batches/queries) with random client and server write segmentation, one scenario in eight with the pool held by other clients beyond connect_timeout (refused requests must not reach a server); oracle = byte equality client-sent vs server-received and server-written vs client-received per request; distinct = distinct (kind, reply length mod 8196, length/8196)",
    );
    rep.assume("statement caching off, no plugins, no custom commands in this workload: the permitted-difference set is empty");
    rep.assume("Flush (H) and FunctionCall (F) are outside the property's request shapes and not generated");
    let thorough = rep.thorough();
    let n = if thorough { 1600 } else { 160 };
    let mut rng = Rng::new(rep.seed ^ 0xC03);
    let scs: Vec<Scenario> = (0..n)
        .map(|i| Scenario {
            seed: rng.next(),
            mode: if i % 5 == 4 { "session".into() } else { "transaction".into() },
            pool_size: rng.range(1, 2) as u32,
            clients: if i % 5 == 4 { 1 } else { rng.range(1, 3) as usize },
            reqs: rng.range(8, 24) as usize,
            seg: i % 3 != 0,
            dribble: i % 9 == 1,
            big: thorough && i % 7 == 0,
            contention: i % 8 == 5,
        })
        .collect();
    run_parallel(n, workers(), |i| {
        if let Err(e) = run_scenario(&scs[i], &rep) {
            rep.inconclusive(&e);
        }
    });
    rep.finish(&[("requests_compared", 2000)])
}
