//! C20 — mirroring never affects the primary path.

use super::common::*;
use crate::cell::{run_parallel, workers, Cell};
use crate::evlog::Ev;
use crate::mock::*;
use crate::pgcat::{Cfg, MirrorCfg, PoolCfg, StartOpts};
use crate::proto::{self, Msg};
use crate::report::Report;
use crate::sql::tag;
use crate::util::{printable, sleep_ms, Rng};
use crate::wire::{Conn, StartupOpts};
use crate::wl::{run_step, Outcome, StepResult};
use serde_json::json;
use std::collections::BTreeMap;
use std::sync::atomic::{AtomicBool, Ordering};
use std::sync::Arc;

static EPILOGUES_LEFT: std::sync::atomic::AtomicI64 = std::sync::atomic::AtomicI64::new(0);

struct World {
    cell: Cell,
    primary: usize,
    replica: Option<usize>,
    /// (mock index, target server index)
    mirrors: Vec<(usize, usize)>,
}

fn build(with_mirrors: bool, with_replica: bool, mirror_targets: &[usize], prewarm: bool, workers: u32) -> Result<World, String> {
    let mut cell = Cell::new();
    let p = cell.add_mock("db.s0.primary.0");
    let mut servers = vec![cell.server(p, "primary")];
    let mut replica = None;
    if with_replica {
        let r = cell.add_mock("db.s0.replica.1");
        servers.push(cell.server(r, "replica"));
        replica = Some(r);
    }
    let mut mirrors = vec![];
    let mut mcfg = vec![];
    if with_mirrors {
        for (k, tgt) in mirror_targets.iter().enumerate() {
            let m = cell.add_mock(&format!("mirror.{}.of{}", k, tgt));
            mcfg.push(MirrorCfg {
                host: cell.mocks[m].host(),
                port: cell.mocks[m].port,
                target: *tgt,
            });
            mirrors.push((m, *tgt));
        }
    }
    let mut cfg = Cfg::new();
    // (with a single worker thread anything that spins or blocks in a mirror task is felt by every client)
    cfg.gset("worker_threads", &workers.to_string());
    let mut pool = PoolCfg::single("db", USER, PASS, 2, servers);
    pool.shards[0].mirrors = mcfg;
    pool.set("connect_timeout", "300");
    if prewarm {
        // statements the pooler itself runs on every new server connection: the mirror sees the
        // mirrored server's copies of them and must see nothing of its own
        pool.set("query_parser_enabled", "true"); // plugins are only accepted with the parser on
        pool.raw_tables = "\n[pools.db.plugins]\n\n[pools.db.plugins.prewarmer]\nenabled = true\nqueries = [\"SELECT 'warm-1'\", \"SELECT 'warm-2'\"]\n".to_string();
    }
    cfg.pools.push(pool);
    cell.start_pgcat(&cfg, &StartOpts::default())
        .map_err(|e| format!("start: {:?}", e))?;
    Ok(World {
        cell,
        primary: p,
        replica,
        mirrors,
    })
}

/// replies with the backend session id masked (it differs between the two runs by construction)
fn normalise(msgs: &[Msg]) -> Vec<(u8, Vec<u8>)> {
    let mask = |s: &str| -> String {
        let parts: Vec<&str> = s.split('|').collect();
        if parts.len() == 4 {
            // which server of the shard serves a role=any request is the load balancer's choice
            format!("*|*|{}|{}", parts[2], parts[3])
        } else {
            s.to_string()
        }
    };
    msgs.iter()
        .map(|m| match m.typ {
            b'D' => {
                let cols = m.row();
                let mut body = vec![];
                for (i, c) in cols.iter().enumerate() {
                    let v = c.clone().unwrap_or_default();
                    if i == 0 {
                        body.extend_from_slice(mask(&String::from_utf8_lossy(&v)).as_bytes());
                    } else {
                        body.extend_from_slice(&v);
                    }
                    body.push(0x1f);
                }
                (m.typ, body)
            }
            b'd' => {
                let line = String::from_utf8_lossy(&m.body).to_string();
                let mut it = line.splitn(2, '\t');
                let id = it.next().unwrap_or("");
                let rest = it.next().unwrap_or("");
                (m.typ, format!("{}\t{}", mask(id), rest).into_bytes())
            }
            b'A' | b'K' => (m.typ, vec![]),
            _ => (m.typ, m.body.clone()),
        })
        .collect()
}

/// Slowest round trip (us) of 150 small requests sent 20 ms apart by one client; with `with_mirror`
/// the primary has one mirror whose listener is in state `listen` from before the first request.
fn steady_latency(with_mirror: bool, listen: u8, workers: u32) -> Result<u64, String> {
    let w = build(with_mirror, false, if with_mirror { &[0] } else { &[] }, false, workers)?;
    for (m, _) in &w.mirrors {
        w.cell.mocks[*m].ctl.listen.store(listen, Ordering::SeqCst);
    }
    let mut c = Conn::connect(&w.cell.addr(), &StartupOpts::new(USER, "db", PASS).app("steady")).map_err(|e| format!("steady connect: {}", e))?;
    let mut worst = 0u64;
    for k in 0..150 {
        let t0 = crate::util::now_ns();
        c.query(&format!("SELECT 1 {}", tag("steady", &format!("st.q{}", k), "rows=1")), 20_000).map_err(|(m, e)| format!("steady request {}: {:?} {}", k, e, crate::wire::summarize(&m)))?;
        let us = (crate::util::now_ns() - t0) / 1000;
        if k > 0 {
            worst = worst.max(us);
        }
        sleep_ms(20);
    }
    c.terminate();
    Ok(worst)
}

fn run_program(addr: &str, seed: u64, clients: usize, reqs: usize) -> Result<Vec<Vec<StepResult>>, String> {
    let mut hs = vec![];
    for ci in 0..clients {
        let addr = addr.to_string();
        let s = seed ^ (ci as u64 + 1) * 0x9E37;
        hs.push(std::thread::spawn(move || -> Result<Vec<StepResult>, String> {
            let mut rng = Rng::new(s);
            let cid = format!("c{}", ci);
            let mut conn = Conn::connect(&addr, &StartupOpts::new(USER, "db", PASS).app(&cid)).map_err(|e| format!("connect: {}", e))?;
            let mut out = vec![];
            for (_, st) in super::c03::gen_requests(&mut rng, &cid, reqs, false) {
                let r = run_step(&mut conn, &st, 30_000);
                let bad = r.outcome != Outcome::Ok;
                out.push(r);
                if bad {
                    break;
                }
                std::thread::sleep(std::time::Duration::from_micros(rng.below(2000)));
            }
            conn.terminate();
            Ok(out)
        }));
    }
    let mut res = vec![];
    for h in hs {
        res.push(h.join().map_err(|_| "client panicked".to_string())??);
    }
    Ok(res)
}

/// `isolated`: latency verdicts are only issued when the scenario runs alone on the machine;
/// in the parallel phase an over-bound request only nominates the seed for an isolated re-run.
fn scenario(seed: u64, rep: &Report, isolated: bool, nominated: &std::sync::Mutex<Vec<u64>>) -> Result<bool, String> {
    let mut over_bound = false;
    let mut rng = Rng::new(seed);
    let with_replica = rng.chance(1, 2);
    let n_mirrors = rng.range(1, 2) as usize;
    let targets: Vec<usize> = (0..n_mirrors)
        .map(|_| if with_replica { rng.below(2) as usize } else { 0 })
        .collect();
    let clients = rng.range(1, 3) as usize;
    let reqs = rng.range(8, 20) as usize;
    // ---- run B: mirrors + faults
    let prewarm = rng.chance(1, 2);
    if prewarm {
        rep.count("scenarios_with_prewarmer", 1);
    }
    let n_workers: u32 = *rng.pick(&[1, 1, 2, 4]);
    let wb = build(true, with_replica, &targets, prewarm, n_workers)?;
    let stop = Arc::new(AtomicBool::new(false));
    let ctls: Vec<_> = wb.mirrors.iter().map(|(m, _)| wb.cell.mocks[*m].ctl.clone()).collect();
    let stop2 = stop.clone();
    let fseed = rng.next();
    let fault_thread = std::thread::spawn(move || {
        let mut rng = Rng::new(fseed);
        let mut kinds: BTreeMap<String, u64> = BTreeMap::new();
        while !stop2.load(Ordering::SeqCst) {
            let ctl = rng.pick(&ctls).clone();
            let all_kinds = ["down", "accept_hang", "accept_close", "hang_on_query", "slow", "close_mid_reply", "error_replies", "dribble", "dribble", "none"];
            let kind = match std::env::var("PGV_C20_FAULT") {
                Ok(k) => *all_kinds.iter().find(|x| **x == k).unwrap_or(&"none"),
                Err(_) => *rng.pick(&all_kinds),
            };
            *kinds.entry(kind.to_string()).or_insert(0) += 1;
            match kind {
                "down" => {
                    ctl.listen.store(LISTEN_DOWN, Ordering::SeqCst);
                    ctl.kill_sessions();
                }
                "accept_hang" => {
                    ctl.listen.store(LISTEN_ACCEPT_HANG, Ordering::SeqCst);
                    ctl.kill_sessions();
                }
                "accept_close" => {
                    ctl.listen.store(LISTEN_ACCEPT_CLOSE, Ordering::SeqCst);
                    ctl.kill_sessions();
                }
                "hang_on_query" => ctl.q_hang.store(true, Ordering::SeqCst),
                "slow" => ctl.slow_ms.store(40, Ordering::SeqCst),
                "close_mid_reply" => {
                    ctl.mid_after.store(rng.range(1, 30), Ordering::SeqCst);
                    ctl.mid_mode.store(if rng.chance(1, 2) { MID_RST } else { MID_HANG }, Ordering::SeqCst);
                }
                "error_replies" => ctl.err_all.store(true, Ordering::SeqCst),
                "dribble" => {
                    // replies trickle in a few bytes at a time
                    ctl.seg_max.store(rng.range(4, 24), Ordering::SeqCst);
                    ctl.seg_delay_us.store(rng.range(500, 4000), Ordering::SeqCst);
                    ctl.seg_seed.store(rng.next() | 1, Ordering::SeqCst);
                }
                _ => {}
            }
            let t = rng.range(20, 250);
            let end = crate::util::now_ns() + t * 1_000_000;
            while crate::util::now_ns() < end && !stop2.load(Ordering::SeqCst) {
                sleep_ms(2);
            }
            ctl.heal();
            ctl.seg_seed.store(0, Ordering::SeqCst);
            if rng.chance(1, 2) {
                sleep_ms(rng.range(5, 60));
            }
        }
        for c in &ctls {
            c.heal();
        }
        kinds
    });
    let rb = run_program(&wb.cell.addr(), seed, clients, reqs);
    stop.store(true, Ordering::SeqCst);
    let kinds = fault_thread.join().unwrap_or_default();
    for (k, v) in kinds {
        rep.count(&format!("mirror_fault_{}", k), v);
    }
    let rb = rb?;
    sleep_ms(150);
    // ---- epilogue (one scenario in four): a mirror that stops reading for longer than any internal
    // timeout while a request much larger than the socket buffers is in flight, then resumes; the
    // requests that follow on the same connections must still arrive as whole messages
    // (at most EPILOGUE_BUDGET of them per run: each moves tens of MiB and would otherwise load the
    // machine enough to disturb the latency-sensitive parts of the neighbouring cells)
    if rng.chance(1, 4) && EPILOGUES_LEFT.fetch_update(Ordering::SeqCst, Ordering::SeqCst, |v| if v > 0 { Some(v - 1) } else { None }).is_ok() {
        let mut c = Conn::connect(&wb.cell.addr(), &StartupOpts::new(USER, "db", PASS).app("cz")).map_err(|e| format!("cz connect: {}", e))?;
        let _ = c.query(&format!("SELECT 1 {}", tag("cz", "cz.r0", "rows=1")), 10_000);
        for (m, _) in &wb.mirrors {
            wb.cell.mocks[*m].ctl.q_hang.store(true, Ordering::SeqCst);
        }
        // the mirror sessions hang on this one (and stop reading their sockets) ...
        let _ = c.query(&format!("SELECT 1 {}", tag("cz", "cz.r1", "rows=1")), 10_000);
        // ... while this one (16-24 MiB) is written to them
        let pad = "x".repeat((12 << 20) + rng.below(4 << 20) as usize);
        let t0 = crate::util::now_ns();
        let big = c.query(&format!("SELECT 1 {} -- {}", tag("cz", "cz.r2", "rows=1"), pad), 30_000);
        let big_us = (crate::util::now_ns() - t0) / 1000;
        rep.max("max_latency_us_big_request_with_stalled_mirror", big_us);
        if big.is_err() {
            rep.violation("C20|client_request_failed_while_mirror_stalled", "a 12+ MiB request failed while the mirror had stopped reading", json!({"seed": seed}));
        }
        sleep_ms(1500 + rng.below(1500));
        for (m, _) in &wb.mirrors {
            wb.cell.mocks[*m].ctl.q_hang.store(false, Ordering::SeqCst);
        }
        for k in 3..6 {
            let _ = c.query(&format!("SELECT 1 {}", tag("cz", &format!("cz.r{}", k), "rows=1")), 10_000);
            sleep_ms(30);
        }
        sleep_ms(400);
        c.terminate();
        rep.count("stalled_mirror_big_request_epilogues", 1);
    }
    // ---- with every client gone and the mirrors healthy again the pooler has nothing to do: it must
    // not keep a core busy (a task spinning on a dead mirror connection is waiting time for every
    // client as soon as cores are scarce)
    if rng.chance(1, 2) {
        for (m, _) in &wb.mirrors {
            wb.cell.mocks[*m].ctl.heal();
        }
        sleep_ms(250);
        let (c0, t0) = (wb.cell.pg.as_ref().map(|p| p.cpu_ms()).unwrap_or(0), crate::util::now_ns());
        sleep_ms(600);
        let (c1, t1) = (wb.cell.pg.as_ref().map(|p| p.cpu_ms()).unwrap_or(0), crate::util::now_ns());
        let wall_ms = (t1 - t0) / 1_000_000;
        rep.count("idle_cpu_windows_measured", 1);
        rep.max("max_idle_cpu_ms_per_600ms", c1.saturating_sub(c0));
        if c1.saturating_sub(c0) * 100 > wall_ms * 40 {
            rep.violation(
                "C20|pooler_keeps_a_core_busy_after_mirror_faults_with_no_client_connected",
                &format!("no client connected, mirrors healthy again: the pooler used {} ms of CPU in {} ms", c1 - c0, wall_ms),
                json!({"seed": seed, "log_tail": wb.cell.pg.as_ref().map(|p| p.log_tail(6))}),
            );
        }
    }
    // ---- run A: same program, no mirrors
    let wa = build(false, with_replica, &[], prewarm, n_workers)?;
    let ra = run_program(&wa.cell.addr(), seed, clients, reqs)?;
    // ---- differential comparison
    for (ca, cb) in ra.iter().zip(rb.iter()) {
        for (a, b) in ca.iter().zip(cb.iter()) {
            rep.count("requests_compared", 1);
            if a.qid != b.qid {
                return Err("programs diverged".into());
            }
            if b.outcome != Outcome::Ok || a.outcome != Outcome::Ok {
                // a checkout that ran into the pool's connect_timeout (300 ms of real time) is a
                // latency effect: judged like the latency bound, i.e. only if it shows again when the
                // scenario runs alone on the machine
                let pool_timeout = matches!(&b.outcome, Outcome::PoolerError(m) if m.contains("could not get connection from the pool"));
                if a.outcome == Outcome::Ok && pool_timeout {
                    over_bound = true;
                    if !isolated {
                        let mut g = nominated.lock().unwrap();
                        if !g.contains(&seed) {
                            g.push(seed);
                        }
                        rep.count("checkout_timeouts_nominated_for_isolated_rerun", 1);
                    }
                } else if a.outcome == Outcome::Ok {
                    rep.violation(
                        &format!("C20|request_failed_only_with_faulty_mirror|kind={}", a.what),
                        &format!("request {} ({}) completed without mirrors but failed with a faulty mirror: {:?}", a.qid, a.what, b.outcome),
                        json!({"seed": seed, "qid": a.qid}),
                    );
                }
                continue;
            }
            let na = normalise(&a.msgs);
            let nb = normalise(&b.msgs);
            if na != nb {
                let at = na.iter().zip(nb.iter()).position(|(x, y)| x != y).unwrap_or(na.len().min(nb.len()));
                rep.violation(
                    &format!("C20|reply_differs_with_mirror|kind={}", a.what),
                    &format!(
                        "request {} ({}): reply with a faulty mirror differs from the reply without mirrors at message {} (types {} vs {})",
                        a.qid, a.what, at,
                        proto::type_string(&a.msgs).chars().take(50).collect::<String>(),
                        proto::type_string(&b.msgs).chars().take(50).collect::<String>()
                    ),
                    json!({"seed": seed, "qid": a.qid}),
                );
            }
            let la = (a.t_done - a.t_send) / 1000;
            let lb = (b.t_done - b.t_send) / 1000;
            rep.max("max_latency_us_without_mirrors", la);
            rep.max("max_latency_us_with_faulty_mirrors", lb);
            if lb > 10 * la + 250_000 && std::env::var("PGV_DEBUG").is_ok() {
                if let Some(pg) = wb.cell.pg.as_ref() {
                    println!("==== slow request {} t_send={} t_done={}", b.qid, b.t_send, b.t_done);
                    for (t, l) in pg.lines.lock().unwrap().iter() {
                        if *t + 50_000_000 >= b.t_send && *t <= b.t_done + 50_000_000 {
                            println!("{} {}", (*t as i64 - b.t_send as i64) / 1000, &l[..l.len().min(220)]);
                        }
                    }
                }
            }
            if lb > 10 * la + 250_000 {
                over_bound = true;
            }
            if lb > 10 * la + 250_000 && !isolated {
                let mut g = nominated.lock().unwrap();
                if !g.contains(&seed) {
                    g.push(seed);
                }
                rep.count("latency_candidates_nominated_for_isolated_rerun", 1);
            }
            if lb > 10 * la + 250_000 && isolated && std::env::var("PGV_C20_REPORT_NOW").is_ok() {
                rep.violation(
                    &format!("C20|added_waiting_with_faulty_mirror|kind={}", a.what),
                    &format!("request {} ({}) took {} us with a faulty mirror vs {} us without mirrors", a.qid, a.what, lb, la),
                    json!({"seed": seed, "qid": a.qid, "us_with": lb, "us_without": la}),
                );
            }
        }
    }
    // ---- mirror traffic must be a whole-message subsequence of one source session's traffic
    let labels = wb.cell.labels();
    let mut by_sess: BTreeMap<(usize, u64), Vec<Arc<Vec<u8>>>> = BTreeMap::new();
    for e in wb.cell.log.snapshot() {
        if let Ev::MockMsg { b, sid, bytes, typ, .. } = &e.ev {
            if *typ == b'X' {
                continue;
            }
            by_sess.entry((*b, *sid)).or_default().push(bytes.clone());
        }
    }
    // a request whose body never completed at a mirror, but whose received part already contains
    // whole later requests of the mirrored server: the request was torn and the connection kept
    for (mi, tgt) in &wb.mirrors {
        let target_mock = if *tgt == 0 { wb.primary } else { wb.replica.unwrap_or(wb.primary) };
        let partials: Vec<(u64, u8, usize, Vec<u8>)> = wb.cell.mocks[*mi]
            .ctl
            .sessions
            .lock()
            .unwrap()
            .values()
            .filter_map(|si| si.partial.lock().unwrap().as_ref().map(|p| (si.sid, p.0, p.1, p.2.clone())))
            .collect();
        for (sid, typ, declared, got) in partials {
            rep.count("incomplete_requests_pending_at_mirrors", 1);
            let later: Vec<&Arc<Vec<u8>>> = by_sess.iter().filter(|(k, _)| k.0 == target_mock).flat_map(|(_, v)| v.iter()).filter(|m| m.len() >= 24 && m.len() < 4096).collect();
            let find_sub = |hay: &[u8], needle: &[u8]| -> bool {
                let first = needle[0];
                let mut i = 0;
                while i + needle.len() <= hay.len() {
                    match hay[i..hay.len() - needle.len() + 1].iter().position(|b| *b == first) {
                        None => return false,
                        Some(p) => {
                            let at = i + p;
                            if &hay[at..at + needle.len()] == needle {
                                return true;
                            }
                            i = at + 1;
                        }
                    }
                }
                false
            };
            let embedded = later.iter().find(|m| find_sub(&got, &m[..]));
            if let Some(m) = embedded {
                rep.violation(
                    "C20|mirror_received_torn_request_followed_by_other_requests",
                    &format!("{} sid={}: a {:?} message declared {} body bytes, {} arrived, and inside them is the whole later request {}", labels[*mi], sid, typ as char, declared, got.len(), printable(m, 80)),
                    json!({"seed": seed, "declared": declared, "received": got.len()}),
                );
            }
        }
    }
    for (mi, tgt) in &wb.mirrors {
        let target_mock = if *tgt == 0 { wb.primary } else { wb.replica.unwrap_or(wb.primary) };
        let sources: Vec<&Vec<Arc<Vec<u8>>>> = by_sess.iter().filter(|(k, _)| k.0 == target_mock).map(|(_, v)| v).collect();
        let others: Vec<&Vec<Arc<Vec<u8>>>> = by_sess.iter().filter(|(k, _)| k.0 != target_mock && k.0 != *mi && !wb.mirrors.iter().any(|m| m.0 == k.0)).map(|(_, v)| v).collect();
        for ((b, sid), seq) in by_sess.iter().filter(|(k, _)| k.0 == *mi) {
            rep.count("mirror_sessions_checked", 1);
            rep.count("mirror_messages_seen", seq.len() as u64);
            let embeds = |src: &Vec<Arc<Vec<u8>>>| -> bool {
                let mut j = 0;
                for m in seq {
                    while j < src.len() && src[j] != *m {
                        j += 1;
                    }
                    if j == src.len() {
                        return false;
                    }
                    j += 1;
                }
                true
            };
            if seq.is_empty() {
                continue;
            }
            if sources.iter().any(|s| embeds(s)) {
                rep.count("mirror_sessions_embedded_in_source", 1);
            } else if others.iter().any(|s| embeds(s)) {
                rep.violation(
                    "C20|mirror_received_traffic_of_a_different_server",
                    &format!("{} (mirror of server index {}) received traffic that was sent to a different server", labels[*b], tgt),
                    json!({"seed": seed, "first": printable(&seq[0], 100)}),
                );
            } else {
                // find first message that is not in any source at all
                let all: std::collections::HashSet<&Vec<u8>> = sources.iter().flat_map(|s| s.iter().map(|m| &**m)).collect();
                let alien = seq.iter().find(|m| !all.contains(&***m));
                rep.violation(
                    &format!("C20|mirror_traffic_not_a_copy_of_source_traffic|alien_message={}", alien.is_some()),
                    &format!(
                        "{} sid={} received a message sequence that is not an in-order copy of whole messages of any one connection of the mirrored server; first non-matching: {}",
                        labels[*b], sid, alien.map(|m| printable(m, 100)).unwrap_or("(order differs)".into())
                    ),
                    json!({"seed": seed, "prewarm": prewarm, "mirror_seq": seq.iter().take(12).map(|m| printable(m, 60)).collect::<Vec<_>>(),
                           "first_alien_message_was_received_by": alien.map(|a| by_sess.iter().filter(|(_, v)| v.iter().any(|m| **m == **a)).map(|(k, _)| format!("{} sid={}", labels[k.0], k.1)).collect::<Vec<_>>()),
                           "pgcat_log_tail": wb.cell.pg.as_ref().map(|p| p.log_tail(12))}),
                );
            }
        }
    }
    rep.distinct(seed);
    if let Some(r) = rb.first().and_then(|c| c.first()) {
        rep.sample(json!({"seed": seed, "mirrors": targets, "first_request": r.what, "reply_types": proto::type_string(&r.msgs).chars().take(30).collect::<String>()}));
    }
    Ok(over_bound)
}

pub fn run(tier: &str) -> i32 {
    let rep = Report::new(
        "C20",
        tier,
        "fault_enumeration",
        "scenario = the same seeded client program (C03's request mix) run once with 1-2 mirrors under a random mirror fault schedule {down, accept-and-hang, accept-and-close, hang on query, slow, close/hang mid-reply, error replies, trickling} and once without mirrors, half of the scenarios with the prewarmer plugin on, a few with a mirror that stops reading for seconds while a 12-16 MiB request is in flight; oracle = differential comparison of client-visible replies (backend session id masked) and per-request latency, plus whole-message in-order subsequence embedding of every mirror session's inbound traffic into one session of the mirrored server; distinct = scenario seeds",
    );
    rep.assume("latency criterion: with-mirror latency <= 10 x no-mirror latency + 250 ms per request");
    let thorough = rep.thorough();
    let n = if thorough { 900 } else { 80 };
    let mut rng = Rng::new(rep.seed ^ 0xC20);
    let mut seeds: Vec<u64> = (0..n).map(|_| rng.next()).collect();
    if let Ok(s) = std::env::var("PGV_C20_SEED") {
        seeds = vec![s.parse().unwrap()];
    }
    let n = seeds.len();
    let nominated = std::sync::Mutex::new(vec![]);
    EPILOGUES_LEFT.store(if thorough { 40 } else { 4 }, Ordering::SeqCst);
    run_parallel(n, workers(), |i| {
        rep.eval(1);
        if let Err(e) = scenario(seeds[i], &rep, false, &nominated) {
            rep.inconclusive(&e);
        }
    });
    // isolated re-runs (machine otherwise idle): a latency violation is reported only if the
    // scenario exceeds the bound in at least 2 of 4 isolated runs
    let cands: Vec<u64> = nominated.lock().unwrap().iter().cloned().take(if thorough { 12 } else { 5 }).collect();
    let dummy = std::sync::Mutex::new(vec![]);
    for seed in cands {
        let mut over = 0;
        for _ in 0..4 {
            match scenario(seed, &rep, true, &dummy) {
                Ok(true) => over += 1,
                Ok(false) => {}
                Err(e) => rep.inconclusive(&e),
            }
        }
        rep.count("isolated_reruns", 4);
        if over >= 2 {
            rep.violation(
                "C20|added_waiting_with_faulty_mirror",
                &format!("scenario seed {} exceeded the latency bound (10 x no-mirror latency + 250 ms), or ran into the checkout timeout only with mirrors, in {} of 4 isolated runs", seed, over),
                json!({"seed": seed, "isolated_runs_over_bound": over}),
            );
        } else {
            rep.count("latency_candidates_not_reproduced_in_isolation", 1);
        }
    }
    // a mirror that cannot be reached at all for seconds (longer than the pool's connect timeout):
    // one client sends a small request every 20 ms; its slowest round trip with such a mirror is
    // compared with the slowest one without mirrors (run alone on the machine, one after the other)
    for k in 0..(if thorough { 6 } else { 2 }) {
        let listen = if k % 2 == 0 { LISTEN_DOWN } else { LISTEN_ACCEPT_HANG };
        let workers_n = [1u32, 2, 1, 4, 2, 1][k % 6];
        let mut over = 0;
        let mut last = (0u64, 0u64);
        for attempt in 0..3 {
            let la = match steady_latency(false, listen, workers_n) {
                Ok(v) => v,
                Err(e) => {
                    rep.inconclusive(&e);
                    break;
                }
            };
            let lb = match steady_latency(true, listen, workers_n) {
                Ok(v) => v,
                Err(e) => {
                    rep.inconclusive(&e);
                    break;
                }
            };
            last = (la, lb);
            if attempt == 0 {
                rep.count("unreachable_mirror_runs", 1);
                rep.max("max_latency_us_with_unreachable_mirror", lb);
            }
            if lb > 10 * la + 250_000 {
                over += 1;
            } else {
                break;
            }
        }
        if over >= 2 {
            rep.violation(
                &format!("C20|added_waiting_with_unreachable_mirror|mirror={}", if listen == LISTEN_DOWN { "refuses_connections" } else { "accepts_and_never_answers" }),
                &format!("one client, one small request every 20 ms for 3 s, worker_threads={}: slowest round trip {} us with a mirror that cannot be reached vs {} us without mirrors (bound 10x + 250 ms), in {} consecutive runs", workers_n, last.1, last.0, over),
                json!({"worker_threads": workers_n}),
            );
        }
    }
    rep.finish(&[("requests_compared", 500), ("mirror_sessions_embedded_in_source", 20)])
}
