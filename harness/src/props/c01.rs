//! C01 — a server connection serves one client at a time, for a whole transaction.

use super::txw::{self, TxwParams, TxwRun};
use crate::cell::{run_parallel, workers};
use crate::evlog::{render_event, Ev, Event, Origin};
use crate::report::Report;
use crate::util::Rng;
use crate::wire::row_idents;
use crate::wl::{GenOpts, Outcome};
use serde_json::json;
use std::collections::{BTreeMap, HashMap};

/// identity strings in CopyData lines ("label|sid|qid|row\t....")
fn copy_idents(msgs: &[crate::proto::Msg]) -> Vec<(String, u64, String, u64)> {
    let mut out = vec![];
    for m in msgs {
        if m.typ == b'd' {
            let line = String::from_utf8_lossy(&m.body).to_string();
            if let Some(id) = line.split('\t').next() {
                let parts: Vec<&str> = id.split('|').collect();
                if parts.len() == 4 {
                    out.push((
                        parts[0].to_string(),
                        parts[1].parse().unwrap_or(0),
                        parts[2].to_string(),
                        parts[3].parse().unwrap_or(0),
                    ));
                }
            }
        }
    }
    out
}

fn excerpt(events: &[Event], labels: &[String], b: usize, sid: u64, around_n: u64, span: usize) -> Vec<String> {
    let sess: Vec<&Event> = events
        .iter()
        .filter(|e| match &e.ev {
            Ev::MockMsg { b: bb, sid: s, .. }
            | Ev::MockReply { b: bb, sid: s, .. }
            | Ev::Handover { b: bb, sid: s, .. }
            | Ev::MockOpen { b: bb, sid: s, .. }
            | Ev::MockClose { b: bb, sid: s, .. } => *bb == b && *s == sid,
            _ => false,
        })
        .collect();
    let pos = sess.iter().position(|e| e.n >= around_n).unwrap_or(sess.len());
    let lo = pos.saturating_sub(span);
    let hi = (pos + 3).min(sess.len());
    sess[lo..hi].iter().map(|e| render_event(e, labels)).collect()
}

/// The C01 oracle over one finished run. Returns number of hand-overs observed.
pub fn check_isolation(run: &TxwRun, rep: &Report) -> u64 {
    let events = run.cell.log.snapshot();
    let labels = run.cell.labels();
    let mode = run.params.mode.clone();
    let traces: HashMap<String, &crate::wl::ClientTrace> =
        run.traces.iter().map(|t| (t.id.clone(), t)).collect();

    // qid -> (backend, sid) from the mock's log
    let mut where_ran: HashMap<String, (usize, u64)> = HashMap::new();
    // per session scan
    struct Sess {
        owner: Option<String>,
        batch_open: bool,
        owner_last_t: u64,
    }
    let mut sess: BTreeMap<(usize, u64), Sess> = BTreeMap::new();
    let mut handovers = 0u64;
    let mut seqs: BTreeMap<(usize, u64), Vec<String>> = BTreeMap::new();
    for e in &events {
        match &e.ev {
            Ev::Handover { prev, next, .. } => {
                handovers += 1;
                rep.set_add("handover_pairs", &format!("{}>{}", prev, next));
            }
            Ev::MockMsg {
                b,
                sid,
                typ,
                tx_before,
                copy_before,
                client,
                qid,
                origin,
                ..
            } => {
                let s = sess.entry((*b, *sid)).or_insert(Sess {
                    owner: None,
                    batch_open: false,
                    owner_last_t: 0,
                });
                let open_before = *tx_before != b'I' || *copy_before || s.batch_open;
                if let (Some(q), Some(c)) = (qid, client) {
                    where_ran.entry(q.clone()).or_insert((*b, *sid));
                    if let Some(o) = s.owner.clone() {
                        if &o != c {
                            // a different client's statement on this session
                            if open_before {
                                let how = traces
                                    .get(&o)
                                    .map(|t| t.how_closed.clone())
                                    .unwrap_or_default();
                                rep.violation(
                                    &format!("C01|foreign_statement_in_open_server_txn|mode={}|prev_exit={}", mode, how),
                                    &format!(
                                        "statement {} of client {} arrived on {} sid={} while that server session was still inside client {}'s transaction (tx_before={}, copy={}, batch_open={}); scenario {}",
                                        q, c, labels[*b], sid, o, *tx_before as char, copy_before, s.batch_open, run.params.describe()
                                    ),
                                    json!({"params": run.params.describe(), "seed": run.params.seed,
                                           "session_log": excerpt(&events, &labels, *b, *sid, e.n, 12)}),
                                );
                            }
                            if mode == "session" {
                                // owner must have started disconnecting before this message
                                if let Some(t) = traces.get(&o) {
                                    if t.t_close == 0 || e.t < t.t_close {
                                        rep.violation(
                                            &format!("C01|session_mode_connection_shared|prev_exit={}", t.how_closed),
                                            &format!(
                                                "session mode: statement {} of client {} ran on {} sid={} while client {} (which used that server connection) was still connected; scenario {}",
                                                q, c, labels[*b], sid, o, run.params.describe()
                                            ),
                                            json!({"params": run.params.describe(), "seed": run.params.seed,
                                                   "session_log": excerpt(&events, &labels, *b, *sid, e.n, 12)}),
                                        );
                                    }
                                }
                            }
                        }
                    }
                    if s.owner.as_ref() != Some(c) {
                        seqs.entry((*b, *sid)).or_default().push(c.clone());
                    }
                    s.owner = Some(c.clone());
                    s.owner_last_t = e.t;
                }
                if *origin != Origin::Pooler || qid.is_some() {
                    match *typ {
                        b'P' | b'B' | b'D' | b'E' | b'C' | b'H' => s.batch_open = true,
                        b'S' | b'Q' => s.batch_open = false,
                        _ => {}
                    }
                }
            }
            _ => {}
        }
    }
    for (_, v) in seqs {
        rep.distinct(crate::util::fnv(v.join(",").as_bytes()));
    }

    // per client: transaction affinity + reply identity
    for tr in &run.traces {
        let mut client_sessions: Vec<(usize, u64)> = vec![];
        for txn in &tr.txns {
            let mut txn_sess: Option<(usize, u64)> = None;
            let mut counted = false;
            for (si, st) in txn.steps.iter().enumerate() {
                if let Some(w) = where_ran.get(&st.qid) {
                    if !counted {
                        rep.count("client_transactions_checked", 1);
                        rep.set_add("txn_kinds", &txn.kind);
                        counted = true;
                    }
                    match txn_sess {
                        None => txn_sess = Some(*w),
                        Some(prev) => {
                            if prev != *w {
                                rep.violation(
                                    &format!("C01|transaction_split_across_server_sessions|mode={}|kind={}", mode, txn.kind),
                                    &format!(
                                        "client {} transaction kind {}: step {} ran on {} sid={} but an earlier step of the same transaction ran on {} sid={}; scenario {}",
                                        tr.id, txn.kind, st.qid, labels[w.0], w.1, labels[prev.0], prev.1, run.params.describe()
                                    ),
                                    json!({"params": run.params.describe(), "seed": run.params.seed, "steps": txn.steps.iter().map(|s| s.qid.clone()).collect::<Vec<_>>() }),
                                );
                            }
                        }
                    }
                    if !client_sessions.contains(w) {
                        client_sessions.push(*w);
                    }
                }
                // reply identity
                if st.outcome == Outcome::Ok || matches!(st.outcome, Outcome::PoolerError(_)) {
                    let mut ids = row_idents(&st.msgs);
                    ids.extend(copy_idents(&st.msgs));
                    for (label, sid, qid, _) in ids {
                        rep.count("reply_rows_checked", 1);
                        // rows of a portal resumed in this batch belong to the statement that
                        // created the portal in the previous step of the same transaction
                        let ok_q = qid == st.qid
                            || ((st.what == "batch_resume" || st.what == "batch_named_exec") && si > 0 && qid == txn.steps[si - 1].qid);
                        let ok_s = match where_ran.get(&st.qid) {
                            Some((b, s)) => labels[*b] == label && *s == sid,
                            None => false,
                        };
                        if !ok_q || !ok_s {
                            rep.violation(
                                &format!("C01|reply_not_from_own_statement_or_session|mode={}", mode),
                                &format!(
                                    "client {} step {} received a row produced by {} sid={} for statement {} (its own statement ran at {:?}); scenario {}",
                                    tr.id, st.qid, label, sid, qid, where_ran.get(&st.qid).map(|w| (labels[w.0].clone(), w.1)), run.params.describe()
                                ),
                                json!({"params": run.params.describe(), "seed": run.params.seed, "reply": crate::wire::summarize(&st.msgs)}),
                            );
                        }
                    }
                }
            }
        }
        if mode == "session" && client_sessions.len() > 1 {
            rep.violation(
                "C01|session_mode_client_used_two_server_sessions",
                &format!(
                    "session mode: client {} had statements executed on {} different server sessions {:?}; scenario {}",
                    tr.id, client_sessions.len(), client_sessions, run.params.describe()
                ),
                json!({"params": run.params.describe(), "seed": run.params.seed}),
            );
        }
    }
    rep.count("handovers", handovers);
    handovers
}

pub fn params_for(rng: &mut Rng, thorough: bool, i: usize) -> TxwParams {
    let mode = if i % 4 == 3 { "session" } else { "transaction" };
    let pool_size = rng.range(1, 3) as u32;
    let clients = if thorough {
        rng.range(2, 60) as usize
    } else {
        rng.range(2, 24) as usize
    };
    let clients = if mode == "session" {
        clients.min(10)
    } else {
        clients
    };
    TxwParams {
        seed: rng.next(),
        mode: mode.into(),
        pool_size,
        clients,
        txns_per_client: if mode == "session" {
            rng.range(1, 4) as usize
        } else {
            rng.range(2, 12) as usize
        },
        worker_threads: *rng.pick(&[1, 4, 4, 8]),
        abort_pct: *rng.pick(&[0, 0, 5, 15]),
        think_max_ms: rng.range(0, 3),
        connect_timeout_ms: 5000,
        jitter_us: *rng.pick(&[0, 200, 1000]),
        gen: GenOpts::default(),
        replicas: 0,
        stagger_ms: 0,
        hc_stall: i % 4 == 1,
        cache: if i % 5 == 3 { 3 } else { 0 },
        same_app: i % 3 == 0,
        prewarm_rows: if i % 5 == 2 { [3u64, 30, 120][(i / 5) % 3] } else { 0 },
    }
}

pub fn run(tier: &str) -> i32 {
    let rep = Report::new(
        "C01",
        tier,
        "exploration",
        "scenario = (pool mode, pool_size 1-3, 2-60 clients, generated transactions over simple/extended/COPY protocol, random abrupt exits, jitter); oracle = per-server-session ownership scan of the mock's log + per-transaction session affinity + per-row reply identity; distinct = distinct per-session client sequences",
    );
    rep.assume("mock backend implements PostgreSQL's transaction-status and protocol rules as listed in DESIGN.md 2.2 (no real PostgreSQL in the sandbox)");
    rep.assume("every generated statement carries a unique client/statement tag; attribution relies on it");
    let thorough = rep.thorough();
    let n = if thorough { 6000 } else { 480 };
    let mut rng = Rng::new(rep.seed ^ 0xC01);
    let params: Vec<TxwParams> = (0..n).map(|i| params_for(&mut rng, thorough, i)).collect();
    run_parallel(n, workers(), |i| {
        let p = &params[i];
        match txw::run(p) {
            Err(e) => rep.inconclusive(&e),
            Ok(r) => {
                rep.eval(1);
                let h = check_isolation(&r, &rep);
                if i < 2 {
                    rep.sample(json!({"params": p.describe(), "handovers": h,
                        "clients": r.traces.iter().take(3).map(|t| json!({"id": t.id, "txns": t.txns.iter().map(|x| x.kind.clone()).collect::<Vec<_>>(), "exit": t.how_closed})).collect::<Vec<_>>()}));
                }
                let panics = r.cell.pg.as_ref().map(|p| p.panics()).unwrap_or_default();
                for p in panics {
                    rep.set_add("pgcat_panics", &p);
                }
            }
        }
    });
    rep.finish(&[
        ("handovers", if thorough { 20_000 } else { 200 }),
        ("client_transactions_checked", 500),
    ])
}
