//! C09 — no access without valid credentials.

use crate::cell::{run_parallel, workers, Cell};
use crate::evlog::{Ev, Origin};
use crate::pgcat::{Cfg, PoolCfg, StartOpts, UserCfg, ADMIN_PASS, ADMIN_USER};
use crate::proto::{self, Msg};
use crate::report::Report;
use crate::sql::tag;
use crate::util::{md5_hex, md5_password_response, md5_second_pass, printable, sleep_ms, Rng};
use crate::wire::{Conn, ReadErr, Stream};
use serde_json::json;
use std::collections::HashSet;
use std::sync::Mutex;

const AQ: &str = "SELECT usename, passwd FROM pg_shadow WHERE usename='$1'";

struct World {
    cell: Cell,
}

fn build(tls: bool) -> Result<World, String> {
    let mut cell = Cell::new();
    let m0 = cell.add_mock("db.s0.primary.0");
    let m1 = cell.add_mock("db2.s0.primary.0");
    let m2 = cell.add_mock("dbt.s0.primary.0");
    let m3 = cell.add_mock("dbq.s0.primary.0");
    let mut cfg = Cfg::new();
    cfg.pools
        .push(PoolCfg::single("db", "u1", "pw1", 2, vec![cell.server(m0, "primary")]));
    cfg.pools
        .push(PoolCfg::single("db2", "u2", "pw2", 2, vec![cell.server(m1, "primary")]));
    let mut pt = PoolCfg::single("dbt", "ut", "unused", 2, vec![cell.server(m2, "primary")]);
    pt.users[0].extra.push("auth_type = \"trust\"".into());
    cfg.pools.push(pt);
    let mut pq = PoolCfg::single("dbq", "uq", "x", 2, vec![cell.server(m3, "primary")]);
    pq.users[0].password = None;
    // a second user of the same pool section, also authenticated through auth_query
    let mut u2 = crate::pgcat::UserCfg::new("uq2", "x", 2);
    u2.key = "1".into();
    u2.password = None;
    pq.users.push(u2);
    pq.set("auth_query", &format!("\"{}\"", AQ));
    pq.set("auth_query_user", "\"aq\"");
    pq.set("auth_query_password", "\"aqpw\"");
    cfg.pools.push(pq);
    if tls {
        cfg.gset("tls_certificate", "\"/verif/fixtures/tls/cert.pem\"");
        cfg.gset("tls_private_key", "\"/verif/fixtures/tls/key.pem\"");
    }
    {
        let ctl = &cell.mocks[m3].ctl;
        ctl.shadow
            .lock()
            .unwrap()
            .insert("uq".into(), format!("md5{}", md5_hex(b"pwquq")));
        ctl.pooler_queries
            .lock()
            .unwrap()
            .push(AQ.replace("$1", "uq"));
        ctl.shadow
            .lock()
            .unwrap()
            .insert("uq2".into(), format!("md5{}", md5_hex(b"pwq2uq2")));
        ctl.pooler_queries
            .lock()
            .unwrap()
            .push(AQ.replace("$1", "uq2"));
    }
    cell.start_pgcat(&cfg, &StartOpts::default())
        .map_err(|e| format!("start: {:?}", e))?;
    Ok(World { cell })
}

#[derive(Clone, Debug)]
struct Attempt {
    class: String,
    good: bool,
    user: String,
    db: String,
    /// what to send as response to the md5 challenge: built from the salt
    resp: String,
    password: String,
    pipeline_after_startup: bool,
    pipeline_after_response: bool,
    tls: bool,
}

struct Outcome {
    auth_ok: bool,
    salt: Option<[u8; 4]>,
    msgs: String,
    err: Option<String>,
}

fn build_response(a: &Attempt, salt: &[u8; 4], prev_salt: &Option<[u8; 4]>) -> Option<Vec<u8>> {
    let good = md5_password_response(&a.user, &a.password, salt);
    Some(match a.resp.as_str() {
        "correct" => proto::password_message(&good),
        "wrong_password" => {
            proto::password_message(&md5_password_response(&a.user, "not-the-password", salt))
        }
        "hash_for_other_user" => {
            proto::password_message(&md5_password_response("someone_else", &a.password, salt))
        }
        // the complete, valid answer of ANOTHER user of the same auth_query pool
        "valid_answer_of_other_user_of_pool" => {
            let (ou, op) = if a.user == "uq" { ("uq2", "pwq2") } else { ("uq", "pwq") };
            proto::password_message(&md5_password_response(ou, op, salt))
        }
        "replayed_salt" => match prev_salt {
            Some(ps) if ps != salt => {
                proto::password_message(&md5_password_response(&a.user, &a.password, ps))
            }
            _ => return None,
        },
        "cleartext_password" => {
            let mut v = a.password.as_bytes().to_vec();
            v.push(0);
            proto::password_message(&v)
        }
        "first_pass_hash_only" => {
            let mut v = format!("md5{}", md5_hex(format!("{}{}", a.password, a.user).as_bytes()))
                .into_bytes();
            v.push(0);
            proto::password_message(&v)
        }
        "missing_nul" => proto::password_message(&good[..good.len() - 1]),
        "empty" => proto::password_message(&[]),
        "only_nul" => proto::password_message(&[0]),
        "query_instead" => proto::query(&format!("SELECT 1 {}", tag("evil", "evil.bad.0.instead", ""))),
        "sync_instead" => proto::sync(),
        r if r.starts_with("trunc") => {
            let n: usize = r[5..].parse().unwrap_or(0);
            proto::password_message(&good[..n.min(good.len())])
        }
        r if r.starts_with("extra") => {
            let mut v = good.clone();
            v.extend_from_slice(b"junk\0");
            let _ = r;
            proto::password_message(&v)
        }
        r if r.starts_with("flip") => {
            let n: usize = r[4..].parse().unwrap_or(3);
            let mut v = good.clone();
            let i = n.min(v.len() - 2);
            v[i] ^= 0x01;
            proto::password_message(&v)
        }
        _ => proto::password_message(&good),
    })
}

fn attempt(addr: &str, a: &Attempt, prev_salt: &Option<[u8; 4]>, idx: usize) -> Result<Outcome, String> {
    let mut tcp = crate::wire::tcp_connect(addr, 5000).map_err(|e| e.to_string())?;
    let stream = if a.tls {
        use std::io::{Read, Write};
        tcp.write_all(&proto::ssl_request()).map_err(|e| e.to_string())?;
        let mut b = [0u8; 1];
        tcp.read_exact(&mut b).map_err(|e| e.to_string())?;
        if b[0] != b'S' {
            return Err(format!("TLS not offered: {:?}", b[0] as char));
        }
        let conn = rustls::ClientConnection::new(
            crate::wire::tls_client_config(),
            rustls::ServerName::try_from("localhost").unwrap(),
        )
        .map_err(|e| e.to_string())?;
        Stream::Tls(Box::new(rustls::StreamOwned::new(conn, tcp)))
    } else {
        Stream::Plain(tcp)
    };
    let mut c = Conn::from_stream(stream);
    let mut first = proto::startup_message(&[
        ("user".to_string(), a.user.clone()),
        ("database".to_string(), a.db.clone()),
        ("application_name".to_string(), "c09".to_string()),
    ]);
    let gb = if a.good { "good" } else { "bad" };
    let evil_q = |n: &str| {
        proto::query(&format!(
            "INSERT INTO t VALUES (1) {}",
            tag("evil", &format!("evil.{}.{}.{}", gb, idx, n), "")
        ))
    };
    if a.pipeline_after_startup {
        first.extend(evil_q("after_startup"));
    }
    c.send(&first).map_err(|e| e.to_string())?;
    let mut out = Outcome {
        auth_ok: false,
        salt: None,
        msgs: String::new(),
        err: None,
    };
    let mut responded = false;
    loop {
        match c.read_msg(3000) {
            Ok(m) => {
                out.msgs.push(m.typ as char);
                match m.typ {
                    b'R' => {
                        let code = i32::from_be_bytes([m.body[0], m.body[1], m.body[2], m.body[3]]);
                        if code == 0 {
                            out.auth_ok = true;
                        } else if code == 5 && !responded {
                            let salt = [m.body[4], m.body[5], m.body[6], m.body[7]];
                            out.salt = Some(salt);
                            responded = true;
                            match build_response(a, &salt, prev_salt) {
                                None => {
                                    return Ok(out); // replay impossible (same salt): don't care
                                }
                                Some(mut bytes) => {
                                    if a.pipeline_after_response {
                                        bytes.extend(evil_q("after_response"));
                                    }
                                    let _ = c.send(&bytes);
                                }
                            }
                        }
                    }
                    b'E' => {
                        out.err = Some(format!("{} {}", m.err_code(), m.err_message()));
                    }
                    b'Z' => break,
                    _ => {}
                }
            }
            Err(ReadErr::Eof) => break,
            Err(ReadErr::Timeout) => {
                out.msgs.push_str("(timeout)");
                break;
            }
            Err(ReadErr::Io(_)) => break,
        }
    }
    // if admitted and we pipelined an evil query, its effect is legitimate only for good logins
    Ok(out)
}

pub fn run(tier: &str) -> i32 {
    let rep = Report::new(
        "C09",
        tier,
        "exploration",
        "attempt = (user, database, response class) over 4 pools (md5 cleartext secret x2, trust, auth_query-provided secret) + admin; response classes: correct, wrong, hash for other user, replayed salt, cleartext, first-pass hash, truncated at every length, bit flips, missing NUL, empty, non-password message, pipelined queries before/after the response; oracle = AuthenticationOk only for the correct class (reference MD5 computed by the harness) and no evil-tagged traffic at any mock; distinct = distinct (class,user,db)",
    );
    rep.assume("harness md5 is checked against RFC 1321 vectors in its unit tests; SCRAM is not offered by pgcat to clients");
    let thorough = rep.thorough();
    let tls_available = std::path::Path::new("/verif/fixtures/tls/cert.pem").exists();
    let mut worlds = vec![false];
    if thorough && tls_available {
        worlds.push(true);
    }
    let salts: Mutex<HashSet<[u8; 4]>> = Mutex::new(HashSet::new());
    for tls in worlds {
        let w = match build(tls) {
            Ok(w) => w,
            Err(e) => {
                rep.inconclusive(&e);
                continue;
            }
        };
        let addr = w.cell.addr();
        // identities: (user, db, password, configured-good?)
        let ids: Vec<(&str, &str, &str, bool)> = vec![
            ("u1", "db", "pw1", true),
            ("u2", "db2", "pw2", true),
            ("uq", "dbq", "pwq", true),
            ("uq2", "dbq", "pwq2", true),
            (ADMIN_USER, "pgcat", ADMIN_PASS, true),
            (ADMIN_USER, "pgbouncer", ADMIN_PASS, true),
            ("u1", "db2", "pw1", false),
            ("u2", "db", "pw2", false),
            ("u", "db", "pw1", false),
            ("u11", "db", "pw1", false),
            ("u1", "d", "pw1", false),
            ("u1", "pgcat", "pw1", false),
            ("nobody", "pgcat", ADMIN_PASS, false),
            ("uq", "dbq", "wrongq", false),
            ("ut", "db", "unused", false),
            ("u1", "dbq", "pw1", false),
        ];
        let mut resp_classes: Vec<String> = [
            "correct",
            "wrong_password",
            "hash_for_other_user",
            "replayed_salt",
            "cleartext_password",
            "first_pass_hash_only",
            "missing_nul",
            "empty",
            "only_nul",
            "query_instead",
            "sync_instead",
            "extra",
            "valid_answer_of_other_user_of_pool",
        ]
        .iter()
        .map(|s| s.to_string())
        .collect();
        for n in 0..36 {
            if thorough || n % 5 == 0 || n >= 33 {
                resp_classes.push(format!("trunc{}", n));
            }
        }
        for n in [3, 10, 20, 34] {
            resp_classes.push(format!("flip{}", n));
        }
        let mut attempts = vec![];
        let mut rng = Rng::new(rep.seed ^ 0xC09);
        for (user, db, pw, configured) in &ids {
            for rc in &resp_classes {
                for pipe in 0..3 {
                    if pipe > 0 && !(thorough || rng.chance(1, 3)) {
                        continue;
                    }
                    let good = *configured && rc == "correct";
                    attempts.push(Attempt {
                        class: format!(
                            "{}{}",
                            rc,
                            match pipe {
                                1 => "+pipelined_after_startup",
                                2 => "+pipelined_after_response",
                                _ => "",
                            }
                        ),
                        good,
                        user: user.to_string(),
                        db: db.to_string(),
                        resp: rc.clone(),
                        password: pw.to_string(),
                        pipeline_after_startup: pipe == 1,
                        pipeline_after_response: pipe == 2,
                        tls,
                    });
                }
            }
        }
        // trust pool: always admitted, nothing to respond to
        attempts.push(Attempt {
            class: "trust_pool".into(),
            good: true,
            user: "ut".into(),
            db: "dbt".into(),
            resp: "correct".into(),
            password: "".into(),
            pipeline_after_startup: false,
            pipeline_after_response: false,
            tls,
        });
        let reps = if thorough { 40 } else { 6 };
        let n = attempts.len() * reps;
        run_parallel(n, workers().min(8), |i| {
            let a = &attempts[i % attempts.len()];
            // replay needs a previous salt: take one from a throw-away connection first
            let mut prev = None;
            if a.resp == "replayed_salt" {
                let probe = Attempt {
                    resp: "empty".into(),
                    ..a.clone()
                };
                if let Ok(o) = attempt(&addr, &probe, &None, i) {
                    prev = o.salt;
                }
            }
            if a.resp == "valid_answer_of_other_user_of_pool" && (a.user == "uq" || a.user == "uq2") {
                let (ou, op) = if a.user == "uq" { ("uq2", "pwq2") } else { ("uq", "pwq") };
                let warm = Attempt { resp: "correct".into(), user: ou.into(), password: op.into(), good: true, pipeline_after_startup: false, pipeline_after_response: false, ..a.clone() };
                let _ = attempt(&addr, &warm, &None, i);
            }
            match attempt(&addr, a, &prev, i) {
                Err(e) => rep.inconclusive(&format!("{}: {}", a.class, e)),
                Ok(o) => {
                    rep.eval(1);
                    rep.distinct_str(&format!("{}|{}|{}", a.class, a.user, a.db));
                    if let Some(s) = o.salt {
                        salts.lock().unwrap().insert(s);
                        rep.count("salts_seen", 1);
                    }
                    let cls = if a.good { "good" } else { "bad" };
                    rep.count(&format!("attempts_{}", cls), 1);
                    if o.auth_ok {
                        rep.count(&format!("auth_ok_{}", cls), 1);
                    }
                    if o.auth_ok && !a.good {
                        rep.violation(
                            &format!("C09|admitted_without_valid_credentials|class={}|user={}|db={}|tls={}", a.class, a.user, a.db, a.tls),
                            &format!(
                                "AuthenticationOk for user={} database={} with response class {} (messages seen: {})",
                                a.user, a.db, a.class, o.msgs
                            ),
                            json!({"attempt": format!("{:?}", a), "messages": o.msgs}),
                        );
                    }
                    if !o.auth_ok && a.good && a.resp == "correct" && !a.pipeline_after_startup {
                        rep.violation(
                            &format!("C09|valid_credentials_refused|user={}|db={}|tls={}", a.user, a.db, a.tls),
                            &format!(
                                "valid login user={} database={} was refused: {:?} (messages {})",
                                a.user, a.db, o.err, o.msgs
                            ),
                            json!({"attempt": format!("{:?}", a), "messages": o.msgs, "error": o.err}),
                        );
                    }
                    if i < 3 {
                        rep.sample(json!({"class": a.class, "user": a.user, "db": a.db, "messages": o.msgs, "auth_ok": o.auth_ok, "error": o.err}));
                    }
                }
            }
        });
        sleep_ms(200);
        // leakage: nothing tagged "evil" may reach a mock unless that connection was a good login
        // whose pipelined query came after the response (then the client was authenticated).
        let labels = w.cell.labels();
        for e in w.cell.log.snapshot() {
            if let Ev::MockMsg {
                b,
                bytes,
                client,
                qid,
                origin,
                typ,
                ..
            } = &e.ev
            {
                if client.as_deref() == Some("evil") {
                    let q = qid.clone().unwrap_or_default();
                    // queries pipelined behind a CORRECT login are the client's right once admitted;
                    // the ones sent instead of / before the response never are.
                    if q.starts_with("evil.bad.") {
                        let kind = q.rsplit('.').next().unwrap_or("").to_string();
                        rep.violation(
                            &format!("C09|bytes_of_unauthenticated_client_reached_server|kind={}", kind),
                            &format!("a query sent by a client that was never authenticated reached {}: {}", labels[*b], printable(bytes, 120)),
                            json!({"bytes": printable(bytes, 200)}),
                        );
                    }
                    rep.count("pipelined_queries_of_admitted_clients_at_mocks", 1);
                }
                if *origin == Origin::Unattributed && *typ != b'X' {
                    rep.violation(
                        "C09|unattributed_traffic_at_server",
                        &format!("unattributed message at {}: {}", labels[*b], printable(bytes, 120)),
                        json!({"bytes": printable(bytes, 200)}),
                    );
                }
            }
        }
        for p in w.cell.pg.as_ref().map(|p| p.panics()).unwrap_or_default() {
            rep.set_add("pgcat_panics", &p);
        }
    }
    // ---- while shutting down: non-admin logins are refused, admin logins still work
    match build(false) {
        Err(e) => rep.inconclusive(&e),
        Ok(mut w) => {
            let addr = w.cell.addr();
            let holder = Conn::connect(&addr, &crate::wire::StartupOpts::new("u1", "db", "pw1").app("holder"));
            if let Ok(mut h) = holder {
                let _ = h.query(&format!("BEGIN {}", tag("holder", "holder.q1", "")), 5000);
                w.cell.pg().signal(libc::SIGINT);
                sleep_ms(150);
                for (i, (user, db, pw, admin)) in [("u1", "db", "pw1", false), ("u2", "db2", "pw2", false), ("ut", "dbt", "", false), ("uq", "dbq", "pwq", false), (ADMIN_USER, "pgcat", ADMIN_PASS, true)].iter().enumerate() {
                    for k in 0..(if thorough { 20 } else { 5 }) {
                        let a = Attempt { class: "during_shutdown".into(), good: *admin, user: user.to_string(), db: db.to_string(), resp: "correct".into(), password: pw.to_string(), pipeline_after_startup: false, pipeline_after_response: false, tls: false };
                        if let Ok(o) = attempt(&addr, &a, &None, 900_000 + i * 100 + k) {
                            rep.eval(1);
                            rep.count("attempts_during_shutdown", 1);
                            if o.auth_ok && !admin {
                                rep.violation(
                                    &format!("C09|non_admin_login_admitted_during_shutdown|user={}", user),
                                    &format!("after SIGINT (pooler draining) user={} db={} was still admitted (messages {})", user, db, o.msgs),
                                    json!({"messages": o.msgs}),
                                );
                            }
                            if !o.auth_ok && *admin {
                                rep.violation(
                                    "C09|admin_login_refused_during_shutdown",
                                    &format!("admin login refused during drain: {:?} {}", o.err, o.msgs),
                                    json!({"messages": o.msgs}),
                                );
                            }
                        }
                    }
                }
                let _ = h.query(&format!("COMMIT {}", tag("holder", "holder.q2", "")), 5000);
            } else {
                rep.inconclusive("holder could not connect");
            }
        }
    }
    // ---- password rotation: after a reload only the NEW secret is a valid credential
    for (with_server_password, trigger) in [(false, "reload"), (true, "reload"), (true, "sighup"), (false, "sighup")] {
        let mut cell = Cell::new();
        let m = cell.add_mock("db.s0.primary.0");
        let mk = |cell: &Cell, pw: &str| -> Cfg {
            let mut cfg = Cfg::new();
            let mut p = PoolCfg::single("db", "u1", pw, 2, vec![cell.server(m, "primary")]);
            if with_server_password {
                p.users[0].extra.push("server_username = \"u1\"".into());
                p.users[0].extra.push("server_password = \"backend-secret\"".into());
            }
            cfg.pools.push(p);
            cfg
        };
        let old = mk(&cell, "old-secret");
        if let Err(e) = cell.start_pgcat(&old, &StartOpts::default()) {
            rep.inconclusive(&format!("rotation leg start: {:?}", e));
            continue;
        }
        let addr = cell.addr();
        let port = cell.pg().port;
        let att = |pw: &str| Attempt { class: "rotation".into(), good: true, user: "u1".into(), db: "db".into(), resp: "correct".into(), password: pw.into(), pipeline_after_startup: false, pipeline_after_response: false, tls: false };
        let before = attempt(&addr, &att("old-secret"), &None, 950_000).map(|o| o.auth_ok).unwrap_or(false);
        if !before {
            rep.inconclusive("rotation leg: the original password was not admitted");
            continue;
        }
        let new_toml = mk(&cell, "new-secret").to_toml(port);
        cell.pg().rewrite_config(&new_toml);
        let ev0 = cell.pg().events().iter().filter(|e| e.1 == "reload.end").count();
        if trigger == "reload" {
            if let Ok(mut a) = cell.pg().admin() {
                let _ = a.query("RELOAD", 10_000);
            }
        } else {
            cell.pg().signal(libc::SIGHUP);
        }
        let deadline = crate::util::now_ns() + 5_000_000_000;
        while cell.pg().events().iter().filter(|e| e.1 == "reload.end").count() <= ev0 && crate::util::now_ns() < deadline {
            sleep_ms(5);
        }
        sleep_ms(20);
        rep.eval(2);
        rep.count("password_rotations_checked", 1);
        let old_ok = attempt(&addr, &att("old-secret"), &None, 950_001).map(|o| o.auth_ok).unwrap_or(false);
        let new_ok = attempt(&addr, &att("new-secret"), &None, 950_002).map(|o| o.auth_ok).unwrap_or(false);
        if old_ok {
            rep.violation(
                &format!("C09|revoked_password_still_admitted_after_reload|server_password={}|trigger={}", with_server_password, trigger),
                &format!("the user's password was changed in the config and the config reloaded ({}); the OLD password still got AuthenticationOk (new password admitted: {}; user has server_password: {})", trigger, new_ok, with_server_password),
                json!({"with_server_password": with_server_password, "trigger": trigger}),
            );
        }
        if !new_ok {
            rep.violation(
                &format!("C09|new_password_refused_after_reload|server_password={}|trigger={}", with_server_password, trigger),
                &format!("after the reload ({}) the configured (new) password is refused", trigger),
                json!({"with_server_password": with_server_password, "trigger": trigger}),
            );
        }
    }
    // ---- a user / a whole pool deleted from the configuration: after the reload its (still
    // correct) old credentials are no longer a configured pair
    for (what, trigger) in [("user_removed", "reload"), ("pool_removed", "reload"), ("user_removed", "sighup"), ("pool_removed", "sighup")] {
        let mut cell = Cell::new();
        let m = cell.add_mock("db.s0.primary.0");
        let m2 = cell.add_mock("olddb.s0.primary.0");
        let mk = |cell: &Cell, full: bool| -> Cfg {
            let mut cfg = Cfg::new();
            let mut p = PoolCfg::single("db", "u1", "pw1", 2, vec![cell.server(m, "primary")]);
            if full || what != "user_removed" {
                let mut u2 = crate::pgcat::UserCfg::new("u2", "pw2", 2);
                u2.key = "1".into();
                p.users.push(u2);
            }
            cfg.pools.push(p);
            if full || what != "pool_removed" {
                cfg.pools.push(PoolCfg::single("olddb", "u3", "pw3", 2, vec![cell.server(m2, "primary")]));
            }
            cfg
        };
        let old = mk(&cell, true);
        if let Err(e) = cell.start_pgcat(&old, &StartOpts::default()) {
            rep.inconclusive(&format!("removal leg start: {:?}", e));
            continue;
        }
        let addr = cell.addr();
        let port = cell.pg().port;
        let (ru, rdb, rpw) = if what == "user_removed" { ("u2", "db", "pw2") } else { ("u3", "olddb", "pw3") };
        let att = |u: &str, d: &str, pw: &str| Attempt { class: format!("after_{}", what), good: true, user: u.into(), db: d.into(), resp: "correct".into(), password: pw.into(), pipeline_after_startup: false, pipeline_after_response: false, tls: false };
        if !attempt(&addr, &att(ru, rdb, rpw), &None, 960_000).map(|o| o.auth_ok).unwrap_or(false) {
            rep.inconclusive("removal leg: the pair was not admitted before the reload");
            continue;
        }
        let new_toml = mk(&cell, false).to_toml(port);
        cell.pg().rewrite_config(&new_toml);
        let ev0 = cell.pg().events().iter().filter(|e| e.1 == "reload.end").count();
        if trigger == "reload" {
            if let Ok(mut a) = cell.pg().admin() {
                let _ = a.query("RELOAD", 10_000);
            }
        } else {
            cell.pg().signal(libc::SIGHUP);
        }
        let deadline = crate::util::now_ns() + 5_000_000_000;
        while cell.pg().events().iter().filter(|e| e.1 == "reload.end").count() <= ev0 && crate::util::now_ns() < deadline {
            sleep_ms(5);
        }
        sleep_ms(20);
        rep.eval(2);
        rep.count("removed_pairs_checked_after_reload", 1);
        let still = attempt(&addr, &att(ru, rdb, rpw), &None, 960_001).map(|o| o.auth_ok).unwrap_or(false);
        let kept = attempt(&addr, &att("u1", "db", "pw1"), &None, 960_002).map(|o| o.auth_ok).unwrap_or(false);
        if still {
            rep.violation(
                &format!("C09|removed_pair_still_admitted_after_reload|what={}|trigger={}", what, trigger),
                &format!("{}@{} was deleted from the configuration and the configuration reloaded ({}); a login with its old password still got AuthenticationOk", ru, rdb, trigger),
                json!({"what": what, "trigger": trigger}),
            );
        }
        if !kept {
            rep.violation(&format!("C09|valid_credentials_refused|user=u1|db=db|after_{}", what), "the pair that stayed in the configuration is refused after the reload", json!({"what": what, "trigger": trigger}));
        }
    }
    // ---- auth_query pools whose hash could not be fetched when the pool was created (role not
    // yet on the server / server down): the login that makes the pooler fetch it is judged like
    // any other, for every response class
    let late_classes = ["wrong_password", "empty", "cleartext_password", "first_pass_hash_only", "hash_for_other_user", "only_nul", "correct"];
    let late_jobs: Vec<(&str, &str)> = late_classes.iter().flat_map(|c| [(*c, "role_absent_at_start"), (*c, "server_down_at_start")]).collect();
    run_parallel(late_jobs.len(), workers().min(8), |i| {
        let (class, why) = late_jobs[i];
        let mut cell = Cell::new();
        let m = cell.add_mock("dbq.s0.primary.0");
        let mut cfg = Cfg::new();
        let mut pq = PoolCfg::single("dbq", "uq", "x", 2, vec![cell.server(m, "primary")]);
        pq.users[0].password = None;
        pq.set("auth_query", &format!("\"{}\"", AQ));
        pq.set("auth_query_user", "\"aq\"");
        pq.set("auth_query_password", "\"aqpw\"");
        cfg.pools.push(pq);
        cell.mocks[m].ctl.pooler_queries.lock().unwrap().push(AQ.replace("$1", "uq"));
        if why == "server_down_at_start" {
            cell.mocks[m].ctl.listen.store(crate::mock::LISTEN_DOWN, std::sync::atomic::Ordering::SeqCst); sleep_ms(30);
        }
        if let Err(e) = cell.start_pgcat(&cfg, &StartOpts::default()) {
            rep.inconclusive(&format!("late-hash leg ({}) start: {:?}", why, e));
            return;
        }
        // now the role exists / the server is up
        cell.mocks[m].ctl.shadow.lock().unwrap().insert("uq".into(), format!("md5{}", md5_hex(b"pwquq")));
        cell.mocks[m].ctl.listen.store(crate::mock::LISTEN_UP, std::sync::atomic::Ordering::SeqCst);
        sleep_ms(30);
        let addr = cell.addr();
        let att = |resp: &str, pw: &str| Attempt { class: format!("first_login_fetches_hash:{}", resp), good: resp == "correct", user: "uq".into(), db: "dbq".into(), resp: resp.into(), password: pw.into(), pipeline_after_startup: false, pipeline_after_response: resp != "correct", tls: false };
        let first = att(class, if class == "correct" { "pwq" } else { "wrongq" });
        match attempt(&addr, &first, &None, 970_000 + i) {
            Err(e) => rep.inconclusive(&format!("late-hash leg: {}", e)),
            Ok(o) => {
                rep.eval(1);
                rep.count("first_logins_on_pools_without_a_hash", 1);
                rep.distinct_str(&format!("late_hash|{}|{}", class, why));
                if o.auth_ok && class != "correct" {
                    rep.violation(
                        &format!("C09|admitted_without_valid_credentials|class=first_login_fetches_hash:{}|user=uq|db=dbq|tls=false", class),
                        &format!("auth_query pool whose hash was unavailable at startup ({}): the first login, response class {}, got AuthenticationOk (messages {})", why, class, o.msgs),
                        json!({"why": why, "class": class, "messages": o.msgs}),
                    );
                }
                if !o.auth_ok && class == "correct" {
                    rep.violation(
                        "C09|valid_credentials_refused|user=uq|db=dbq|first_login_fetches_hash",
                        &format!("auth_query pool whose hash was unavailable at startup ({}): the correct password is refused once the role exists: {:?} {}", why, o.err, o.msgs),
                        json!({"why": why, "messages": o.msgs}),
                    );
                }
            }
        }
        // afterwards: wrong refused, right admitted
        if let Ok(o) = attempt(&addr, &att("wrong_password", "wrongq"), &None, 971_000 + i) {
            if o.auth_ok {
                rep.violation("C09|admitted_without_valid_credentials|class=after_first_login_fetched_hash:wrong_password|user=uq|db=dbq|tls=false", &format!("wrong password admitted after the hash had been fetched ({}): {}", why, o.msgs), json!({"why": why}));
            }
        }
        if let Ok(o) = attempt(&addr, &att("correct", "pwq"), &None, 972_000 + i) {
            if !o.auth_ok {
                rep.violation("C09|valid_credentials_refused|user=uq|db=dbq|after_first_login_fetched_hash", &format!("correct password refused after the hash had been fetched ({}): {:?} {}", why, o.err, o.msgs), json!({"why": why}));
            }
        }
        sleep_ms(30);
        for e in cell.log.snapshot() {
            if let Ev::MockMsg { qid: Some(q), client, bytes, .. } = &e.ev {
                if client.as_deref() == Some("evil") && q.starts_with("evil.bad.") {
                    rep.violation("C09|bytes_of_unauthenticated_client_reached_server|kind=first_login_fetches_hash", &format!("a query pipelined behind a wrong password reached the server ({}): {}", why, printable(bytes, 120)), json!({"why": why, "class": class}));
                }
            }
        }
    });
    let ns = salts.lock().unwrap().len() as u64;
    rep.count("distinct_salts", ns);
    if rep.get("salts_seen") > 50 && ns < rep.get("salts_seen") / 2 {
        rep.violation(
            "C09|salts_not_fresh",
            &format!("only {} distinct salts in {} challenges", ns, rep.get("salts_seen")),
            json!({}),
        );
    }
    rep.finish(&[("attempts_bad", 300), ("auth_ok_good", 5)])
}
