//! C04 — server connections bounded by pool_size, never leaked; waiters are served.

use super::common::*;
use super::txw::{self, TxwParams};
use crate::cell::{run_parallel, workers, Cell};
use crate::evlog::Ev;
use crate::mock::*;
use crate::pgcat::{admin_rows, StartOpts};
use crate::report::Report;
use crate::sql::tag;
use crate::util::{now_ns, sleep_ms, Rng};
use crate::wire::{summarize, Conn, StartupOpts};
use crate::wl::{GenOpts, Outcome};
use serde_json::json;
use std::sync::atomic::{AtomicBool, Ordering};
use std::sync::Arc;

fn max_overlap(iv: &[(u64, u64)]) -> usize {
    let mut pts: Vec<(u64, i32)> = vec![];
    for (a, b) in iv {
        pts.push((*a, 1));
        pts.push((*b, -1));
    }
    // ends before starts at equal times (touching intervals do not overlap)
    pts.sort_by(|x, y| x.0.cmp(&y.0).then(x.1.cmp(&y.1)));
    let mut cur = 0i32;
    let mut best = 0i32;
    for (_, d) in pts {
        cur += d;
        best = best.max(cur);
    }
    best as usize
}

/// pool_size clients open a transaction at the same time; all must be served.
pub fn capacity_probe(cell: &Cell, pool_size: u32, mode: &str, bound_ms: u64) -> Result<(), String> {
    let addr = cell.addr();
    let mut hs = vec![];
    let barrier = Arc::new(std::sync::Barrier::new(pool_size as usize));
    let release = Arc::new(AtomicBool::new(false));
    let judged = Arc::new(std::sync::atomic::AtomicUsize::new(0));
    for i in 0..pool_size {
        let judged = judged.clone();
        let addr = addr.clone();
        let barrier = barrier.clone();
        let release = release.clone();
        let mode = mode.to_string();
        hs.push(std::thread::spawn(move || -> Result<u64, String> {
            let cid = format!("probe{}", i);
            let mut c = Conn::connect(&addr, &StartupOpts::new(USER, "db", PASS).app(&cid))
                .map_err(|e| format!("probe connect: {}", e))?;
            barrier.wait();
            let t0 = now_ns();
            let q = if mode == "session" {
                format!("SELECT 1 {}", tag(&cid, &format!("{}.q1", cid), ""))
            } else {
                format!("BEGIN {}", tag(&cid, &format!("{}.q1", cid), ""))
            };
            let r = c.query(&q, bound_ms);
            let dt = (now_ns() - t0) / 1_000_000;
            let res = match r {
                Ok(m) => {
                    if crate::wire::first_error(&m).is_some() {
                        Err(format!("probe client {} got {}", i, summarize(&m)))
                    } else {
                        Ok(dt)
                    }
                }
                Err((m, e)) => Err(format!("probe client {}: {:?} after {}", i, e, summarize(&m))),
            };
            // hold the server until every probe client has its verdict
            judged.fetch_add(1, Ordering::SeqCst);
            while !release.load(Ordering::SeqCst) {
                sleep_ms(2);
            }
            if mode != "session" {
                let _ = c.query(&format!("COMMIT {}", tag(&cid, &format!("{}.q2", cid), "")), 5000);
            }
            c.terminate();
            res
        }));
    }
    let t_end = now_ns() + (bound_ms + 15_000) * 1_000_000;
    while judged.load(Ordering::SeqCst) < pool_size as usize && now_ns() < t_end {
        sleep_ms(1);
    }
    release.store(true, Ordering::SeqCst);
    let mut errs = vec![];
    for h in hs {
        match h.join() {
            Ok(Ok(_)) => {}
            Ok(Err(e)) => errs.push(e),
            Err(_) => errs.push("probe thread panicked".into()),
        }
    }
    if errs.is_empty() {
        Ok(())
    } else {
        Err(errs.join("; "))
    }
}

fn scenario(p: &TxwParams, faults: bool, rep: &Report) -> Result<(), String> {
    let (mut cell, cfg) = txw::build(p);
    let mut so = StartOpts::default();
    if p.jitter_us > 0 {
        so.jitter = Some(format!("{}:{}", p.seed, p.jitter_us));
    }
    cell.start_pgcat(&cfg, &so)
        .map_err(|e| format!("start: {:?}", e))?;
    // fault thread
    let stop = Arc::new(AtomicBool::new(false));
    let ctl = cell.mocks[0].ctl.clone();
    let stop2 = stop.clone();
    let seed = p.seed;
    let fault_thread = std::thread::spawn(move || {
        let mut rng = Rng::new(seed ^ 0xFA);
        let mut injected = (0u64, 0u64);
        if !faults {
            return injected;
        }
        while !stop2.load(Ordering::SeqCst) {
            sleep_ms(rng.range(15, 60));
            match rng.below(3) {
                0 => {
                    ctl.mid_after.store(rng.range(1, 60), Ordering::SeqCst);
                    ctl.mid_mode
                        .store(if rng.chance(1, 2) { MID_RST } else { MID_FIN }, Ordering::SeqCst);
                    ctl.mid_once.store(true, Ordering::SeqCst);
                    injected.0 += 1;
                }
                1 => {
                    ctl.listen.store(LISTEN_DOWN, Ordering::SeqCst);
                    sleep_ms(rng.range(10, 80));
                    ctl.listen.store(LISTEN_UP, Ordering::SeqCst);
                    injected.1 += 1;
                }
                _ => {}
            }
        }
        ctl.heal();
        injected
    });
    let traces = txw::run_clients(&cell, p);
    stop.store(true, Ordering::SeqCst);
    let injected = fault_thread.join().unwrap_or((0, 0));
    cell.mocks[0].ctl.heal();
    rep.count("faults_close_mid_reply", injected.0);
    rep.count("faults_listener_down", injected.1);

    // ---- (a) concurrency bound from the mock's busy intervals
    sleep_ms(150);
    let busy = cell.mocks[0].busy.lock().unwrap().clone();
    let iv: Vec<(u64, u64)> = busy.iter().map(|b| (b.t0, b.t1)).collect();
    let mx = max_overlap(&iv);
    rep.max("max_concurrent_working_sessions_seen", mx as u64);
    rep.count("busy_intervals", iv.len() as u64);
    if mx > p.pool_size as usize {
        rep.violation(
            &format!("C04|more_than_pool_size_sessions_working|mode={}", p.mode),
            &format!(
                "{} server sessions carried client transactions at the same instant with pool_size={}; {}",
                mx, p.pool_size, p.describe()
            ),
            json!({"params": p.describe(), "seed": p.seed}),
        );
    }
    // open-session overlap (informational + replacement count)
    let mut opened = 0u64;
    let mut open_iv: std::collections::HashMap<u64, (u64, u64)> = Default::default();
    for e in cell.log.snapshot() {
        match e.ev {
            Ev::MockOpen { sid, .. } => {
                opened += 1;
                open_iv.insert(sid, (e.t, u64::MAX));
            }
            Ev::MockClose { sid, .. } => {
                if let Some(x) = open_iv.get_mut(&sid) {
                    x.1 = e.t;
                }
            }
            _ => {}
        }
    }
    rep.count("server_sessions_opened", opened);
    rep.count("replacements", opened.saturating_sub(p.pool_size as u64));

    // waits / pool errors / usability after a pool error
    for tr in &traces {
        let mut prev_pool_err = false;
        for txn in &tr.txns {
            if let Some(first) = txn.steps.first() {
                if prev_pool_err {
                    rep.count("statements_after_pool_error", 1);
                    // with injected server faults an EOF can be the (legitimate) consequence of
                    // a server connection breaking under this very statement
                    if !faults && matches!(first.outcome, Outcome::Eof | Outcome::Io(_)) {
                        rep.violation(
                            &format!("C04|client_unusable_after_pool_error|mode={}", p.mode),
                            &format!("client {} was disconnected after a pool checkout error instead of staying usable; {}", tr.id, p.describe()),
                            json!({"params": p.describe(), "seed": p.seed}),
                        );
                    }
                }
                prev_pool_err = false;
                for st in &txn.steps {
                    if (st.t_done - st.t_send) > 20_000_000 {
                        rep.count("waits_over_20ms", 1);
                    }
                    if let Outcome::PoolerError(m) = &st.outcome {
                        if m.contains("could not get connection from the pool") {
                            rep.count("checkout_timeouts_observed", 1);
                            prev_pool_err = true;
                        }
                    }
                    if st.outcome == Outcome::Timeout {
                        rep.violation(
                            &format!("C04|waiter_never_served_nor_refused|mode={}", p.mode),
                            &format!("client {} statement {} got neither a reply nor a pool error within the watchdog; {}", tr.id, st.qid, p.describe()),
                            json!({"params": p.describe(), "seed": p.seed, "pgcat_log_tail": cell.pg().log_tail(10)}),
                        );
                    }
                }
            }
        }
    }

    // a statement answered with the pool error was refused: it must not be executed later either
    // (e.g. flushed to a server together with the client's next batch)
    {
        let mut refused: std::collections::HashSet<String> = Default::default();
        for tr in &traces {
            for txn in &tr.txns {
                for st in &txn.steps {
                    if let Outcome::PoolerError(m) = &st.outcome {
                        if m.contains("could not get connection from the pool") {
                            refused.insert(st.qid.clone());
                        }
                    }
                }
            }
        }
        rep.count("statements_refused_with_pool_error", refused.len() as u64);
        let mut reported = false;
        for e in cell.log.snapshot() {
            if let Ev::MockMsg { qid: Some(q), b, sid, .. } = &e.ev {
                if refused.contains(q) && !reported {
                    reported = true;
                    rep.violation(
                        &format!("C04|statement_refused_with_pool_error_reached_a_server_later|mode={}", p.mode),
                        &format!("statement {} was answered \"could not get connection from the pool\" and later arrived at {} sid={}; {}", q, cell.mocks[*b].label, sid, p.describe()),
                        json!({"params": p.describe(), "seed": p.seed}),
                    );
                }
            }
        }
    }

    // ---- (a2) clients that end a transaction in an unusual way and then stay connected, idle:
    // their server connection must be back in the pool (nothing marked in use, full capacity)
    if p.mode == "transaction" {
        // (in session mode an idle client legitimately keeps its server)
        let mut rng = Rng::new(p.seed ^ 0x1D1E);
        let endings = ["simple_ok", "simple_error_pre", "simple_error_mid", "copy_out_error_mid", "copy_out_ok", "copy_in_fail", "copy_in_ok", "batch_parse_error", "block_commit", "block_error_rollback", "block_copy_in_ok_commit", "block_copy_out_ok_commit", "lone_sync", "close_statement_then_sync", "same_named_parse_twice"];
        let k = rng.range(1, 4) as usize;
        let mut idlers = vec![];
        for i in 0..k {
            let id = format!("idler{}", i);
            let mut c = match Conn::connect(&cell.addr(), &StartupOpts::new(USER, "db", PASS).app(&id)) {
                Ok(c) => c,
                Err(e) => return Err(format!("idler connect: {}", e)),
            };
            let ending = *rng.pick(&endings);
            rep.set_add("idle_after_ending", ending);
            let q = |n: u32| format!("{}.q{}", id, n);
            let run = |c: &mut Conn, sql: String| c.query(&sql, 10_000).map(|_| ()).map_err(|(m, e)| format!("{:?} {}", e, summarize(&m)));
            let r: Result<(), String> = match ending {
                "simple_ok" => run(&mut c, format!("SELECT 1 {}", tag(&id, &q(1), "rows=2"))),
                "simple_error_pre" => run(&mut c, format!("SELECT 1 {}", tag(&id, &q(1), "err=pre"))),
                "simple_error_mid" => run(&mut c, format!("SELECT 1 {}", tag(&id, &q(1), "rows=6 err=mid"))),
                "copy_out_error_mid" => run(&mut c, format!("COPY t TO STDOUT {}", tag(&id, &q(1), "rows=6 err=mid"))),
                "copy_out_ok" => run(&mut c, format!("COPY t TO STDOUT {}", tag(&id, &q(1), "rows=3"))),
                "copy_in_fail" | "copy_in_ok" => {
                    let st = crate::wl::Step { qid: q(1), kind: crate::wl::StepKind::CopyIn { chunks: vec![b"1\n".to_vec()], fail: ending == "copy_in_fail" }, bytes: crate::proto::query(&format!("COPY t FROM STDIN {}", tag(&id, &q(1), ""))), what: "copy_in".into(), readies: 1, cuts: vec![] };
                    let r = crate::wl::run_step(&mut c, &st, 10_000);
                    if matches!(r.outcome, Outcome::Ok) { Ok(()) } else { Err(format!("{:?}", r.outcome)) }
                }
                "batch_parse_error" => {
                    let mut b = crate::proto::parse("", &format!("SELECT 1 {}", tag(&id, &q(1), "perr")), &[]);
                    b.extend(crate::proto::bind("", "", &[], &[], &[]));
                    b.extend(crate::proto::execute("", 0));
                    b.extend(crate::proto::sync());
                    c.send(&b).map_err(|e| e.to_string()).and_then(|_| c.read_until_ready(10_000).map(|_| ()).map_err(|(m, e)| format!("{:?} {}", e, summarize(&m))))
                }
                // batches the pooler may answer by itself (nothing, or nothing new, for the server)
                "lone_sync" => c.send(&crate::proto::sync()).map_err(|e| e.to_string()).and_then(|_| c.read_until_ready(10_000).map(|_| ()).map_err(|(m, e)| format!("{:?} {}", e, summarize(&m)))),
                "close_statement_then_sync" => {
                    let mut b = crate::proto::close(b'S', "never_prepared");
                    b.extend(crate::proto::sync());
                    c.send(&b).map_err(|e| e.to_string()).and_then(|_| c.read_until_ready(10_000).map(|_| ()).map_err(|(m, e)| format!("{:?} {}", e, summarize(&m))))
                }
                "same_named_parse_twice" => {
                    let mut r = Ok(());
                    for _ in 0..2 {
                        let mut b = crate::proto::parse("idler_stmt", "SELECT 1 /*v q=idler.shared rows=1 */", &[]);
                        b.extend(crate::proto::sync());
                        r = c.send(&b).map_err(|e| e.to_string()).and_then(|_| c.read_until_ready(10_000).map(|_| ()).map_err(|(m, e)| format!("{:?} {}", e, summarize(&m))));
                        if r.is_err() {
                            break;
                        }
                    }
                    r
                }
                "block_commit" => run(&mut c, format!("BEGIN {}", tag(&id, &q(1), ""))).and_then(|_| run(&mut c, format!("COMMIT {}", tag(&id, &q(2), "")))),
                // a successful COPY inside an explicit transaction block, committed
                "block_copy_in_ok_commit" => run(&mut c, format!("BEGIN {}", tag(&id, &q(1), "")))
                    .and_then(|_| {
                        let st = crate::wl::Step { qid: q(2), kind: crate::wl::StepKind::CopyIn { chunks: vec![b"1\n".to_vec(), b"2\n".to_vec()], fail: false }, bytes: crate::proto::query(&format!("COPY t FROM STDIN {}", tag(&id, &q(2), ""))), what: "copy_in".into(), readies: 1, cuts: vec![] };
                        let r = crate::wl::run_step(&mut c, &st, 10_000);
                        if matches!(r.outcome, Outcome::Ok) { Ok(()) } else { Err(format!("{:?}", r.outcome)) }
                    })
                    .and_then(|_| run(&mut c, format!("COMMIT {}", tag(&id, &q(3), "")))),
                "block_copy_out_ok_commit" => run(&mut c, format!("BEGIN {}", tag(&id, &q(1), "")))
                    .and_then(|_| run(&mut c, format!("COPY t TO STDOUT {}", tag(&id, &q(2), "rows=3"))))
                    .and_then(|_| run(&mut c, format!("COMMIT {}", tag(&id, &q(3), "")))),
                _ => run(&mut c, format!("BEGIN {}", tag(&id, &q(1), "")))
                    .and_then(|_| run(&mut c, format!("SELECT 1 {}", tag(&id, &q(2), "err=pre"))))
                    .and_then(|_| run(&mut c, format!("ROLLBACK {}", tag(&id, &q(3), "")))),
            };
            if let Err(e) = r {
                return Err(format!("idler {} ({}): {}", id, ending, e));
            }
            idlers.push((c, ending));
        }
        sleep_ms(120);
        let mut endings_now: Vec<&str> = idlers.iter().map(|x| x.1).collect();
        endings_now.sort();
        endings_now.dedup();
        let mut adm = cell.pg().admin().map_err(|e| format!("admin: {}", e))?;
        for r in admin_rows(&mut adm, "SHOW POOLS")? {
            if r.get("database").map(|s| s.as_str()) == Some("db") {
                let sv_active: i64 = r.get("sv_active").and_then(|v| v.parse().ok()).unwrap_or(-1);
                if sv_active != 0 {
                    rep.violation(
                        &format!("C04|server_marked_in_use_while_all_clients_idle|mode={}|after={}", p.mode, endings_now.join("+")),
                        &format!("SHOW POOLS sv_active={} while every connected client is idle between transactions (their last transactions ended by: {:?}); {}", sv_active, endings_now, p.describe()),
                        json!({"row": r, "params": p.describe(), "seed": p.seed}),
                    );
                }
            }
        }
        if p.mode == "transaction" {
            match capacity_probe(&cell, p.pool_size, &p.mode, p.connect_timeout_ms * 10 + 3000) {
                Ok(()) => rep.count("capacity_probes_with_idle_clients_passed", 1),
                Err(e) => rep.violation(
                    &format!("C04|capacity_held_by_idle_client|after={}", endings_now.join("+")),
                    &format!("with clients connected but idle between transactions (last transactions ended by {:?}) pool_size simultaneous transactions were not all served: {}; {}", endings_now, e, p.describe()),
                    json!({"params": p.describe(), "seed": p.seed, "pgcat_log_tail": cell.pg().log_tail(10)}),
                ),
            }
        }
        for (c, _) in idlers {
            c.terminate();
        }
    }

    // ---- (b) quiescence
    sleep_ms(250);
    let mut adm = cell.pg().admin().map_err(|e| format!("admin: {}", e))?;
    let pools = admin_rows(&mut adm, "SHOW POOLS")?;
    for r in &pools {
        if r.get("database").map(|s| s.as_str()) == Some("db") {
            let sv_active: i64 = r.get("sv_active").and_then(|v| v.parse().ok()).unwrap_or(-1);
            if sv_active != 0 {
                rep.violation(
                    &format!("C04|server_left_marked_in_use_after_quiescence|mode={}", p.mode),
                    &format!("SHOW POOLS reports sv_active={} after all clients left; {}", sv_active, p.describe()),
                    json!({"row": r, "params": p.describe(), "seed": p.seed}),
                );
            }
        }
    }
    let dbs = admin_rows(&mut adm, "SHOW DATABASES")?;
    for r in &dbs {
        let cc: i64 = r.get("current_connections").and_then(|v| v.parse().ok()).unwrap_or(-1);
        if cc > p.pool_size as i64 {
            rep.violation(
                &format!("C04|more_connections_than_pool_size_at_quiescence|mode={}", p.mode),
                &format!("SHOW DATABASES current_connections={} > pool_size={}; {}", cc, p.pool_size, p.describe()),
                json!({"row": r, "params": p.describe()}),
            );
        }
    }
    let live = cell.mocks[0].ctl.live_sessions();
    if live > p.pool_size as usize {
        rep.violation(
            &format!("C04|more_open_server_sessions_than_pool_size_at_quiescence|mode={}", p.mode),
            &format!("{} server sessions open at the backend at quiescence with pool_size={}; {}", live, p.pool_size, p.describe()),
            json!({"params": p.describe(), "seed": p.seed}),
        );
    }
    rep.count("quiescent_points", 1);

    // ---- (c) capacity probe
    match capacity_probe(&cell, p.pool_size, &p.mode, p.connect_timeout_ms * 10 + 3000) {
        Ok(()) => rep.count("capacity_probes_passed", 1),
        Err(e) => rep.violation(
            &format!("C04|capacity_not_restored|mode={}", p.mode),
            &format!("after the history, {} simultaneous transactions (pool_size) were not all served: {}; {}", p.pool_size, e, p.describe()),
            json!({"params": p.describe(), "seed": p.seed, "pgcat_log_tail": cell.pg().log_tail(15)}),
        ),
    }
    rep.distinct(crate::util::fnv(format!("{}:{}:{}:{}", p.mode, p.pool_size, p.clients, mx).as_bytes()));
    Ok(())
}

/// The connect timeout that bounds a waiter's wait can be given per user, per pool or in [general]
/// (in that order of precedence): a client beyond capacity gets its pool error after the timeout that
/// applies to its pool, stays usable, and is served once capacity is back.
fn timeout_levels(seed: u64, rep: &Report) -> Result<(), String> {
    let mut rng = Rng::new(seed ^ 0x71AE);
    let level = *rng.pick(&["pool", "user", "general"]);
    let (mut cell, mut cfg) = simple_cell(&["primary"], 1, "transaction");
    // the levels that must NOT apply carry values far away from the one that must
    cfg.gset("connect_timeout", if level == "general" { "300" } else { "9000" });
    cfg.gset("idle_timeout", "40000");
    if level == "pool" {
        cfg.pools[0].set("connect_timeout", "300");
        cfg.pools[0].set("idle_timeout", "30000");
    }
    if level == "user" {
        cfg.pools[0].set("connect_timeout", "9000");
        cfg.pools[0].users[0].extra.push("connect_timeout = 300".into());
    }
    cell.start_pgcat(&cfg, &StartOpts::default()).map_err(|e| format!("start: {:?}", e))?;
    let mut holder = Conn::connect(&cell.addr(), &StartupOpts::new(USER, "db", PASS).app("holder")).map_err(|e| e.to_string())?;
    holder.query(&format!("BEGIN {}", tag("holder", "tl.h1", "")), 5000).map_err(|(m, e)| format!("holder BEGIN: {:?} {}", e, summarize(&m)))?;
    let mut w = Conn::connect(&cell.addr(), &StartupOpts::new(USER, "db", PASS).app("waiter")).map_err(|e| e.to_string())?;
    let t0 = now_ns();
    let r = w.query(&format!("SELECT 1 {}", tag("waiter", "tl.w1", "rows=1")), 7000);
    let waited_ms = (now_ns() - t0) / 1_000_000;
    rep.count("timeout_level_scenarios", 1);
    rep.set_add("connect_timeout_given_at", level);
    let refused = match &r {
        Ok(m) => summarize(m).contains("could not get connection from the pool"),
        Err(_) => false,
    };
    if !refused || waited_ms > 4500 {
        rep.violation(
            &format!("C04|waiter_not_refused_after_the_connect_timeout_of_its_pool|given_at={}", level),
            &format!("connect_timeout = 300 ms given at {} level (other levels: 9000 ms): a client beyond capacity waited {} ms and got {}", level, waited_ms, match &r { Ok(m) => summarize(m), Err((m, e)) => format!("{:?} after {}", e, summarize(m)) }),
            json!({"seed": seed, "level": level}),
        );
        return Ok(());
    }
    holder.query(&format!("COMMIT {}", tag("holder", "tl.h2", "")), 5000).map_err(|(m, e)| format!("holder COMMIT: {:?} {}", e, summarize(&m)))?;
    match w.query(&format!("SELECT 1 {}", tag("waiter", "tl.w2", "rows=1")), 7000) {
        Ok(m) if crate::wire::first_error(&m).is_none() => {}
        other => rep.violation(
            &format!("C04|client_unusable_after_pool_error|mode=transaction|given_at={}", level),
            &format!("after its pool error and the release of the only connection the waiter's next statement got {}", match &other { Ok(m) => summarize(m), Err((m, e)) => format!("{:?} after {}", e, summarize(m)) }),
            json!({"seed": seed}),
        ),
    }
    holder.terminate();
    w.terminate();
    Ok(())
}

pub fn run(tier: &str) -> i32 {
    let rep = Report::new(
        "C04",
        tier,
        "exploration",
        "scenario = pool_size 1-5, clients up to 10x (60x thorough) pool_size, both pool modes, generated transactions with sleeps, abrupt client exits, server closing mid-reply, listener refusing connections; oracles = sweep-line over the mock's per-session working intervals (bound), admin console + mock session count at quiescence (no leak), pool_size-simultaneous-transactions probe (capacity restored), client usable after pool error; distinct = (mode,pool_size,clients,max overlap)",
    );
    rep.assume("only sessions that carry client work are counted against pool_size (bb8 may briefly hold a closing and a replacement connection)");
    let thorough = rep.thorough();
    let n = if thorough { 2400 } else { 240 };
    let mut rng = Rng::new(rep.seed ^ 0xC04);
    let params: Vec<(TxwParams, bool)> = (0..n)
        .map(|i| {
            let pool_size = rng.range(1, 5) as u32;
            let mode = if i % 5 == 4 { "session" } else { "transaction" };
            let mult = if thorough { rng.range(1, 60) } else { rng.range(1, 10) };
            let mut clients = (pool_size as u64 * mult).min(150) as usize;
            if mode == "session" {
                clients = clients.min(12);
            }
            let mut gen = GenOpts::default();
            gen.sleep_max_ms = *rng.pick(&[0, 10, 60, 150]);
            (
                TxwParams {
                    seed: rng.next(),
                    mode: mode.into(),
                    pool_size,
                    clients,
                    txns_per_client: rng.range(2, 8) as usize,
                    worker_threads: *rng.pick(&[1, 4, 8]),
                    abort_pct: *rng.pick(&[0, 10, 25]),
                    think_max_ms: rng.range(0, 2),
                    connect_timeout_ms: *rng.pick(&[200, 350, 500]),
                    jitter_us: *rng.pick(&[0, 300]),
                    gen,
                    replicas: 0,
                    stagger_ms: 0,
                    hc_stall: false,
                    // a third of the scenarios with statement caching on and a cache smaller than
                    // the number of distinct named statements the clients prepare
                    cache: if i % 3 == 2 { 3 } else { 0 },
                    same_app: i % 4 == 1,
                    prewarm_rows: if i % 7 == 3 { 40 } else { 0 },
                },
                i % 3 == 1,
            )
        })
        .collect();
    run_parallel(n, workers(), |i| {
        rep.eval(1);
        if let Err(e) = scenario(&params[i].0, params[i].1, &rep) {
            rep.inconclusive(&e);
        }
        if i % 24 == 5 {
            if let Err(e) = timeout_levels(params[i].0.seed, &rep) {
                rep.inconclusive(&e);
            }
        }
    });
    rep.sample(json!({"scenario": params[0].0.describe(), "faults": params[0].1}));
    rep.sample(json!({"scenario": params[1].0.describe(), "faults": params[1].1}));
    rep.finish(&[
        ("waits_over_20ms", 100),
        ("quiescent_points", 20),
        ("capacity_probes_passed", 20),
    ])
}
