//! C15 — an accepted configuration is a servable configuration.

use super::common::*;
use crate::cell::{run_parallel, workers, Cell};
use crate::evlog::Ev;
use crate::pgcat::{admin_query, Pgcat, StartErr, StartOpts, ADMIN_PASS, ADMIN_USER};
use crate::report::Report;
use crate::sql::tag;
use crate::util::{sleep_ms, Rng};
use crate::wire::{first_error, row_idents, summarize, Conn, StartupOpts};
use serde_json::json;
use std::collections::BTreeSet;

#[derive(Clone, Debug)]
struct GServer {
    mock: usize,
    role: String,
}

#[derive(Clone, Debug)]
struct GShard {
    key: String,
    servers: Vec<GServer>,
    dup_server: bool,
}

#[derive(Clone, Debug)]
struct GUser {
    key: String,
    name: String,
    password: Option<String>,
}

#[derive(Clone, Debug)]
struct GPool {
    name: String,
    shards: Vec<GShard>,
    users: Vec<GUser>,
    default_shard: String,
    default_role: String,
    auth_query: bool,
    /// auth_query settings written incompletely: index of the one left out (0 query, 1 user, 2 password)
    aq_missing: Option<usize>,
    extra: Vec<String>,
}

#[derive(Clone, Debug)]
struct GCfg {
    pools: Vec<GPool>,
    /// why this config cannot be served (empty = servable)
    defects: BTreeSet<String>,
}

fn shard_key_sets(rng: &mut Rng) -> (Vec<String>, Option<&'static str>) {
    match rng.below(24) {
        0..=4 | 13..=23 => {
            let n = rng.range(1, 3);
            ((0..n).map(|i| i.to_string()).collect(), None)
        }
        // more shards than digits: numeric and textual order of the keys differ
        12 => {
            let n = rng.range(11, 14);
            ((0..n).map(|i| i.to_string()).collect(), None)
        }
        5 => (vec!["1".into(), "2".into()], Some("shard_ids_not_starting_at_0")),
        6 => (vec!["0".into(), "2".into()], Some("shard_ids_with_gap")),
        7 => (vec!["0".into(), "00".into()], Some("shard_ids_duplicate_after_parsing")),
        8 => (vec!["0".into(), "01".into()], None), // leading zero but numerically contiguous
        9 => (vec!["-1".into(), "0".into()], Some("shard_id_negative")),
        10 => (vec!["a".into()], Some("shard_id_non_numeric")),
        _ => (vec!["1".into()], Some("shard_ids_not_starting_at_0")),
    }
}

fn gen(rng: &mut Rng, cell: &mut Cell) -> GCfg {
    let mut defects = BTreeSet::new();
    let mut pools = vec![];
    let npools = rng.range(1, 2);
    for pi in 0..npools {
        let name = format!("p{}", pi);
        let (keys, kd) = shard_key_sets(rng);
        if let Some(d) = kd {
            defects.insert(d.to_string());
        }
        let mut shards = vec![];
        for k in &keys {
            let ns = if keys.len() > 3 { 1 } else { rng.range(1, 3) };
            let mut servers = vec![];
            let mut primaries = 0;
            for si in 0..ns {
                let role = match if si == 0 { rng.below(6) } else { 3 + rng.below(21) } {
                    0..=2 | 23 => "primary",
                    7 if rng.chance(1, 8) => "master",
                    _ => "replica",
                };
                if role == "primary" {
                    primaries += 1;
                }
                if role == "master" {
                    defects.insert("misspelt_role".into());
                }
                let m = cell.add_mock(&format!("{}.{}.{}.{}", name, k, role, si));
                servers.push(GServer { mock: m, role: role.into() });
            }
            if primaries > 1 {
                defects.insert("more_than_one_primary".into());
            }
            let dup = rng.chance(1, 30);
            if dup {
                defects.insert("duplicate_server".into());
            }
            shards.push(GShard { key: k.clone(), servers, dup_server: dup });
        }
        let auth_query = rng.chance(1, 6);
        // (an incomplete auth_query section configures no auth query: users still need passwords)
        let aq_missing = if !auth_query && rng.chance(1, 8) { Some(rng.below(3) as usize) } else { None };
        let nusers = rng.range(1, 2);
        let mut users = vec![];
        for ui in 0..nusers {
            let missing_pw = rng.chance(1, 20);
            if missing_pw && !auth_query {
                defects.insert("missing_credentials".into());
            }
            users.push(GUser { key: ui.to_string(), name: format!("u{}", ui), password: if missing_pw { None } else { Some(format!("pw{}", ui)) } });
        }
        let nshards = keys.len();
        let (default_shard, dsd): (String, Option<&str>) = match rng.below(16) {
            0..=2 | 8..=15 => ("shard_0".into(), None),
            3 => (format!("shard_{}", nshards.saturating_sub(1)), None),
            4 => (format!("shard_{}", nshards + rng.below(3) as usize), Some("invalid_default_shard")),
            5 => ("random".into(), None),
            6 => ("random_healthy".into(), None),
            _ => ("junk".into(), Some("invalid_default_shard")),
        };
        if let Some(d) = dsd {
            defects.insert(d.into());
        }
        let default_role = match rng.below(22) {
            // a valid role name in another letter case: accepting or rejecting it are both fine,
            // as long as an accepted file is served (no panic, role honoured)
            20 => {
                defects.insert("default_role_other_case".into());
                *rng.pick(&["Primary", "REPLICA", "Any", "pRiMaRy"])
            }
            21 => "any",
            0..=2 | 8..=19 => "any",
            3..=4 => "replica",
            5..=6 => "primary",
            _ => {
                defects.insert("invalid_default_role".into());
                "bogus"
            }
        };
        let mut extra = vec![];
        if rng.chance(1, 25) {
            extra.push("sharding_key_regex = '(unclosed'".to_string());
            defects.insert("invalid_regex".into());
        } else if rng.chance(1, 6) {
            extra.push("sharding_key_regex = '/\\* sharding_key: (\\d+) \\*/'".to_string());
        }
        if rng.chance(1, 25) {
            extra.push("query_parser_read_write_splitting = true".into());
            extra.push("query_parser_enabled = false".into());
            defects.insert("rw_split_without_parser".into());
        }
        if aq_missing.is_some() {
            defects.insert("auth_query_incomplete".into());
        }
        pools.push(GPool { name, shards, users, default_shard, default_role: default_role.into(), auth_query, aq_missing, extra });
    }
    GCfg { pools, defects }
}

fn to_toml(g: &GCfg, cell: &Cell, port: u16) -> String {
    let mut s = format!("[general]\nhost = \"127.0.0.1\"\nport = {}\nadmin_username = \"{}\"\nadmin_password = \"{}\"\nconnect_timeout = 4000\nhealthcheck_timeout = 4000\nshutdown_timeout = 1000\nvalidate_config = false\nworker_threads = 2\nban_time = 1\n", port, ADMIN_USER, ADMIN_PASS);
    for p in &g.pools {
        s.push_str(&format!("\n[pools.{}]\npool_mode = \"transaction\"\ndefault_role = \"{}\"\nprimary_reads_enabled = true\ndefault_shard = \"{}\"\n", p.name, p.default_role, p.default_shard));
        if !p.extra.iter().any(|e| e.starts_with("query_parser_enabled")) {
            s.push_str("query_parser_enabled = false\n");
        }
        for e in &p.extra {
            s.push_str(e);
            s.push('\n');
        }
        if p.auth_query {
            s.push_str("auth_query = \"SELECT usename, passwd FROM pg_shadow WHERE usename='$1'\"\nauth_query_user = \"aq\"\nauth_query_password = \"aqpw\"\n");
        }
        if let Some(k) = p.aq_missing {
            let lines = ["auth_query = \"SELECT usename, passwd FROM pg_shadow WHERE usename='$1'\"\n", "auth_query_user = \"aq\"\n", "auth_query_password = \"aqpw\"\n"];
            for (i, l) in lines.iter().enumerate() {
                if i != k {
                    s.push_str(l);
                }
            }
        }
        for u in &p.users {
            s.push_str(&format!("\n[pools.{}.users.{}]\nusername = \"{}\"\npool_size = 2\n", p.name, u.key, u.name));
            if let Some(pw) = &u.password {
                s.push_str(&format!("password = \"{}\"\n", pw));
            }
        }
        for sh in &p.shards {
            s.push_str(&format!("\n[pools.{}.shards.{}]\ndatabase = \"d{}\"\nservers = [", p.name, sh.key, sh.key.replace('-', "m")));
            let mut list: Vec<String> = sh.servers.iter().map(|sv| format!("[\"{}\", {}, \"{}\"]", cell.mocks[sv.mock].host(), cell.mocks[sv.mock].port, sv.role)).collect();
            if sh.dup_server {
                list.push(list[0].clone());
            }
            s.push_str(&list.join(", "));
            s.push_str("]\n");
        }
    }
    s
}

fn scenario(seed: u64, rep: &Report) -> Result<(), String> {
    let mut rng = Rng::new(seed);
    let mut cell = Cell::new();
    let g = gen(&mut rng, &mut cell);
    for p in &g.pools {
        for sh in &p.shards {
            for sv in &sh.servers {
                for u in &p.users {
                    let pw = u.password.clone().unwrap_or(format!("pw{}", u.key));
                    cell.mocks[sv.mock].ctl.shadow.lock().unwrap().insert(u.name.clone(), format!("md5{}", crate::util::md5_hex(format!("{}{}", pw, u.name).as_bytes())));
                }
            }
        }
    }
    let class: Vec<String> = g.defects.iter().cloned().collect();
    let class_name = if class.is_empty() { "servable".to_string() } else { class.join("+") };
    rep.set_add("config_classes", &class_name);
    // start
    let mut started: Option<Pgcat> = None;
    let mut rejected_log = String::new();
    for _ in 0..4 {
        // pick a port by starting with a throw-away Cfg is not possible here: use the low-level API
        let port = crate::pgcat::free_port();
        let toml = to_toml(&g, &cell, port);
        match Pgcat::start_raw(&toml, port, &StartOpts::default()) {
            Ok(p) => {
                started = Some(p);
                break;
            }
            Err(StartErr::Exited(code, log)) => {
                if log.contains("Listener socket error") {
                    continue;
                }
                rejected_log = format!("exit {:?}: {}", code, log.lines().filter(|l| l.contains("ERROR") || l.contains("panicked")).take(3).collect::<Vec<_>>().join(" | "));
                if log.contains("panicked at") {
                    rep.violation(
                        &format!("C15|pooler_panicked_at_startup|class={}", class_name),
                        &format!("pgcat panicked while starting with a {} configuration: {}", class_name, rejected_log),
                        json!({"seed": seed, "toml": toml}),
                    );
                }
                break;
            }
            Err(e) => return Err(format!("start: {:?}", e)),
        }
    }
    rep.count("configs", 1);
    let listed = ["shard_ids_not_starting_at_0", "shard_ids_with_gap", "shard_ids_duplicate_after_parsing", "shard_id_negative", "shard_id_non_numeric", "invalid_default_shard", "invalid_default_role", "duplicate_server", "more_than_one_primary", "missing_credentials"];
    let mut pg = match started {
        None => {
            rep.count("configs_rejected", 1);
            if class.is_empty() {
                rep.count("servable_configs_rejected", 1);
                rep.set_add("servable_rejected_reasons", &rejected_log.chars().take(160).collect::<String>());
            }
            rep.distinct_str(&format!("{}|rejected", class_name));
            return Ok(());
        }
        Some(p) => p,
    };
    rep.count("configs_accepted", 1);
    rep.distinct_str(&format!("{}|accepted", class_name));
    let port = pg.port;
    let toml = to_toml(&g, &cell, port);
    for d in &class {
        if listed.contains(&d.as_str()) {
            rep.violation(
                &format!("C15|unservable_config_accepted|class={}", d),
                &format!("pgcat started with a configuration that has {} (all defects of this file: {})", d, class_name),
                json!({"seed": seed, "toml": toml}),
            );
        }
    }
    // ---- servability sweep
    let addr = pg.addr();
    let labels = cell.labels();
    let mut sweep_problem = |what: &str, detail: String, pg: &mut Pgcat| {
        rep.violation(
            &format!("C15|accepted_config_not_servable|{}|class={}", what, class_name),
            &format!("{} (config class {})", detail, class_name),
            json!({"seed": seed, "toml": toml, "panics": pg.panics(), "log_tail": pg.log_tail(6)}),
        );
    };
    for p in &g.pools {
        // numeric order of shard keys = shard number clients use
        let mut ordered: Vec<&GShard> = p.shards.iter().collect();
        if ordered.iter().all(|s| s.key.parse::<i64>().is_ok()) {
            ordered.sort_by_key(|s| s.key.parse::<i64>().unwrap());
        }
        for u in &p.users {
            let pw = u.password.clone().unwrap_or(format!("pw{}", u.key));
            let mut c = match Conn::connect(&addr, &StartupOpts::new(&u.name, &p.name, &pw).app("sweep")) {
                Ok(c) => c,
                Err(e) => {
                    if !pg.alive() {
                        sweep_problem("pooler_died", format!("pgcat died when {}@{} connected: {}", u.name, p.name, e), &mut pg);
                        return Ok(());
                    }
                    sweep_problem("configured_user_cannot_log_in", format!("configured user {}@{} cannot log in: {}", u.name, p.name, e), &mut pg);
                    continue;
                }
            };
            let mut qn = 0;
            for (num, sh) in ordered.iter().enumerate() {
                let roles: BTreeSet<&str> = sh.servers.iter().map(|s| s.role.as_str()).collect();
                for role in roles.iter().chain(std::iter::once(&"any")) {
                    qn += 1;
                    let qid = format!("{}.{}.q{}", p.name, u.name, qn);
                    let r1 = c.query(&format!("SET SHARD TO '{}'", num), 5000);
                    let r2 = c.query(&format!("SET SERVER ROLE TO '{}'", role), 5000);
                    if r1.is_err() || r2.is_err() {
                        sweep_problem("connection_dropped_on_routing_command", format!("{}@{}: connection dropped on SET SHARD TO '{}' / SET SERVER ROLE", u.name, p.name, num), &mut pg);
                        return Ok(());
                    }
                    if let Some((_, m)) = first_error(r1.as_ref().unwrap()) {
                        sweep_problem("configured_shard_not_selectable", format!("{}@{}: SET SHARD TO '{}' refused: {}", u.name, p.name, num, m), &mut pg);
                        continue;
                    }
                    rep.count("sweep_transactions", 1);
                    match c.query(&format!("SELECT 1 {}", tag("sweep", &qid, "rows=1")), 8000) {
                        Ok(m) => {
                            if let Some((_, msg)) = first_error(&m) {
                                sweep_problem("transaction_refused", format!("{}@{} shard {} (key {}) role {}: {}", u.name, p.name, num, sh.key, role, msg), &mut pg);
                            } else {
                                let served = row_idents(&m).first().map(|x| x.0.clone()).unwrap_or_default();
                                let want_prefix = format!("{}.{}.", p.name, sh.key);
                                let role_ok = *role == "any" || served.contains(&format!(".{}.", role));
                                if !served.starts_with(&want_prefix) || !role_ok {
                                    sweep_problem("misrouted", format!("{}@{} selected shard {} (config key {}) role {} but was served by {}", u.name, p.name, num, sh.key, role, served), &mut pg);
                                }
                            }
                        }
                        Err((m, e)) => {
                            sweep_problem("connection_dropped_or_panic", format!("{}@{} shard {} role {}: {:?} {}; panics {:?}", u.name, p.name, num, role, e, summarize(&m), pg.panics()), &mut pg);
                            return Ok(());
                        }
                    }
                }
            }
            c.terminate();
            // default shard (no SET SHARD)
            if let Ok(mut c2) = Conn::connect(&addr, &StartupOpts::new(&u.name, &p.name, &pw).app("sweepd")) {
                qn += 1;
                let qid = format!("{}.{}.d{}", p.name, u.name, qn);
                match c2.query(&format!("SELECT 1 {}", tag("sweepd", &qid, "rows=1")), 8000) {
                    Ok(m) => {
                        rep.count("sweep_default_shard_transactions", 1);
                        if let Some((_, msg)) = first_error(&m) {
                            // default_role with no such server in the default shard is a legitimate refusal
                            if !msg.contains("could not get connection") {
                                sweep_problem("default_shard_transaction_error", format!("{}@{} default shard {}: {}", u.name, p.name, p.default_shard, msg), &mut pg);
                            }
                        } else {
                            let served = row_idents(&m).first().map(|x| x.0.clone()).unwrap_or_default();
                            if !served.starts_with(&format!("{}.", p.name)) {
                                sweep_problem("default_shard_misrouted_to_other_pool", format!("{}@{} was served by {}", u.name, p.name, served), &mut pg);
                            }
                            if let Some(k) = p.default_shard.strip_prefix("shard_") {
                                if let Ok(k) = k.parse::<usize>() {
                                    if k < ordered.len() && !served.starts_with(&format!("{}.{}.", p.name, ordered[k].key)) {
                                        sweep_problem("default_shard_misrouted", format!("{}@{} default_shard={} but served by {}", u.name, p.name, p.default_shard, served), &mut pg);
                                    }
                                }
                            }
                        }
                    }
                    Err((m, e)) => {
                        sweep_problem("default_shard_connection_dropped_or_panic", format!("{}@{} default shard {}: {:?} {}", u.name, p.name, p.default_shard, e, summarize(&m)), &mut pg);
                    }
                }
            }
        }
    }
    // ---- admin commands must not panic
    match pg.admin() {
        Ok(mut adm) => {
            let host = cell.mocks.first().map(|m| m.host()).unwrap_or("127.0.0.2".into());
            for cmd in ["SHOW DATABASES", "SHOW POOLS", "SHOW STATS", "SHOW SERVERS", "SHOW CLIENTS", "SHOW CONFIG", "SHOW LISTS", "SHOW USERS", &format!("BAN {} 1", host), "SHOW BANS", &format!("UNBAN {}", host)] {
                rep.count("admin_commands", 1);
                if let Err(e) = admin_query(&mut adm, cmd) {
                    sweep_problem("admin_command_failed", format!("admin `{}` failed: {}", cmd, e), &mut pg);
                    match pg.admin() {
                        Ok(a) => adm = a,
                        Err(_) => break,
                    }
                }
            }
        }
        Err(e) => sweep_problem("admin_login_failed", format!("admin cannot log in: {}", e), &mut pg),
    }
    sleep_ms(20);
    for pn in pg.panics() {
        rep.set_add("pgcat_panic_sites", &pn);
        rep.violation(
            &format!("C15|panic_with_accepted_config|class={}", class_name),
            &format!("pgcat panicked at {} while serving an accepted configuration (class {})", pn, class_name),
            json!({"seed": seed, "toml": toml}),
        );
    }
    if !pg.alive() {
        sweep_problem("pooler_died", "pgcat exited during the sweep".into(), &mut pg);
    }
    let _ = labels;
    Ok(())
}

pub fn run(tier: &str) -> i32 {
    let rep = Report::new(
        "C15",
        tier,
        "exploration",
        "config = generated over a bounded grammar: 1-2 pools, 1-2 users (password present/absent, auth_query on/off/one of its three settings left out), shard key sets {contiguous, from 1, gap, leading zero, duplicate after parsing, negative, non-numeric}, 1-3 servers per shard with roles {primary, replica, misspelt}, duplicates, 0-2 primaries, default_shard {shard_k valid/invalid, random, random_healthy, junk}, default_role valid/invalid, regex valid/invalid, rw-split without parser; one fresh pgcat per config; oracle = accept/reject (process listens vs exits) vs the generator's defect class, then a servability sweep (every selectable shard x role x user, default shard, admin commands) against mocks labelled pool.shardkey.role; distinct = (defect class, accepted/rejected)",
    );
    let thorough = rep.thorough();
    let n = if thorough { 8000 } else { 800 };
    let mut rng = Rng::new(rep.seed ^ 0xC15);
    let seeds: Vec<u64> = (0..n).map(|_| rng.next()).collect();
    run_parallel(n, workers(), |i| {
        rep.eval(1);
        if let Err(e) = scenario(seeds[i], &rep) {
            rep.inconclusive(&e);
        }
    });
    rep.finish(&[("configs_accepted", 40), ("configs_rejected", 40), ("sweep_transactions", 200)])
}
