//! C16 — PAUSE holds new transactions and RESUME releases every one of them.

use super::common::*;
use crate::cell::{run_parallel, workers};
use crate::evlog::Ev;
use crate::pgcat::{admin_query, admin_rows, PoolCfg, StartOpts};
use crate::proto;
use crate::report::Report;
use crate::sql::tag;
use crate::util::{now_ns, sleep_ms, Rng};
use crate::wire::{Conn, StartupOpts};
use crate::wl::{run_step, Outcome, Step};
use serde_json::json;
use std::collections::HashMap;
use std::sync::atomic::{AtomicBool, Ordering};
use std::sync::Arc;

#[derive(Clone, Debug)]
struct Cycle {
    t_p: u64, // PAUSE reply read
    t_r: u64, // RESUME command about to be written
    t_rr: u64, // RESUME reply read
    scope: String,
}

#[derive(Clone, Debug)]
struct Req {
    client: String,
    qid: String,
    first_of_txn: bool,
    t_s: u64,
    t_done: u64,
    outcome: Outcome,
    pool: String,
}

struct Sc {
    seed: u64,
    clients: usize,
    cycles: usize,
    workers: u32,
    pool_size: u32,
    jitter_us: u64,
    /// pool db2 in session mode; its clients open a connection per transaction, so every
    /// transaction is the first statement of a client that holds no server yet
    session_db2: bool,
    /// statement caching on; clients now and then send a lone Parse + Sync (as PQprepare does) of
    /// a text the pooler already knows, which it answers without a server
    cache: bool,
}

fn scenario(sc: &Sc, rep: &Report) -> Result<(), String> {
    // two pools so that per-pool PAUSE can be told from global PAUSE
    let (mut cell, mut cfg) = simple_cell(&["primary"], sc.pool_size, "transaction");
    let m2 = cell.add_mock("db2.s0.primary.0");
    cfg.pools.push(PoolCfg::single(
        "db2",
        USER,
        PASS,
        if sc.session_db2 { sc.clients as u32 + 2 } else { sc.pool_size },
        vec![cell.server(m2, "primary")],
    ));
    if sc.session_db2 {
        cfg.pools[1].set("pool_mode", "\"session\"");
    }
    if sc.cache {
        cfg.pools[0].set("prepared_statements_cache_size", "8");
    }
    cfg.gset("worker_threads", &sc.workers.to_string());
    cfg.gset("connect_timeout", "5000");
    let mut so = StartOpts::default();
    if sc.jitter_us > 0 {
        so.jitter = Some(format!("{}:{}:wait_paused", sc.seed, sc.jitter_us));
    }
    cell.start_pgcat(&cfg, &so)
        .map_err(|e| format!("start: {:?}", e))?;
    let addr = cell.addr();
    let stop = Arc::new(AtomicBool::new(false));
    let mut hs = vec![];
    for ci in 0..sc.clients {
        let addr = addr.clone();
        let stop = stop.clone();
        let seed = sc.seed ^ (ci as u64 + 7) * 0x51_7c_c1;
        let session_db2 = sc.session_db2;
        let cache = sc.cache;
        hs.push(std::thread::spawn(move || -> Vec<Req> {
            let mut rng = Rng::new(seed);
            let cid = format!("c{}", ci);
            let pool = if ci % 3 == 2 { "db2" } else { "db" };
            let mut out = vec![];
            let mut conn = match Conn::connect(&addr, &StartupOpts::new(USER, pool, PASS).app(&cid)) {
                Ok(c) => c,
                Err(_) => return out,
            };
            let mut n = 0;
            let reconnect_each = session_db2 && pool == "db2";
            while !stop.load(Ordering::SeqCst) {
                n += 1;
                if reconnect_each && n > 1 {
                    conn.terminate();
                    conn = match Conn::connect(&addr, &StartupOpts::new(USER, pool, PASS).app(&cid)) {
                        Ok(c) => c,
                        Err(_) => return out,
                    };
                }
                if cache && pool == "db" && rng.chance(1, 3) {
                    // prepare only: no transaction is started by this, the client holds nothing afterwards
                    let mut b = proto::parse(&format!("ps_{}_{}", cid, n), "SELECT 1 /*v q=c16.shared rows=1 */", &[]);
                    b.extend(proto::sync());
                    if conn.send(&b).is_err() || conn.read_until_ready(45_000).is_err() {
                        break;
                    }
                }
                let in_block = rng.chance(1, 3);
                let mut steps = vec![];
                if in_block {
                    let q = format!("{}.t{}.q1", cid, n);
                    steps.push((true, Step::plain(&q, "begin", proto::query(&format!("BEGIN {}", tag(&cid, &q, ""))))));
                    let q = format!("{}.t{}.q2", cid, n);
                    steps.push((false, Step::plain(&q, "simple", proto::query(&format!("SELECT 1 {}", tag(&cid, &q, &format!("sleep={}", rng.range(0, 8))))))));
                    let q = format!("{}.t{}.q3", cid, n);
                    steps.push((false, Step::plain(&q, "end", proto::query(&format!("COMMIT {}", tag(&cid, &q, ""))))));
                } else if rng.chance(1, 5) {
                    // a whole transaction that is one COPY ... FROM STDIN outside a block
                    let q = format!("{}.t{}.q1", cid, n);
                    steps.push((true, Step { qid: q.clone(), kind: crate::wl::StepKind::CopyIn { chunks: vec![b"1\n".to_vec(), b"2\n".to_vec()], fail: rng.chance(1, 3) }, bytes: proto::query(&format!("COPY t FROM STDIN {}", tag(&cid, &q, ""))), what: "copy_in".into(), readies: 1, cuts: vec![] }));
                } else {
                    let q = format!("{}.t{}.q1", cid, n);
                    steps.push((true, Step::plain(&q, "simple", proto::query(&format!("SELECT 1 {}", tag(&cid, &q, &format!("sleep={}", rng.range(0, 3))))))));
                }
                let mut broken = false;
                for (first, st) in steps {
                    let t_s = now_ns();
                    let r = run_step(&mut conn, &st, 45_000);
                    out.push(Req {
                        client: cid.clone(),
                        qid: st.qid.clone(),
                        first_of_txn: first,
                        t_s,
                        t_done: r.t_done,
                        outcome: r.outcome.clone(),
                        pool: pool.to_string(),
                    });
                    if r.outcome != Outcome::Ok {
                        broken = true;
                        break;
                    }
                }
                if broken {
                    break;
                }
                let think = rng.below(4000);
                if think > 0 {
                    std::thread::sleep(std::time::Duration::from_micros(think));
                }
            }
            conn.terminate();
            out
        }));
    }
    // admin thread (this thread)
    let mut adm = cell.pg().admin().map_err(|e| format!("admin: {}", e))?;
    let mut rng = Rng::new(sc.seed ^ 0xAD);
    let mut cycles = vec![];
    let mut long_gaps_left = 2;
    sleep_ms(30);
    for _ in 0..sc.cycles {
        if rng.chance(1, 5) {
            // both pools paused at the same time, resumed one after the other: the RESUME of one
            // pool releases that pool's clients only
            let order = if rng.chance(1, 2) { ["db,u1", "db2,u1"] } else { ["db2,u1", "db,u1"] };
            let mut t_ps = vec![];
            for sc_ in order.iter() {
                let (_, _, msgs) = admin_query(&mut adm, &format!("PAUSE {}", sc_))?;
                if crate::wire::first_error(&msgs).is_some() {
                    return Err(format!("PAUSE failed: {}", crate::wire::summarize(&msgs)));
                }
                t_ps.push(now_ns());
            }
            sleep_ms(rng.range(10, 40));
            for (k, sc_) in order.iter().enumerate() {
                let t_r = now_ns();
                let (_, _, msgs) = admin_query(&mut adm, &format!("RESUME {}", sc_))?;
                let t_rr = now_ns();
                if crate::wire::first_error(&msgs).is_some() {
                    return Err(format!("RESUME failed: {}", crate::wire::summarize(&msgs)));
                }
                cycles.push(Cycle { t_p: t_ps[k], t_r, t_rr, scope: sc_.to_string() });
                if k == 0 {
                    sleep_ms(rng.range(30, 80));
                }
            }
            rep.count("overlapping_pauses_of_two_pools", 1);
            std::thread::sleep(std::time::Duration::from_micros(rng.below(20_000) + 1));
            continue;
        }
        let scope = match rng.below(3) {
            0 => "".to_string(),
            1 => " db,u1".to_string(),
            _ => " db2,u1".to_string(),
        };
        let (_, _, msgs) = admin_query(&mut adm, &format!("PAUSE{}", scope))?;
        let t_p = now_ns();
        if crate::wire::first_error(&msgs).is_some() {
            return Err(format!("PAUSE failed: {}", crate::wire::summarize(&msgs)));
        }
        let hold = rng.range(0, 40);
        if hold > 0 {
            std::thread::sleep(std::time::Duration::from_micros(hold * 1000 + rng.below(1000)));
        }
        let t_r = now_ns();
        let (_, _, msgs) = admin_query(&mut adm, &format!("RESUME{}", scope))?;
        let t_rr = now_ns();
        if crate::wire::first_error(&msgs).is_some() {
            return Err(format!("RESUME failed: {}", crate::wire::summarize(&msgs)));
        }
        cycles.push(Cycle {
            t_p,
            t_r,
            t_rr,
            scope: scope.trim().to_string(),
        });
        // mostly short gaps; now and then a long one, so that "released by this RESUME" can be judged
        // without the next PAUSE getting in the way
        if long_gaps_left > 0 && rng.chance(1, 5) {
            long_gaps_left -= 1;
            sleep_ms(1200);
        } else {
            let gap = rng.below(20_000);
            if gap > 0 {
                std::thread::sleep(std::time::Duration::from_micros(gap));
            }
        }
    }
    // final global RESUME, then everybody must be able to finish
    let _ = admin_query(&mut adm, "RESUME")?;
    let t_final = now_ns();
    stop.store(true, Ordering::SeqCst);
    let mut reqs: Vec<Req> = vec![];
    for h in hs {
        reqs.extend(h.join().map_err(|_| "client panicked".to_string())?);
    }
    // arrival times at the mocks
    let mut arrival: HashMap<String, u64> = HashMap::new();
    for e in cell.log.snapshot() {
        if let Ev::MockMsg { qid: Some(q), .. } = &e.ev {
            arrival.entry(q.clone()).or_insert(e.t);
        }
    }
    let paused_now = admin_rows(&mut adm, "SHOW DATABASES")?
        .iter()
        .any(|r| r.get("paused").map(|s| s.as_str()) == Some("1"));
    let covers = |c: &Cycle, pool: &str| -> bool {
        c.scope.is_empty() || c.scope.starts_with(&format!("{},", pool))
    };
    let mut held = 0u64;
    for r in &reqs {
        rep.count("requests", 1);
        if r.first_of_txn {
            for c in &cycles {
                if !covers(c, &r.pool) {
                    continue;
                }
                if c.t_p < r.t_s && r.t_s < c.t_r {
                    held += 1;
                    rep.count("requests_sent_while_paused", 1);
                    if let Some(ta) = arrival.get(&r.qid) {
                        if *ta < c.t_r {
                            rep.violation(
                                &format!("C16|new_transaction_started_while_paused|scope={}", if c.scope.is_empty() { "global" } else { "pool" }),
                                &format!(
                                    "statement {} (pool {}) was sent {} us after the PAUSE{} reply was read and reached the server {} us before RESUME was issued",
                                    r.qid, r.pool, (r.t_s - c.t_p) / 1000, if c.scope.is_empty() { String::new() } else { format!(" {}", c.scope) }, (c.t_r - ta) / 1000
                                ),
                                json!({"qid": r.qid, "t_pause_reply": c.t_p, "t_send": r.t_s, "t_arrive": ta, "t_resume_sent": c.t_r, "seed": sc.seed}),
                            );
                        }
                    }
                }
            }
        }
        // RESUME releases every held client: a request held by a pause must reach its server soon
        // after the RESUME that ends that pause was answered (unless the pool was paused again)
        if r.first_of_txn {
            for (ci, c) in cycles.iter().enumerate() {
                if !covers(c, &r.pool) || !(c.t_p < r.t_s && r.t_s < c.t_r) {
                    continue;
                }
                let bound = c.t_rr + 1_000_000_000;
                let paused_again = cycles.iter().skip(ci + 1).any(|c2| covers(c2, &r.pool) && c2.t_p < bound + 50_000_000);
                if paused_again || bound > t_final {
                    continue;
                }
                rep.count("held_requests_judged_for_release", 1);
                let late = match arrival.get(&r.qid) {
                    Some(ta) => *ta > bound,
                    None => true,
                };
                if late {
                    rep.violation(
                        &format!("C16|held_client_not_released_by_resume|scope={}", if c.scope.is_empty() { "global" } else { "pool" }),
                        &format!(
                            "statement {} (pool {}) was held by PAUSE{}; RESUME{} was answered, no further PAUSE of that pool followed within 1 s, and the statement still had not reached its server {} ms after the RESUME reply",
                            r.qid, r.pool, if c.scope.is_empty() { String::new() } else { format!(" {}", c.scope) }, if c.scope.is_empty() { String::new() } else { format!(" {}", c.scope) },
                            arrival.get(&r.qid).map(|ta| (ta.saturating_sub(c.t_rr)) / 1_000_000).unwrap_or(u64::MAX / 1_000_000)
                        ),
                        json!({"qid": r.qid, "seed": sc.seed, "cycles": cycles.iter().map(|c| json!([c.t_p, c.t_r, c.t_rr, c.scope])).collect::<Vec<_>>()}),
                    );
                }
                break;
            }
        }
        match &r.outcome {
            Outcome::Ok => {}
            Outcome::Timeout => {
                rep.violation(
                    "C16|client_still_blocked_after_resume",
                    &format!(
                        "statement {} (pool {}) sent at +{} ms got no reply within 45 s although the pool was resumed (paused flag now: {}); lost wake-up",
                        r.qid, r.pool, (r.t_s.saturating_sub(cycles.first().map(|c| c.t_p).unwrap_or(0))) / 1_000_000, paused_now
                    ),
                    json!({"qid": r.qid, "paused_now": paused_now, "t_final_resume": t_final, "seed": sc.seed,
                           "cycles": cycles.iter().map(|c| json!([c.t_p, c.t_r, c.t_rr, c.scope])).collect::<Vec<_>>()}),
                );
            }
            other => {
                rep.violation(
                    &format!("C16|transaction_failed_around_pause|outcome={:?}", std::mem::discriminant(other)),
                    &format!("statement {} failed around PAUSE/RESUME: {:?}", r.qid, other),
                    json!({"qid": r.qid, "outcome": format!("{:?}", other), "pgcat_log_tail": cell.pg().log_tail(10)}),
                );
            }
        }
    }
    rep.count("pause_cycles", cycles.len() as u64);
    // hook evidence: wait_paused entries that saw paused=true, and those during a RESUME in flight
    let evs = cell.pg().events();
    for (t, k, line) in &evs {
        if k == "wait_paused.enter" && line.contains("\"paused\":true") {
            rep.count("hook_wait_paused_saw_paused", 1);
            if cycles.iter().any(|c| c.t_r <= *t && *t <= c.t_rr) {
                rep.count("hook_wait_paused_entered_while_resume_in_flight", 1);
            }
        }
    }
    rep.distinct(crate::util::fnv(format!("{}:{}:{}", sc.clients, held, cycles.len()).as_bytes()));
    Ok(())
}

pub fn run(tier: &str) -> i32 {
    let rep = Report::new(
        "C16",
        tier,
        "exploration",
        "scenario = 4-64 looping clients (autocommit and BEGIN..COMMIT) on two pools (the second one in session mode, one connection per transaction, in a third of the scenarios) + an admin connection toggling PAUSE/RESUME (global / per pool) at 0-40 ms intervals, worker_threads 2-8, jitter inside wait_paused; oracle = happens-before on one monotonic clock: sent after PAUSE reply => must not reach a server before RESUME is issued; a held request reaches its server within 1 s of the RESUME reply unless its pool is paused again; every request completes after the final RESUME; no request fails; distinct = (clients, held requests, cycles)",
    );
    rep.assume("a request is judged 'held' only if its first byte was written after the PAUSE reply had been read by the admin connection");
    let thorough = rep.thorough();
    let n = if thorough { 600 } else { 64 };
    let mut rng = Rng::new(rep.seed ^ 0xC16);
    let scs: Vec<Sc> = (0..n)
        .map(|_| Sc {
            seed: rng.next(),
            clients: rng.range(4, if thorough { 64 } else { 32 }) as usize,
            cycles: rng.range(5, 30) as usize,
            workers: *rng.pick(&[2, 4, 8]),
            pool_size: rng.range(1, 4) as u32,
            jitter_us: *rng.pick(&[0, 300, 2000]),
            session_db2: rng.chance(1, 3),
            cache: rng.chance(1, 3),
        })
        .collect();
    run_parallel(n, workers(), |i| {
        rep.eval(1);
        if let Err(e) = scenario(&scs[i], &rep) {
            rep.inconclusive(&e);
        }
    });
    rep.sample(json!({"clients": scs[0].clients, "cycles": scs[0].cycles, "workers": scs[0].workers, "jitter_us": scs[0].jitter_us}));
    rep.finish(&[("pause_cycles", 300), ("requests_sent_while_paused", 200)])
}
