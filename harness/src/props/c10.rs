//! C10 — a cancel request reaches only the requester's own running server session.

use super::common::*;
use crate::cell::{run_parallel, workers, Cell};
use crate::evlog::Ev;
use crate::pgcat::StartOpts;
use crate::proto;
use crate::report::Report;
use crate::sql::tag;
use crate::util::{now_ns, sleep_ms, Rng};
use crate::wire::{first_error, send_cancel, summarize, Conn, StartupOpts};
use serde_json::json;
use std::sync::atomic::Ordering;

fn wait_running(cell: &Cell, client: &str, timeout_ms: u64) -> bool {
    let end = now_ns() + timeout_ms * 1_000_000;
    while now_ns() < end {
        for m in &cell.mocks {
            for s in m.ctl.sessions.lock().unwrap().values() {
                if let Some((c, _)) = s.running.lock().unwrap().as_ref() {
                    if c == client {
                        return true;
                    }
                }
            }
        }
        std::thread::sleep(std::time::Duration::from_micros(300));
    }
    false
}

fn cancels_since(cell: &Cell, n0: usize) -> Vec<(u64, Option<u64>, Option<(String, String)>, Option<String>)> {
    cell.log
        .since(n0)
        .iter()
        .filter_map(|e| match &e.ev {
            Ev::MockCancel {
                matched_sid,
                running,
                session_client,
                ..
            } => Some((e.t, *matched_sid, running.clone(), session_client.clone())),
            _ => None,
        })
        .collect()
}

fn conn(cell: &Cell, id: &str) -> Result<Conn, String> {
    Conn::connect(&cell.addr(), &StartupOpts::new(USER, "db", PASS).app(id)).map_err(|e| format!("{} connect: {}", id, e))
}

/// Sequential phases on pool_size = 1.
fn scripted(seed: u64, jitter: u64, rep: &Report) -> Result<(), String> {
    let (mut cell, mut cfg) = simple_cell(&["primary"], 1, "transaction");
    cfg.gset("connect_timeout", "5000");
    cfg.gset("idle_client_in_transaction_timeout", "600");
    let mut so = StartOpts::default();
    if jitter > 0 {
        so.jitter = Some(format!("{}:{}:client.", seed, jitter));
    }
    cell.start_pgcat(&cfg, &so).map_err(|e| format!("start: {:?}", e))?;
    let addr = cell.addr();
    let mut rng = Rng::new(seed);
    let mut x = conn(&cell, "X")?;
    let mut y = conn(&cell, "Y")?;
    let wit = |cell: &mut Cell| json!({"seed": seed, "jitter_us": jitter, "pgcat_log_tail": cell.pg().log_tail(8)});

    // ---- Phase A: valid key while the statement runs
    let qid = "X.a1";
    x.send(&proto::query(&format!("SELECT 1 {}", tag("X", qid, "sleep=900"))))
        .map_err(|e| e.to_string())?;
    if !wait_running(&cell, "X", 3000) {
        return Err("X's statement never started".into());
    }
    let n0 = cell.log.len();
    let t0 = now_ns();
    send_cancel(&addr, x.pid, x.key).map_err(|e| e.to_string())?;
    let r = x.read_until_ready(5000).map_err(|(m, e)| format!("X reply: {:?} {}", e, summarize(&m)))?;
    let dt = (now_ns() - t0) / 1_000_000;
    rep.count("cancels_valid_running", 1);
    let cs = cancels_since(&cell, n0);
    let cancelled = first_error(&r).map(|e| e.0 == "57014").unwrap_or(false);
    if !cancelled || cs.is_empty() {
        rep.violation(
            "C10|valid_cancel_not_delivered_to_own_running_session",
            &format!("cancel with X's key while X's statement was running: reply {} after {} ms, {} CancelRequests seen at the server", summarize(&r), dt, cs.len()),
            wit(&mut cell),
        );
    } else {
        rep.count("hits_on_own_running_session", 1);
    }
    for c in &cs {
        if c.2.as_ref().map(|r| r.0.as_str()) != Some("X") {
            rep.violation(
                "C10|cancel_hit_session_not_running_requesters_statement",
                &format!("CancelRequest arrived for a session running {:?} (session client {:?}) after a cancel with X's key", c.2, c.3),
                wit(&mut cell),
            );
        }
    }
    // ---- Phase B: keys of clients holding no server
    sleep_ms(30);
    let n0 = cell.log.len();
    for _ in 0..3 {
        send_cancel(&addr, x.pid, x.key).map_err(|e| e.to_string())?;
        send_cancel(&addr, y.pid, y.key).map_err(|e| e.to_string())?;
        rep.count("cancels_idle_key", 2);
    }
    sleep_ms(250);
    let cs = cancels_since(&cell, n0);
    if !cs.is_empty() {
        rep.violation(
            "C10|server_contacted_for_client_holding_no_server",
            &format!("{} CancelRequests reached the server for keys of clients that hold no server connection", cs.len()),
            wit(&mut cell),
        );
    }
    // ---- Phase C: X's (now stale) key while Y runs on the connection X used
    let qid = "Y.c1";
    y.send(&proto::query(&format!("SELECT 1 {}", tag("Y", qid, "sleep=500"))))
        .map_err(|e| e.to_string())?;
    if !wait_running(&cell, "Y", 3000) {
        return Err("Y's statement never started".into());
    }
    let n0 = cell.log.len();
    // vary the offset a little
    let d = rng.below(40);
    if d > 0 {
        sleep_ms(d);
    }
    send_cancel(&addr, x.pid, x.key).map_err(|e| e.to_string())?;
    rep.count("cancels_stale_key_on_reused_connection", 1);
    // ---- Phase D: random keys
    for _ in 0..4 {
        send_cancel(&addr, rng.next() as i32, rng.next() as i32).map_err(|e| e.to_string())?;
        rep.count("cancels_random_key", 1);
    }
    // ---- Phase E: key of a client that has disconnected
    let mut z = conn(&cell, "Z")?;
    let (zp, zk) = (z.pid, z.key);
    z.terminate();
    sleep_ms(20);
    send_cancel(&addr, zp, zk).map_err(|e| e.to_string())?;
    rep.count("cancels_disconnected_client_key", 1);
    let r = y.read_until_ready(5000).map_err(|(m, e)| format!("Y reply: {:?} {}", e, summarize(&m)))?;
    sleep_ms(100);
    let cs = cancels_since(&cell, n0);
    if first_error(&r).is_some() || !cs.is_empty() {
        rep.violation(
            "C10|foreign_or_unknown_key_cancelled_another_clients_statement",
            &format!("while Y ran a statement, cancels with X's stale key / random keys / a disconnected client's key: Y got {}, {} CancelRequests at the server {:?}", summarize(&r), cs.len(), cs.iter().map(|c| c.2.clone()).collect::<Vec<_>>()),
            wit(&mut cell),
        );
    } else {
        rep.count("stale_key_trials_clean", 1);
    }
    // ---- Phase G: cancel right after the reply (release window), then next client runs
    let qid = "X.g1";
    let r = x.query(&format!("SELECT 1 {}", tag("X", qid, "sleep=5")), 5000).map_err(|(m, e)| format!("X g1: {:?} {}", e, summarize(&m)))?;
    let _ = r;
    let n0 = cell.log.len();
    y.send(&proto::query(&format!("SELECT 1 {}", tag("Y", "Y.g2", "sleep=300"))))
        .map_err(|e| e.to_string())?;
    // X's key immediately, while Y is being checked out / starts running
    for _ in 0..3 {
        send_cancel(&addr, x.pid, x.key).map_err(|e| e.to_string())?;
        rep.count("cancels_after_release", 1);
        sleep_ms(rng.range(1, 30));
    }
    let r = y.read_until_ready(5000).map_err(|(m, e)| format!("Y g2: {:?} {}", e, summarize(&m)))?;
    let cs = cancels_since(&cell, n0);
    let hit_y = cs.iter().any(|c| c.2.as_ref().map(|r| r.0.as_str()) == Some("Y"));
    if first_error(&r).is_some() || hit_y {
        rep.violation(
            &format!("C10|key_still_valid_after_transaction_end_cancelled_next_client|release_jitter_us={}", jitter),
            &format!("X's key, used after X's transaction had ended, cancelled Y's statement on the connection X had used: Y got {}", summarize(&r)),
            wit(&mut cell),
        );
    }
    // ---- Phase H: X's transaction has ended but the pooler is still cleaning the server up
    // (RESET ALL round trip made slow by the mock). X's key must already be useless.
    cell.mocks[0].ctl.slow_ms.store(60, Ordering::SeqCst);
    let r = x.query(&format!("SET work_mem TO '1MB' {}", tag("X", "X.h1", "")), 5000).map_err(|(m, e)| format!("X h1: {:?} {}", e, summarize(&m)))?;
    let _ = r;
    let n0 = cell.log.len();
    send_cancel(&addr, x.pid, x.key).map_err(|e| e.to_string())?;
    rep.count("cancels_during_cleanup_after_txn_end", 1);
    sleep_ms(200);
    cell.mocks[0].ctl.slow_ms.store(0, Ordering::SeqCst);
    let cs = cancels_since(&cell, n0);
    if !cs.is_empty() {
        rep.violation(
            &format!("C10|server_contacted_after_transaction_end_during_cleanup|release_jitter_us={}", jitter),
            &format!("X's transaction had ended (X had read ReadyForQuery(I)); a cancel with X's key sent afterwards still reached the server session X had used ({} CancelRequests) while the pooler was resetting it", cs.len()),
            wit(&mut cell),
        );
    }
    // ---- Phase K: X is in the middle of an autocommit COPY ... FROM STDIN (it holds its server, no
    // transaction block): a cancel with X's key must reach X's own server session
    {
        x.send(&proto::query(&format!("COPY t FROM STDIN {}", tag("X", "X.k1", "")))).map_err(|e| e.to_string())?;
        let mut got_g = false;
        for _ in 0..20 {
            match x.read_msg(3000) {
                Ok(m) if m.typ == b'G' => {
                    got_g = true;
                    break;
                }
                Ok(_) => {}
                Err(e) => return Err(format!("X waiting for CopyInResponse: {:?}", e)),
            }
        }
        if !got_g {
            return Err("X never got CopyInResponse".into());
        }
        x.send(&proto::copy_data(b"1\tone\n")).map_err(|e| e.to_string())?;
        sleep_ms(20 + rng.below(30));
        let n0 = cell.log.len();
        send_cancel(&addr, x.pid, x.key).map_err(|e| e.to_string())?;
        rep.count("cancels_during_autocommit_copy_in", 1);
        // keep streaming: the pooler's idle-in-transaction timeout (600 ms here) must not end the
        // COPY, and with it the server session, while the CancelRequest is still on its way
        let mut worst_gap_ms = 0;
        let mut t_last = now_ns();
        for _ in 0..5 {
            sleep_ms(40);
            x.send(&proto::copy_data(b"2\ttwo\n")).map_err(|e| e.to_string())?;
            worst_gap_ms = worst_gap_ms.max((now_ns() - t_last) / 1_000_000);
            t_last = now_ns();
        }
        let cs = cancels_since(&cell, n0);
        if worst_gap_ms >= 400 {
            // this thread was held up for most of the pooler's timeout: the COPY may have been ended
            // by the pooler meanwhile, the premise of this phase is gone
            rep.count("copy_in_phase_not_judged_harness_thread_delayed", 1);
        } else if cs.is_empty() {
            rep.violation(
                "C10|valid_cancel_not_delivered_to_own_server_session|state=autocommit_copy_from_stdin",
                "X was streaming CopyData of an autocommit COPY FROM STDIN (it holds a server); a cancel with X's key reached no server",
                wit(&mut cell),
            );
        } else {
            rep.count("hits_on_own_session_during_copy_in", 1);
        }
        for c in &cs {
            if c.3.as_deref() != Some("X") && worst_gap_ms < 400 {
                rep.violation(
                    "C10|cancel_hit_session_not_running_requesters_statement",
                    &format!("during X's COPY FROM STDIN a cancel with X's key arrived at a session of {:?} (matched sid {:?}, running {:?}; all cancels seen: {:?})", c.3, c.1, c.2, cs),
                    wit(&mut cell),
                );
            }
        }
        x.send(&proto::copy_fail("stop")).map_err(|e| e.to_string())?;
        let _ = x.read_until_ready(5000).map_err(|(m, e)| format!("X after CopyFail: {:?} {}", e, summarize(&m)))?;
        sleep_ms(30);
    }
    // ---- Phase I/J: X gives its server back by a path on which no ReadyForQuery(idle) comes from the
    // server (a lone Sync answered by the pooler; the idle-in-transaction timeout); afterwards Y
    // runs on that server and X's key must be dead
    for path in ["lone_sync", "idle_in_transaction_timeout"] {
        match path {
            "lone_sync" => {
                x.send(&proto::sync()).map_err(|e| e.to_string())?;
                let _ = x.read_until_ready(5000).map_err(|(m, e)| format!("X lone sync: {:?} {}", e, summarize(&m)))?;
            }
            _ => {
                let _ = x.query(&format!("BEGIN {}", tag("X", "X.j1", "")), 5000).map_err(|(m, e)| format!("X begin: {:?} {}", e, summarize(&m)))?;
                // wait for the pooler's timeout (600 ms) to take the server away
                let _ = x.read_until_ready(3000);
            }
        }
        sleep_ms(40);
        y.send(&proto::query(&format!("SELECT 1 {}", tag("Y", &format!("Y.{}", path), "sleep=400")))).map_err(|e| e.to_string())?;
        if !wait_running(&cell, "Y", 3000) {
            return Err("Y's statement never started".into());
        }
        let n0 = cell.log.len();
        send_cancel(&addr, x.pid, x.key).map_err(|e| e.to_string())?;
        rep.count("cancels_after_server_returned_without_server_ready", 1);
        let r = y.read_until_ready(5000).map_err(|(m, e)| format!("Y reply: {:?} {}", e, summarize(&m)))?;
        sleep_ms(60);
        let cs = cancels_since(&cell, n0);
        if first_error(&r).is_some() || !cs.is_empty() {
            rep.violation(
                &format!("C10|key_of_client_without_server_cancelled_another_clients_statement|returned_by={}", path),
                &format!("X had given its server back ({}) and held none; a cancel with X's key then cancelled Y's statement on that server: Y got {}, {} CancelRequests at the server", path, summarize(&r), cs.len()),
                wit(&mut cell),
            );
        }
        if path != "lone_sync" {
            // X's connection state after the timeout error is not of interest any more
        }
    }
    // ---- Phase L: a client vanishes (socket closed, no Terminate) idle inside an open transaction;
    // while the pooler rolls the server back (round trip made slow by the mock) the vanished
    // client's key must already be useless
    for how in ["fin", "rst", "terminate"] {
        let mut w = conn(&cell, "W")?;
        let (wp, wk) = (w.pid, w.key);
        let _ = w.query(&format!("BEGIN {}", tag("W", &format!("W.l.{}", how), "")), 5000).map_err(|(m, e)| format!("W begin: {:?} {}", e, summarize(&m)))?;
        cell.mocks[0].ctl.slow_ms.store(150, Ordering::SeqCst);
        let n0 = cell.log.len();
        match how {
            "fin" => w.close_fin(),
            "rst" => w.close_rst(),
            _ => w.terminate(),
        }
        sleep_ms(25 + rng.below(40));
        send_cancel(&addr, wp, wk).map_err(|e| e.to_string())?;
        rep.count("cancels_during_rollback_of_vanished_client", 1);
        sleep_ms(350);
        cell.mocks[0].ctl.slow_ms.store(0, Ordering::SeqCst);
        let cs = cancels_since(&cell, n0);
        if !cs.is_empty() {
            rep.violation(
                &format!("C10|server_contacted_for_vanished_client_during_its_rollback|left_by={}", how),
                &format!("W left ({}) inside an open transaction; a cancel with W's key sent afterwards reached the server ({} CancelRequests) while the pooler was rolling that server back", how, cs.len()),
                wit(&mut cell),
            );
        }
        sleep_ms(50);
    }
    x.terminate();
    y.terminate();
    Ok(())
}

/// Session-mode pool of size 1: a client whose task ends ABNORMALLY (protocol error) while it holds a
/// clean, idle server; the next client gets that server; the first client's key must be dead.
fn abnormal_exit_in_session_mode(seed: u64, rep: &Report) -> Result<(), String> {
    let mut rng = Rng::new(seed);
    let (mut cell, mut cfg) = simple_cell(&["primary"], 1, "session");
    cfg.gset("connect_timeout", "5000");
    cell.start_pgcat(&cfg, &StartOpts::default()).map_err(|e| format!("start: {:?}", e))?;
    let addr = cell.addr();
    for round in 0..3 {
        let how = *rng.pick(&["truncated_close", "truncated_bind", "unknown_type", "short_frame"]);
        let mut x = conn(&cell, "X")?;
        let (xp, xk) = (x.pid, x.key);
        let _ = x.query(&format!("SELECT 1 {}", tag("X", &format!("X.m{}", round), "")), 5000).map_err(|(m, e)| format!("X: {:?} {}", e, summarize(&m)))?;
        // X holds its (clean, idle) server; now its task dies on a decoding error
        let bytes: Vec<u8> = match how {
            "truncated_close" => crate::proto::Msg::new(b'C', vec![b'S']).encode(),
            "truncated_bind" => crate::proto::Msg::new(b'B', vec![b'x']).encode(),
            "unknown_type" => crate::proto::Msg::new(b'~', vec![1, 2, 3]).encode(),
            _ => vec![b'Q', 0, 0, 0, 2],
        };
        let _ = x.send(&bytes);
        let _ = x.send(&proto::sync());
        let _ = x.drain_to_eof(1500);
        drop(x);
        sleep_ms(50);
        let mut y = conn(&cell, "Y")?;
        y.send(&proto::query(&format!("SELECT 1 {}", tag("Y", &format!("Y.m{}", round), "sleep=400")))).map_err(|e| e.to_string())?;
        if !wait_running(&cell, "Y", 3000) {
            return Err("Y's statement never started".into());
        }
        let n0 = cell.log.len();
        send_cancel(&addr, xp, xk).map_err(|e| e.to_string())?;
        rep.count("cancels_with_key_of_abnormally_ended_client", 1);
        let r = y.read_until_ready(5000).map_err(|(m, e)| format!("Y reply: {:?} {}", e, summarize(&m)))?;
        sleep_ms(60);
        let cs = cancels_since(&cell, n0);
        if first_error(&r).is_some() || !cs.is_empty() {
            rep.violation(
                &format!("C10|key_of_abnormally_ended_client_cancelled_another_clients_statement|exit={}", how),
                &format!("X's task ended on a protocol error ({}) while it held a server in a session-mode pool; Y then got that server; a cancel with X's key: Y got {}, {} CancelRequests at the server", how, summarize(&r), cs.len()),
                json!({"seed": seed, "pgcat_log_tail": cell.pg().log_tail(8)}),
            );
        }
        y.terminate();
        sleep_ms(30);
    }
    Ok(())
}

/// A valid cancel keeps working: (a) for a client that stayed connected across a reload that
/// rebuilt its pool and for one that connected afterwards, (b) for the second and third statement
/// of one session (the cancel connection itself must not invalidate the requester's key).
fn cancel_keeps_working(seed: u64, rep: &Report) -> Result<(), String> {
    let mut rng = Rng::new(seed);
    let mode = *rng.pick(&["transaction", "session"]);
    let trigger = *rng.pick(&["reload", "sighup", "none"]);
    let (mut cell, mut cfg) = simple_cell(&["primary"], 2, mode);
    cfg.gset("connect_timeout", "5000");
    cell.start_pgcat(&cfg, &StartOpts::default()).map_err(|e| format!("start: {:?}", e))?;
    let addr = cell.addr();
    let port = cell.pg().port;
    let mut x = conn(&cell, "X")?;
    let mut cancel_round = |cell: &mut Cell, c: &mut Conn, who: &str, tagq: &str, rep: &Report, when: &str| -> Result<(), String> {
        c.send(&proto::query(&format!("SELECT 1 {}", tag(who, tagq, "sleep=700")))).map_err(|e| e.to_string())?;
        if !wait_running(cell, who, 3000) {
            return Err(format!("{}'s statement never started", who));
        }
        let n0 = cell.log.len();
        send_cancel(&addr, c.pid, c.key).map_err(|e| e.to_string())?;
        let r = c.read_until_ready(5000).map_err(|(m, e)| format!("{} reply: {:?} {}", who, e, summarize(&m)))?;
        rep.count("cancels_valid_repeated_or_after_reload", 1);
        let cs = cancels_since(cell, n0);
        let cancelled = first_error(&r).map(|e| e.0 == "57014").unwrap_or(false);
        if !cancelled || cs.is_empty() {
            rep.violation(
                &format!("C10|valid_cancel_not_delivered_to_own_running_session|when={}|mode={}", when, mode),
                &format!("a cancel with {}'s own key while its statement {} was running ({}): reply {}, {} CancelRequests at the server", who, tagq, when, summarize(&r), cs.len()),
                json!({"seed": seed, "mode": mode, "trigger": trigger, "pgcat_log_tail": cell.pg().log_tail(6)}),
            );
        }
        Ok(())
    };
    cancel_round(&mut cell, &mut x, "X", "X.n1", rep, "first_statement")?;
    cancel_round(&mut cell, &mut x, "X", "X.n2", rep, "second_statement_of_the_session")?;
    if trigger != "none" {
        // the pool is rebuilt (pool_size changed)
        let mut cfg2 = cfg.clone();
        cfg2.pools[0].users[0].pool_size = 3;
        let ev0 = cell.pg().events().iter().filter(|e| e.1 == "reload.end").count();
        cell.pg().rewrite_config(&cfg2.to_toml(port));
        if trigger == "reload" {
            let mut a = cell.pg().admin().map_err(|e| format!("admin: {}", e))?;
            let _ = a.query("RELOAD", 10_000);
        } else {
            cell.pg().signal(libc::SIGHUP);
        }
        let deadline = now_ns() + 5_000_000_000;
        while cell.pg().events().iter().filter(|e| e.1 == "reload.end").count() <= ev0 && now_ns() < deadline {
            sleep_ms(5);
        }
        sleep_ms(30);
        if mode == "transaction" {
            cancel_round(&mut cell, &mut x, "X", "X.n3", rep, &format!("after_{}_client_connected_before", trigger))?;
        }
        let mut y = conn(&cell, "Y")?;
        cancel_round(&mut cell, &mut y, "Y", "Y.n1", rep, &format!("after_{}_client_connected_after", trigger))?;
        cancel_round(&mut cell, &mut y, "Y", "Y.n2", rep, &format!("after_{}_second_statement", trigger))?;
        y.terminate();
    } else {
        cancel_round(&mut cell, &mut x, "X", "X.n3", rep, "third_statement_of_the_session")?;
    }
    // ---- a cancel sent while the pooler is still applying the client's own parameters to the server it
    // has just been given (the client's statement is on its way, the server is the client's already)
    {
        let mut w = conn(&cell, "W_sync")?;
        cell.mocks[0].ctl.slow_ms.store(350, Ordering::SeqCst);
        // (the mock sits 350 ms on every message before it handles it: the pooler's SET for this
        // client stays unanswered that long; the pooler's checkout hook event marks the moment the
        // server became this client's)
        let ck0 = cell.pg().events().iter().filter(|e| e.1 == "checkout").count();
        w.send(&proto::query(&format!("SELECT 1 {}", tag("W_sync", "W.s1", "rows=1")))).map_err(|e| e.to_string())?;
        let deadline = now_ns() + 3_000_000_000;
        let mut sync_seen = false;
        while now_ns() < deadline && !sync_seen {
            sync_seen = cell.pg().events().iter().filter(|e| e.1 == "checkout").count() > ck0;
            if !sync_seen {
                sleep_ms(2);
            }
        }
        if sync_seen {
            sleep_ms(20);
            let n1 = cell.log.len();
            send_cancel(&addr, w.pid, w.key).map_err(|e| e.to_string())?;
            let deadline = now_ns() + 2_500_000_000;
            let mut delivered = false;
            while now_ns() < deadline && !delivered {
                delivered = cancels_since(&cell, n1).iter().any(|c| c.1.is_some());
                if !delivered {
                    sleep_ms(5);
                }
            }
            rep.count("cancels_during_parameter_sync", 1);
            if !delivered {
                rep.violation(
                    &format!("C10|valid_cancel_not_delivered_to_own_running_session|when=parameter_sync_in_flight|mode={}", mode),
                    "a client sent a statement and then its cancel while the pooler was applying the client's parameters to the server it had just given that client: no CancelRequest reached that server",
                    json!({"seed": seed, "mode": mode, "pgcat_log_tail": cell.pg().log_tail(6)}),
                );
            }
        }
        cell.mocks[0].ctl.slow_ms.store(0, Ordering::SeqCst);
        let _ = w.read_until_ready(10_000);
        w.terminate();
    }
    x.terminate();
    Ok(())
}

/// Concurrent storm: several clients running sleeps on pool_size 2-3, cancels with valid keys.
fn storm(seed: u64, rep: &Report) -> Result<(), String> {
    let mut rng = Rng::new(seed);
    let pool = rng.range(1, 3) as u32;
    let (mut cell, mut cfg) = simple_cell(&["primary"], pool, "transaction");
    cfg.gset("connect_timeout", "8000");
    let mut so = StartOpts::default();
    so.jitter = Some(format!("{}:500:client.", seed));
    cell.start_pgcat(&cfg, &so).map_err(|e| format!("start: {:?}", e))?;
    let addr = cell.addr();
    let n = rng.range(3, 8) as usize;
    let keys = std::sync::Arc::new(std::sync::Mutex::new(vec![(0i32, 0i32); n]));
    let stop = std::sync::Arc::new(std::sync::atomic::AtomicBool::new(false));
    let mut hs = vec![];
    for i in 0..n {
        let addr = addr.clone();
        let keys = keys.clone();
        let stop = stop.clone();
        let seed = seed ^ (i as u64 + 1) * 77;
        hs.push(std::thread::spawn(move || -> Result<(u64, u64), String> {
            let mut rng = Rng::new(seed);
            let cid = format!("s{}", i);
            let mut c = Conn::connect(&addr, &StartupOpts::new(USER, "db", PASS).app(&cid)).map_err(|e| e.to_string())?;
            keys.lock().unwrap()[i] = (c.pid, c.key);
            let mut done = 0;
            let mut cancelled = 0;
            let mut k = 0;
            while !stop.load(Ordering::SeqCst) {
                k += 1;
                let qid = format!("{}.q{}", cid, k);
                let r = c.query(&format!("SELECT 1 {}", tag(&cid, &qid, &format!("sleep={}", rng.range(5, 80)))), 20_000)
                    .map_err(|(m, e)| format!("{}: {:?} {}", qid, e, summarize(&m)))?;
                match first_error(&r) {
                    Some((code, _)) if code == "57014" => cancelled += 1,
                    Some((code, msg)) => return Err(format!("{} unexpected error {} {}", qid, code, msg)),
                    None => done += 1,
                }
            }
            c.terminate();
            Ok((done, cancelled))
        }));
    }
    sleep_ms(50);
    // cancel log: (t_send, target index or None for random)
    let mut sent: Vec<(u64, Option<usize>)> = vec![];
    for _ in 0..rng.range(20, 60) {
        let t = now_ns();
        if rng.chance(1, 4) {
            let _ = send_cancel(&addr, rng.next() as i32, rng.next() as i32);
            sent.push((t, None));
        } else {
            let i = rng.below(n as u64) as usize;
            let (p, k) = keys.lock().unwrap()[i];
            if p != 0 {
                let _ = send_cancel(&addr, p, k);
                sent.push((t, Some(i)));
            }
        }
        sleep_ms(rng.range(1, 15));
    }
    sleep_ms(100);
    stop.store(true, Ordering::SeqCst);
    let mut total_cancelled = 0;
    for h in hs {
        match h.join().map_err(|_| "storm client panicked".to_string())? {
            Ok((_, c)) => total_cancelled += c,
            Err(e) => {
                rep.violation(
                    "C10|statement_failed_during_cancel_storm",
                    &format!("a client statement failed with something other than a cancel: {}", e),
                    json!({"seed": seed}),
                );
            }
        }
    }
    rep.count("storm_statements_cancelled", total_cancelled);
    rep.count("storm_cancels_sent", sent.len() as u64);
    // who used which server session when (a CancelRequest is handled by the server some time after
    // the pooler forwarded it: the session may have moved on to its next client meanwhile, exactly
    // as with a direct connection to PostgreSQL)
    let all_events = cell.log.snapshot();
    let mut usage: std::collections::HashMap<u64, Vec<(u64, String)>> = std::collections::HashMap::new();
    for e in &all_events {
        if let Ev::MockMsg { sid, client: Some(c), .. } = &e.ev {
            usage.entry(*sid).or_default().push((e.t, c.clone()));
        }
    }
    for e in all_events.iter() {
        if let Ev::MockCancel {
            matched_sid,
            running,
            session_client,
            pid,
            key,
            ..
        } = &e.ev
        {
            rep.count("storm_cancel_requests_at_server", 1);
            if matched_sid.is_none() {
                rep.violation(
                    "C10|cancel_request_with_wrong_server_key",
                    &format!("CancelRequest pid={} key={} at the server matches no server session", pid, key),
                    json!({"seed": seed}),
                );
                continue;
            }
            // who was this session serving? a cancel with that client's key must have been sent
            // at most 2 s earlier
            let who = running.as_ref().map(|r| r.0.clone()).or(session_client.clone());
            if let Some(w) = who {
                // clients that used this session in the 2 s before the CancelRequest arrived
                let mut users: Vec<String> = usage
                    .get(&matched_sid.unwrap())
                    // ... or whose first message on it arrived shortly AFTER the CancelRequest: the
                    // pooler maps a client's key to a server when it checks the server out, which is
                    // before that client's statement is written to it
                    .map(|v| v.iter().filter(|(t, _)| (*t <= e.t && e.t - *t < 2_000_000_000) || (*t > e.t && *t - e.t < 500_000_000)).map(|x| x.1.clone()).collect())
                    .unwrap_or_default();
                users.push(w.clone());
                let justified = users.iter().any(|u| {
                    let idx: Option<usize> = u.strip_prefix('s').and_then(|s| s.parse().ok());
                    sent.iter().any(|(t, tgt)| *tgt == idx && *t <= e.t && e.t - *t < 2_000_000_000)
                });
                if !justified {
                    rep.violation(
                        "C10|cancel_reached_session_of_client_nobody_cancelled",
                        &format!("CancelRequest hit the server session serving client {} although no cancel with that client's key had been sent in the preceding 2 s", w),
                        json!({"seed": seed, "running": format!("{:?}", running)}),
                    );
                }
            }
        }
    }
    Ok(())
}

pub fn run(tier: &str) -> i32 {
    let rep = Report::new(
        "C10",
        tier,
        "exploration",
        "scripted scenario (pool_size 1): cancel with a valid key while the statement runs; keys of idle clients; a stale key while another client runs on the same server connection; random keys; a disconnected client's key; key reuse right after the transaction ended (jitter between cleanup and release); cancel during an autocommit COPY FROM STDIN; during the rollback of a vanished client; key of a client whose task ended on a protocol error in a session-mode pool; valid cancels for consecutive statements of one session and after a reload that rebuilt the pool; plus concurrent cancel storms on pool_size 1-3; oracle = CancelRequest packets logged by the mock (target session, what it was running) joined with the harness's own cancel log; distinct = scenarios x seeds",
    );
    let thorough = rep.thorough();
    let n = if thorough { 1500 } else { 60 };
    let mut rng = Rng::new(rep.seed ^ 0xC10);
    let seeds: Vec<(u64, u64)> = (0..n).map(|_| (rng.next(), *rng.pick(&[0, 300, 3000]))).collect();
    run_parallel(n, workers(), |i| {
        rep.eval(1);
        rep.distinct(seeds[i].0);
        let r = if i % 3 == 2 {
            storm(seeds[i].0, &rep)
        } else if i % 6 == 1 {
            abnormal_exit_in_session_mode(seeds[i].0, &rep)
        } else if i % 6 == 4 {
            cancel_keeps_working(seeds[i].0, &rep)
        } else {
            scripted(seeds[i].0, seeds[i].1, &rep)
        };
        if let Err(e) = r {
            rep.inconclusive(&e);
        }
    });
    rep.sample(json!({"scripted_phases": ["valid_running", "idle_keys", "stale_key_while_other_runs", "random_keys", "disconnected_key", "key_after_txn_end"], "seed": seeds[0].0, "jitter_us": seeds[0].1}));
    rep.finish(&[
        ("hits_on_own_running_session", 20),
        ("stale_key_trials_clean", 20),
        ("storm_cancel_requests_at_server", 20),
    ])
}
