//! C08 — prepared-statement caching is invisible to clients.

use super::common::*;
use crate::cell::{run_parallel, workers};
use crate::evlog::Ev;
use crate::pgcat::StartOpts;
use crate::proto::{self, Msg};
use crate::report::Report;
use crate::util::{printable, Rng};
use crate::wire::{summarize, Conn, StartupOpts};
use serde_json::json;
use std::collections::{BTreeMap, HashMap};

#[derive(Clone, Debug, PartialEq, Eq)]
struct Text {
    id: String,
    sql: String,
    types: Vec<i32>,
}

fn texts(rng: &mut Rng) -> Vec<Text> {
    let mut v = vec![];
    let n = rng.range(4, 14);
    for i in 0..n {
        v.push(Text { id: format!("T{}", i), sql: format!("SELECT {} AS col /*v q=T{} rows=1 */", i, i), types: vec![] });
    }
    // same text, different parameter types => different statements
    v.push(Text { id: "P1".into(), sql: "SELECT $1 AS p /*v q=P1 rows=1 */".into(), types: vec![23] });
    v.push(Text { id: "P1b".into(), sql: "SELECT $1 AS p /*v q=P1 rows=1 */".into(), types: vec![25] });
    // pairs whose (query || n || types) concatenations coincide
    v.push(Text { id: "H1".into(), sql: "SELECT $1 /*v q=H1 rows=1 */ AS c1".into(), types: vec![700] });
    v.push(Text { id: "H2".into(), sql: "SELECT $1 /*v q=H1 rows=1 */ AS c".into(), types: vec![1700] });
    // one text, parameter type lists that are rearrangements / truncations of each other
    // (unspecified = 0 in different positions, shorter lists): all different statements
    let fam: Vec<Vec<i32>> = vec![vec![0, 0, 25], vec![25, 0, 0], vec![0, 25, 0], vec![25], vec![25, 25], vec![0, 0, 0], vec![], vec![23, 25, 0], vec![25, 23, 0], vec![0, 23, 25]];
    let k = rng.range(3, 6) as usize;
    let mut picked: Vec<usize> = vec![];
    while picked.len() < k {
        let i = rng.below(fam.len() as u64) as usize;
        if !picked.contains(&i) {
            picked.push(i);
        }
    }
    for i in picked {
        v.push(Text { id: format!("Z{}", i), sql: "SELECT $1, $2, $3 /*v q=Z rows=1 */".into(), types: fam[i].clone() });
    }
    v.push(Text { id: "H3".into(), sql: "SELECT 1 /*v q=H3 rows=1 */ AS x1".into(), types: vec![] });
    v.push(Text { id: "H4".into(), sql: "SELECT 1 /*v q=H3 rows=1 */ AS x".into(), types: vec![10] });
    v
}

#[derive(Clone, Debug)]
struct ExecRec {
    op: String,
    client: String,
    portal: String,
    /// what a direct connection would run
    expect_sql: String,
    expect_types: Vec<i32>,
    name: String,
    reply: String,
    ok: bool,
}

/// `dedicated`: cache size 1 and mostly the Parse(a) Parse(b) Bind(a) batch, each client stopping at
/// its first failure, so that the consequences of that known defect do not spread to other signatures.
fn scenario(seed: u64, rep: &Report, dedicated: bool) -> Result<(), String> {
    let mut rng = Rng::new(seed);
    let pool_size = rng.range(1, 3) as u32;
    let cache = if dedicated { 1 } else { *rng.pick(&[1u64, 2, 3, 8, 500]) };
    let (mut cell, mut cfg) = simple_cell(&["primary"], pool_size, "transaction");
    cfg.pools[0].set("prepared_statements_cache_size", &cache.to_string());
    cfg.gset("connect_timeout", "5000");
    cell.start_pgcat(&cfg, &StartOpts::default()).map_err(|e| format!("start: {:?}", e))?;
    let addr = cell.addr();
    let tx = texts(&mut rng);
    let nclients = rng.range(2, 6) as usize;
    // whether a re-prepared name is closed in the same batch as its new Parse (Close, Parse, Sync)
    let same_batch = match std::env::var("PGV_C08_SAME_BATCH") {
        Ok(v) => v == "1",
        Err(_) => rng.chance(1, 2),
    };
    let mut hs = vec![];
    for ci in 0..nclients {
        let addr = addr.clone();
        let tx = tx.clone();
        let sd = rng.next();
        let same_batch_close = same_batch;
        let cache_size = cache;
        hs.push(std::thread::spawn(move || -> Result<(Vec<ExecRec>, Vec<String>), String> {
            let mut rng = Rng::new(sd);
            let cid = format!("c{}", ci);
            let mut c = Conn::connect(&addr, &StartupOpts::new(USER, "db", PASS).app(&cid)).map_err(|e| format!("connect: {}", e))?;
            let mut model: BTreeMap<String, Text> = BTreeMap::new();
            let mut recs = vec![];
            let mut problems = vec![];
            let names = ["s1", "s2", "s3"];
            let mut pn = 0;
            for _ in 0..rng.range(15, 50) {
                if dedicated && (recs.iter().any(|r: &ExecRec| !r.ok) || !problems.is_empty()) {
                    break;
                }
                let shared = rng.chance(2, 3);
                let name = if shared { names[rng.below(3) as usize].to_string() } else { format!("own_{}_{}", cid, rng.below(3)) };
                match if dedicated { *rng.pick(&[9u64, 9, 4, 10]) } else { rng.below(12) } {
                    0..=2 => {
                        // (re)prepare a name; re-Parse of an existing name without Close is an error
                        // on a direct connection, so close it first in the same batch
                        let t = rng.pick(&tx).clone();
                        let mut b = vec![];
                        let mut had = model.contains_key(&name);
                        if had && !same_batch_close {
                            // Close in its own batch first
                            let mut cb = proto::close(b'S', &name);
                            cb.extend(proto::sync());
                            c.send(&cb).map_err(|e| e.to_string())?;
                            let r = c.read_until_ready(10_000).map_err(|(m, e)| format!("{} close {}: {:?} {}", cid, name, e, summarize(&m)))?;
                            if proto::type_string(&r) != "3Z" {
                                problems.push(format!("Close {} answered {}", name, summarize(&r)));
                            }
                            had = false;
                        }
                        if had {
                            b.extend(proto::close(b'S', &name));
                        }
                        b.extend(proto::parse(&name, &t.sql, &t.types));
                        b.extend(proto::sync());
                        c.send(&b).map_err(|e| e.to_string())?;
                        let r = c.read_until_ready(10_000).map_err(|(m, e)| format!("{} parse {}: {:?} {}", cid, name, e, summarize(&m)))?;
                        let ts = proto::type_string(&r);
                        let mut sorted: Vec<char> = ts.chars().filter(|c| *c != 'Z').collect();
                        sorted.sort();
                        let want: String = if had { "13".into() } else { "1".into() };
                        if sorted.iter().collect::<String>() != want {
                            problems.push(format!("Parse {} as {} answered {} (expected messages {}+Z)", name, t.id, summarize(&r), want));
                        }
                        model.insert(name.clone(), t);
                    }
                    6 if rng.chance(1, 3) => {
                        // a statement the SERVER refuses at Parse: every attempt, by any client under
                        // any name, must get the server's error (never a ParseComplete made up by the
                        // pooler for a statement that does not exist on the server)
                        let bad_name = format!("bad_{}_{}", cid, rng.below(2));
                        let mut b = proto::parse(&bad_name, "SELECT 1 /*v q=BAD perr */", &[]);
                        b.extend(proto::sync());
                        c.send(&b).map_err(|e| e.to_string())?;
                        let r = c.read_until_ready(10_000).map_err(|(m, e)| format!("{} refused parse: {:?} {}", cid, e, summarize(&m)))?;
                        if proto::type_string(&r) != "EZ" {
                            problems.push(format!("Refused parse: Parse of a statement the server refuses was answered {} (a direct connection answers E Z)", summarize(&r)));
                        }
                    }
                    3..=6 => {
                        // Bind + Execute a known name (own batch => own transaction => any server connection)
                        if let Some(t) = model.get(&name).cloned() {
                            pn += 1;
                            let portal = format!("{}_p{}", cid, pn);
                            let params: Vec<Option<Vec<u8>>> = t.types.iter().map(|_| Some(b"7".to_vec())).collect();
                            let mut b = proto::bind(&portal, &name, &[], &params, &[]);
                            if rng.chance(1, 3) {
                                b.extend(proto::describe(b'P', &portal));
                            }
                            b.extend(proto::execute(&portal, 0));
                            b.extend(proto::sync());
                            c.send(&b).map_err(|e| e.to_string())?;
                            let r = c.read_until_ready(10_000).map_err(|(m, e)| format!("{} exec {}: {:?} {}", cid, name, e, summarize(&m)))?;
                            let ids = crate::wire::row_idents(&r);
                            let want_q = crate::sql::directive(&t.sql).get("q").cloned().unwrap_or_default();
                            let ok = crate::wire::first_error(&r).is_none() && ids.len() == 1 && ids[0].2 == want_q;
                            recs.push(ExecRec { op: "bind_execute".into(), client: cid.clone(), portal, expect_sql: t.sql.clone(), expect_types: t.types.clone(), name: name.clone(), reply: summarize(&r), ok });
                        }
                    }
                    7 if rng.chance(1, 2) => {
                        // a named portal opened, run and closed twice under the same name inside one
                        // transaction: Close(P) must reach the server, replies keep their order
                        if let Some(t) = model.get(&name).cloned() {
                            let r = c.query("BEGIN", 10_000).map_err(|(m, e)| format!("{} BEGIN: {:?} {}", cid, e, summarize(&m)))?;
                            if crate::wire::first_error(&r).is_some() {
                                problems.push(format!("Portal cycle: BEGIN answered {}", summarize(&r)));
                            }
                            let params: Vec<Option<Vec<u8>>> = t.types.iter().map(|_| Some(b"7".to_vec())).collect();
                            // portals and statements have separate namespaces: half the time the portal
                            // carries the very name of the statement it is bound to
                            let portal = if rng.chance(1, 2) { name.clone() } else { format!("{}_cur", cid) };
                            for round in 0..2 {
                                let mut b = proto::bind(&portal, &name, &[], &params, &[]);
                                b.extend(proto::execute(&portal, 0));
                                b.extend(proto::close(b'P', &portal));
                                b.extend(proto::sync());
                                c.send(&b).map_err(|e| e.to_string())?;
                                let r = c.read_until_ready(10_000).map_err(|(m, e)| format!("{} portal cycle {}: {:?} {}", cid, name, e, summarize(&m)))?;
                                let ts = proto::type_string(&r);
                                if ts != "2DC3Z" {
                                    problems.push(format!("Portal cycle: round {} of Bind({}, {}) Execute Close(P) Sync answered {} (a direct connection answers 2 D C 3 Z)", round + 1, portal, name, summarize(&r)));
                                    break;
                                }
                            }
                            let r = c.query("COMMIT", 10_000).map_err(|(m, e)| format!("{} COMMIT: {:?} {}", cid, e, summarize(&m)))?;
                            let _ = r;
                        }
                    }
                    7 => {
                        // Describe statement
                        if let Some(t) = model.get(&name).cloned() {
                            let mut b = proto::describe(b'S', &name);
                            b.extend(proto::sync());
                            c.send(&b).map_err(|e| e.to_string())?;
                            let r = c.read_until_ready(10_000).map_err(|(m, e)| format!("{} describe {}: {:?} {}", cid, name, e, summarize(&m)))?;
                            let pd = r.iter().find(|m| m.typ == b't');
                            let n = pd.map(|m| i16::from_be_bytes([m.body[0], m.body[1]]) as usize);
                            if n != Some(t.types.len()) {
                                problems.push(format!("Describe {} (prepared as {} with {} parameter types) answered {} ({:?} parameters)", name, t.id, t.types.len(), summarize(&r), n));
                            }
                        }
                    }
                    8 if rng.chance(1, 2) => {
                        // session state changed outside a transaction: the pooler resets the connection
                        // at check-in (RESET ALL deallocates nothing; the statements must stay usable)
                        let sql = *rng.pick(&["SET work_mem TO '4MB'", "SET search_path TO public", "SET ROLE NONE"]);
                        let r = c.query(sql, 10_000).map_err(|(m, e)| format!("{} {}: {:?} {}", cid, sql, e, summarize(&m)))?;
                        if crate::wire::first_error(&r).is_some() {
                            problems.push(format!("Set: `{}` answered {}", sql, summarize(&r)));
                        }
                    }
                    8 => {
                        if model.remove(&name).is_some() {
                            let mut b = proto::close(b'S', &name);
                            b.extend(proto::sync());
                            c.send(&b).map_err(|e| e.to_string())?;
                            let r = c.read_until_ready(10_000).map_err(|(m, e)| format!("{} close {}: {:?} {}", cid, name, e, summarize(&m)))?;
                            if proto::type_string(&r) != "3Z" {
                                problems.push(format!("Close {} answered {}", name, summarize(&r)));
                            }
                        }
                    }
                    10 | 11 if model.len() >= 2 && (cache_size > 1 || dedicated) => {
                        // two different known statements used in ONE batch: Bind a, Execute, Bind b, Execute, Sync
                        let keys: Vec<String> = model.keys().cloned().collect();
                        let na = keys[rng.below(keys.len() as u64) as usize].clone();
                        let mut nb = keys[rng.below(keys.len() as u64) as usize].clone();
                        if nb == na {
                            nb = keys[(keys.iter().position(|k| *k == na).unwrap() + 1) % keys.len()].clone();
                        }
                        let (ta, tb) = (model[&na].clone(), model[&nb].clone());
                        pn += 2;
                        let (pa, pb) = (format!("{}_p{}", cid, pn - 1), format!("{}_p{}", cid, pn));
                        let par = |t: &Text| -> Vec<Option<Vec<u8>>> { t.types.iter().map(|_| Some(b"7".to_vec())).collect() };
                        let mut b = proto::bind(&pa, &na, &[], &par(&ta), &[]);
                        b.extend(proto::execute(&pa, 0));
                        b.extend(proto::bind(&pb, &nb, &[], &par(&tb), &[]));
                        b.extend(proto::execute(&pb, 0));
                        b.extend(proto::sync());
                        c.send(&b).map_err(|e| e.to_string())?;
                        let r = c.read_until_ready(10_000).map_err(|(m, e)| format!("{} two-bind batch: {:?} {}", cid, e, summarize(&m)))?;
                        let ids = crate::wire::row_idents(&r);
                        let qa = crate::sql::directive(&ta.sql).get("q").cloned().unwrap_or_default();
                        let qb = crate::sql::directive(&tb.sql).get("q").cloned().unwrap_or_default();
                        let ok = crate::wire::first_error(&r).is_none() && ids.len() == 2 && ids[0].2 == qa && ids[1].2 == qb;
                        recs.push(ExecRec { op: "bind_a_execute_bind_b_execute_in_one_batch".into(), client: cid.clone(), portal: pa, expect_sql: ta.sql.clone(), expect_types: ta.types.clone(), name: na.clone(), reply: summarize(&r), ok });
                        recs.push(ExecRec { op: "bind_a_execute_bind_b_execute_in_one_batch".into(), client: cid.clone(), portal: pb, expect_sql: tb.sql.clone(), expect_types: tb.types.clone(), name: nb.clone(), reply: summarize(&r), ok });
                    }
                    9 if rng.chance(1, 2) && (cache_size > 1 || dedicated) => {
                        // Parse(a) Parse(b) Bind(a) Execute Sync: with a tiny cache registering b evicts a
                        let ta = rng.pick(&tx).clone();
                        let tb = rng.pick(&tx).clone();
                        let na = format!("own_{}_a", cid);
                        let nb = format!("own_{}_b", cid);
                        for nm in [&na, &nb] {
                            if model.remove(nm.as_str()).is_some() {
                                let mut cb = proto::close(b'S', nm);
                                cb.extend(proto::sync());
                                c.send(&cb).map_err(|e| e.to_string())?;
                                let _ = c.read_until_ready(10_000).map_err(|(m, e)| format!("{} close {}: {:?} {}", cid, nm, e, summarize(&m)))?;
                            }
                        }
                        pn += 1;
                        let portal = format!("{}_p{}", cid, pn);
                        let params: Vec<Option<Vec<u8>>> = ta.types.iter().map(|_| Some(b"7".to_vec())).collect();
                        let mut b = proto::parse(&na, &ta.sql, &ta.types);
                        b.extend(proto::parse(&nb, &tb.sql, &tb.types));
                        b.extend(proto::bind(&portal, &na, &[], &params, &[]));
                        b.extend(proto::execute(&portal, 0));
                        b.extend(proto::sync());
                        c.send(&b).map_err(|e| e.to_string())?;
                        let r = c.read_until_ready(10_000).map_err(|(m, e)| format!("{} two-parse batch: {:?} {}", cid, e, summarize(&m)))?;
                        let ids = crate::wire::row_idents(&r);
                        let want_q = crate::sql::directive(&ta.sql).get("q").cloned().unwrap_or_default();
                        let ok = crate::wire::first_error(&r).is_none() && ids.len() == 1 && ids[0].2 == want_q;
                        recs.push(ExecRec { op: "parse_a_parse_b_bind_a_in_one_batch".into(), client: cid.clone(), portal, expect_sql: ta.sql.clone(), expect_types: ta.types.clone(), name: format!("{} (batch Parse a, Parse b, Bind a)", na), reply: summarize(&r), ok });
                        model.insert(na, ta);
                        model.insert(nb, tb);
                    }
                    _ => {
                        // Parse + Bind + Execute in one batch (named), then use it again later
                        let t = rng.pick(&tx).clone();
                        pn += 1;
                        let portal = format!("{}_p{}", cid, pn);
                        let params: Vec<Option<Vec<u8>>> = t.types.iter().map(|_| Some(b"7".to_vec())).collect();
                        let mut b = vec![];
                        if model.contains_key(&name) {
                            if same_batch_close {
                                b.extend(proto::close(b'S', &name));
                            } else {
                                let mut cb = proto::close(b'S', &name);
                                cb.extend(proto::sync());
                                c.send(&cb).map_err(|e| e.to_string())?;
                                let _ = c.read_until_ready(10_000).map_err(|(m, e)| format!("{} close {}: {:?} {}", cid, name, e, summarize(&m)))?;
                            }
                        }
                        b.extend(proto::parse(&name, &t.sql, &t.types));
                        b.extend(proto::bind(&portal, &name, &[], &params, &[]));
                        b.extend(proto::execute(&portal, 0));
                        // one time in five the statement is closed again at the end of the very batch
                        // that prepared and ran it (prepare, use, drop: what drivers do for one-shot statements)
                        let close_at_end = rng.chance(1, 5);
                        if close_at_end {
                            b.extend(proto::close(b'S', &name));
                        }
                        b.extend(proto::sync());
                        c.send(&b).map_err(|e| e.to_string())?;
                        let r = c.read_until_ready(10_000).map_err(|(m, e)| format!("{} parse+exec {}: {:?} {}", cid, name, e, summarize(&m)))?;
                        let ids = crate::wire::row_idents(&r);
                        let want_q = crate::sql::directive(&t.sql).get("q").cloned().unwrap_or_default();
                        let ok = crate::wire::first_error(&r).is_none() && ids.len() == 1 && ids[0].2 == want_q;
                        // (one operation class for the signatures, with or without the trailing Close)
                        recs.push(ExecRec { op: "parse_bind_execute".into(), client: cid.clone(), portal, expect_sql: t.sql.clone(), expect_types: t.types.clone(), name: name.clone(), reply: summarize(&r), ok });
                        if close_at_end {
                            model.remove(&name);
                        } else {
                            model.insert(name.clone(), t);
                        }
                    }
                }
                if rng.chance(1, 4) {
                    std::thread::sleep(std::time::Duration::from_micros(rng.below(1500)));
                }
            }
            c.terminate();
            Ok((recs, problems))
        }));
    }
    let mut recs = vec![];
    let mut client_failures = vec![];
    for h in hs {
        match h.join().map_err(|_| "client panicked".to_string())? {
            Ok((r, p)) => {
                recs.extend(r);
                for x in p {
                    client_failures.push(x);
                }
            }
            Err(e) => client_failures.push(format!("client aborted: {}", e)),
        }
    }
    let cfgname = format!("cache={} pool_size={}", cache, pool_size);
    for f in client_failures {
        let kind = if f.contains("client aborted") { "client_connection_broken" } else if f.starts_with("Describe") { "describe_wrong" } else if f.starts_with("Close") { "close_wrong" } else if f.starts_with("Refused parse") { "refused_parse_answered_wrongly" } else if f.starts_with("Set:") { "set_outside_transaction_wrong" } else if f.starts_with("Portal cycle") { "named_portal_cycle_wrong" } else { "parse_reply_wrong" };
        rep.violation(&format!("C08|{}|cache_size_class={}", kind, if cache == 1 { "1" } else if cache < 8 { "small" } else { "large" }), &format!("{} ({})", f, cfgname), json!({"seed": seed, "cfg": cfgname, "log_tail": cell.pg().log_tail(8)}));
    }
    // ---- mock side: what ran for each portal, name -> (text, types) bindings, errors
    let mut ran: HashMap<String, (String, Option<Vec<i32>>)> = HashMap::new();
    let mut server_names: HashMap<(usize, u64, String), (String, Vec<i32>)> = HashMap::new();
    let mut global_names: HashMap<String, (String, Vec<i32>)> = HashMap::new();
    let labels = cell.labels();
    for e in cell.log.snapshot() {
        match &e.ev {
            Ev::MockMsg { b, sid, typ, bytes, ran: r, .. } => {
                let (ms, _) = proto::split_msgs(bytes);
                let m = match ms.first() {
                    Some(m) => m.clone(),
                    None => continue,
                };
                match *typ {
                    b'P' => {
                        let (name, n) = proto::cstr_at(&m.body, 0);
                        let (q, n2) = proto::cstr_at(&m.body, n);
                        let mut types = vec![];
                        if n2 + 2 <= m.body.len() {
                            let cnt = i16::from_be_bytes([m.body[n2], m.body[n2 + 1]]) as usize;
                            for i in 0..cnt {
                                let o = n2 + 2 + i * 4;
                                if o + 4 <= m.body.len() {
                                    types.push(i32::from_be_bytes([m.body[o], m.body[o + 1], m.body[o + 2], m.body[o + 3]]));
                                }
                            }
                        }
                        rep.count("parses_at_server", 1);
                        if name.starts_with("PGCAT_") {
                            if let Some(prev) = global_names.get(&name) {
                                if prev.0 != q || prev.1 != types {
                                    rep.violation(
                                        "C08|different_statements_share_a_server_side_name",
                                        &format!("server-side name {} was prepared as `{}` {:?} and as `{}` {:?} ({})", name, prev.0, prev.1, q, types, cfgname),
                                        json!({"seed": seed, "cfg": cfgname}),
                                    );
                                }
                            }
                            global_names.insert(name.clone(), (q.clone(), types.clone()));
                        } else if !name.is_empty() {
                            rep.violation("C08|client_statement_name_reached_server", &format!("Parse with the client's own name {} reached the server although caching is on", name), json!({"seed": seed}));
                        }
                        server_names.insert((*b, *sid, name), (q, types));
                    }
                    b'B' => {
                        let (portal, n) = proto::cstr_at(&m.body, 0);
                        let (stmt, _) = proto::cstr_at(&m.body, n);
                        let def = server_names.get(&(*b, *sid, stmt.clone())).cloned();
                        ran.insert(portal, (r.clone().unwrap_or_default(), def.map(|d| d.1)));
                        rep.count("binds_at_server", 1);
                    }
                    b'C' => {
                        let (name, _) = proto::cstr_at(&m.body, 1);
                        if m.body.first() == Some(&b'S') {
                            server_names.remove(&(*b, *sid, name));
                            rep.count("closes_at_server", 1);
                        }
                    }
                    _ => {}
                }
            }
            Ev::MockErr { b, code, msg, .. } => {
                // errors the client saw are judged (and attributed to an operation) by the reply check
                let seen_by_client = recs.iter().any(|r| r.reply.contains(msg.as_str()));
                // (dedicated cache-size-1 scenarios judge client replies only: the server-side
                // errors there are the known findings' own mechanism)
                if (code == "42P05" || code == "26000") && msg.contains("PGCAT_") && !seen_by_client && !dedicated {
                    rep.violation(
                        &format!("C08|server_error_for_pooler_generated_name|sqlstate={}|cache_size_class={}", code, if cache == 1 { "1" } else if cache < 8 { "small" } else { "large" }),
                        &format!("{} raised {} {} ({})", labels[*b], code, msg, cfgname),
                        json!({"seed": seed, "cfg": cfgname}),
                    );
                }
            }
            _ => {}
        }
    }
    for r in &recs {
        rep.count("executes_checked", 1);
        rep.distinct_str(&format!("{}|{}|{}", r.expect_sql, cache, pool_size));
        match ran.get(&r.portal) {
            _ if dedicated => {}
            None => {
                rep.violation("C08|execute_never_reached_server", &format!("{}: Bind/Execute of {} (portal {}) never reached a server; client saw {} ({})", r.client, r.name, r.portal, r.reply, cfgname), json!({"seed": seed}));
            }
            Some((sql, types)) => {
                // (an Execute that was answered with an error is judged by the reply check below)
                if r.ok && (*sql != r.expect_sql || types.as_ref() != Some(&r.expect_types)) {
                    rep.violation(
                        &format!("C08|executed_other_statement_than_client_prepared|same_text={}", *sql == r.expect_sql),
                        &format!(
                            "{}: Execute of statement {} ran `{}` with parameter types {:?}; the client had prepared that name as `{}` with types {:?} ({})",
                            r.client, r.name, sql, types, r.expect_sql, r.expect_types, cfgname
                        ),
                        json!({"seed": seed, "cfg": cfgname, "client_reply": r.reply}),
                    );
                }
            }
        }
        if !r.ok && std::env::var("PGV_DEBUG").is_ok() {
            println!("==== failing exec {:?}\n{}", r, cell.pg().log_text());
            for e in cell.log.snapshot() {
                println!("{}", crate::evlog::render_event(&e, &labels));
            }
        }
        if !r.ok {
            rep.violation(
                &{
                    let code = r.reply.split('[').nth(1).and_then(|x| x.split(' ').next()).unwrap_or("none").to_string();
                    let multi = r.op.ends_with("_in_one_batch");
                    let _ = multi;
                    if cache == 1 {
                        // a one-entry cache cannot hold the statements of one batch: the failure shows
                        // as 42P05, 26000 or the pooler's own "does not exist", depending on timing
                        format!("C08|execute_reply_wrong|op={}|cache_size_class=1|error=any", r.op)
                    } else {
                        format!("C08|execute_reply_wrong|op={}|cache_size_class={}|error={}", r.op, if cache == 1 { "1" } else if cache < 8 { "small" } else { "large" }, code)
                    }
                },
                &format!("{}: Execute of {} (prepared as `{}`) was answered {} ({})", r.client, r.name, r.expect_sql, r.reply, cfgname),
                json!({"seed": seed, "cfg": cfgname, "log_tail": cell.pg().log_tail(8)}),
            );
        }
    }
    if let Some(r) = recs.first() {
        rep.sample(json!({"seed": seed, "cfg": cfgname, "client": r.client, "name": r.name, "prepared_as": r.expect_sql, "server_ran": ran.get(&r.portal).map(|x| x.0.clone()), "reply": r.reply}));
    }
    let _ = printable;
    let _ = Msg::new;
    Ok(())
}

pub fn run(tier: &str) -> i32 {
    let rep = Report::new(
        "C08",
        tier,
        "exploration",
        "scenario = 2-6 clients on pool_size 1-3 with statement cache size in {1,2,3,8,500}, each running 15-50 random operations over 3 shared names + own names: (Close+)Parse, Bind+Execute in its own batch (so the transaction may land on another server connection), Parse+Bind+Execute, Describe statement, Close; statement pool includes same-text/different-types pairs and pairs whose query||count||types concatenations coincide; oracle = per-client model of a direct connection (name -> text, types) vs the text the mock actually ran for each Execute (resolved through its own portal/statement tables) and the reply the client got; one server-side name never stands for two statements; no 42P05/26000 for pooler-generated names; distinct = (statement, cache size, pool size)",
    );
    rep.assume("re-Parse of an existing name is always preceded by Close in the same batch (re-Parse without Close is an error on a direct connection and is don't-care)");
    let thorough = rep.thorough();
    let n = if thorough { 4000 } else { 300 };
    let mut rng = Rng::new(rep.seed ^ 0xC08);
    let mut seeds: Vec<u64> = (0..n).map(|_| rng.next()).collect();
    if let Ok(s) = std::env::var("PGV_C08_SEED") {
        seeds = vec![s.parse().unwrap(); 40];
    }
    let n = seeds.len();
    run_parallel(n, workers(), |i| {
        rep.eval(1);
        if let Err(e) = scenario(seeds[i], &rep, i % 10 == 9 && std::env::var("PGV_C08_SEED").is_err()) {
            rep.inconclusive(&e);
        }
    });
    rep.finish(&[("executes_checked", 2000), ("parses_at_server", 500)])
}
