//! C14 — live reload is safe: valid configs take effect, invalid ones change nothing.

use super::common::*;
use crate::cell::{run_parallel, workers, Cell};
use crate::evlog::Ev;
use crate::pgcat::{admin_query, admin_rows, Cfg, PoolCfg, StartOpts};
use crate::report::Report;
use crate::sql::tag;
use crate::util::{now_ns, sleep_ms, Rng};
use crate::wire::{first_error, row_idents, summarize, Conn, ConnErr, StartupOpts};
use serde_json::json;
use std::collections::BTreeMap;
use std::sync::atomic::{AtomicBool, AtomicU64, Ordering};
use std::sync::Arc;

#[derive(Clone, Debug)]
struct Obs {
    pool: String,
    qid: String,
    t_send: u64,
    t_done: u64,
    served: Option<String>,
    err: Option<String>,
}

const VARIANTS: &[&str] = &[
    "unchanged",
    "general_only",
    "servers_changed",
    "pool_added",
    "pool_removed",
    "user_changed",
    "mode_changed",
    "sharding_changed",
    "routing_changed",
    "roles_swapped",
    "invalid_syntax",
    "invalid_default_role",
    "invalid_default_shard",
    "invalid_two_primaries",
    "invalid_min_pool_size",
];
const TRIGGERS: &[&str] = &["admin_reload", "sighup", "autoreload"];

fn looper(addr: String, pool: String, id: String, stop: Arc<AtomicBool>, seed: u64) -> Vec<Obs> {
    looper_as(addr, pool, USER.to_string(), PASS.to_string(), id, stop, seed)
}

fn looper_as(addr: String, pool: String, user: String, pass: String, id: String, stop: Arc<AtomicBool>, seed: u64) -> Vec<Obs> {
    let mut rng = Rng::new(seed);
    let mut out = vec![];
    let mut n = 0;
    while !stop.load(Ordering::SeqCst) {
        let t_c = now_ns();
        let mut c = match Conn::connect(&addr, &StartupOpts::new(&user, &pool, &pass).app(&id)) {
            Ok(c) => c,
            Err(ConnErr::Refused { message, .. }) => {
                n += 1;
                out.push(Obs { pool: pool.clone(), qid: format!("{}.connect{}", id, n), t_send: t_c, t_done: now_ns(), served: None, err: Some(message) });
                sleep_ms(15);
                continue;
            }
            Err(e) => {
                n += 1;
                out.push(Obs { pool: pool.clone(), qid: format!("{}.connect{}", id, n), t_send: t_c, t_done: now_ns(), served: None, err: Some(format!("connect: {}", e)) });
                sleep_ms(15);
                continue;
            }
        };
        while !stop.load(Ordering::SeqCst) {
            n += 1;
            let qid = format!("{}.q{}", id, n);
            let t_send = now_ns();
            match c.query(&format!("SELECT 1 {}", tag(&id, &qid, "rows=1")), 15_000) {
                Ok(m) => {
                    let err = first_error(&m).map(|e| e.1);
                    let served = row_idents(&m).first().map(|x| x.0.clone());
                    let failed = err.is_some();
                    out.push(Obs { pool: pool.clone(), qid, t_send, t_done: now_ns(), served, err });
                    if failed {
                        break;
                    }
                }
                Err((m, e)) => {
                    let msg = first_error(&m).map(|x| x.1).unwrap_or(format!("{:?}", e));
                    out.push(Obs { pool: pool.clone(), qid, t_send, t_done: now_ns(), served: None, err: Some(msg) });
                    break;
                }
            }
            std::thread::sleep(std::time::Duration::from_micros(500 + rng.below(4000)));
        }
    }
    out
}

/// Statements whose routing depends on the pool's router settings; returns (probe, answering mock or error).
fn probes(c: &mut Conn, id: &str, variant: &str) -> Vec<(String, String)> {
    let mut out = vec![];
    let n = if variant == "sharding_changed" { 6 } else { 3 };
    for k in 0..n {
        let name = if variant == "sharding_changed" {
            let set = format!("SET SHARDING KEY TO '{}'", k);
            if let Err((m, e)) = c.query(&set, 5000) {
                out.push((set, format!("error: {:?} {}", e, summarize(&m))));
                break;
            }
            format!("SET SHARDING KEY TO '{}'; SELECT", k)
        } else {
            "SELECT (read, no explicit role)".to_string()
        };
        let qid = format!("{}.p{}", id, k);
        match c.query(&format!("SELECT 1 {}", tag(id, &qid, "rows=1")), 8000) {
            Ok(m) => {
                let who = match first_error(&m) {
                    Some(e) => format!("error: {}", e.1),
                    None => row_idents(&m).first().map(|x| x.0.clone()).unwrap_or("no row".into()),
                };
                out.push((name, who));
            }
            Err((m, e)) => {
                out.push((name, format!("error: {:?} {}", e, summarize(&m))));
                break;
            }
        }
    }
    out
}

fn scenario(seed: u64, variant: &str, trigger: &str, rep: &Report) -> Result<(), String> {
    let mut rng = Rng::new(seed);
    let mut cell = Cell::new();
    let a1 = cell.add_mock("pa.g1");
    let b1 = cell.add_mock("pb.g1");
    let a2 = cell.add_mock("pa.g2");
    let c1 = cell.add_mock("pc.g1");
    // half the scenarios with client TLS configured in [general] (both the old and the new file)
    let tls = rng.chance(1, 2) && std::path::Path::new("/verif/fixtures/tls/cert.pem").exists();
    if tls {
        rep.count("scenarios_with_tls_configured", 1);
    }
    let mk = |cell: &Cell, pa_mock: usize, with_pb: bool, with_pc: bool, pa_size: u32, pa_mode: &str, ban_time: u32, autoreload: bool| -> Cfg {
        let mut cfg = Cfg::new();
        if tls {
            cfg.gset("tls_certificate", "\"/verif/fixtures/tls/cert.pem\"");
            cfg.gset("tls_private_key", "\"/verif/fixtures/tls/key.pem\"");
        }
        cfg.gset("ban_time", &ban_time.to_string());
        cfg.gset("connect_timeout", "2000");
        if autoreload {
            cfg.gset("autoreload", "100");
        }
        let mut pa = PoolCfg::single("pa", USER, PASS, pa_size, vec![cell.server(pa_mock, "primary")]);
        pa.set("pool_mode", &format!("\"{}\"", pa_mode));
        // a second user of the same pool section (its own connection pool inside the pooler)
        let mut u2 = crate::pgcat::UserCfg::new("u2", "pw2", 3);
        u2.key = "1".into();
        pa.users.push(u2);
        cfg.pools.push(pa);
        if with_pb {
            cfg.pools.push(PoolCfg::single("pb", USER, PASS, 3, vec![cell.server(b1, "primary")]));
        }
        if with_pc {
            cfg.pools.push(PoolCfg::single("pc", USER, PASS, 3, vec![cell.server(c1, "primary")]));
        }
        cfg
    };
    let auto = trigger == "autoreload";
    // the two variants that change what the query router is told about the pool (number of shards;
    // parser-based read/write splitting): `pa` keeps its name and user, a client that stays
    // connected across the reload must be routed exactly like one that connects afterwards
    let mk_routing = |cell: &Cell, new: bool| -> Cfg {
        let mut cfg = mk(cell, a1, true, false, 3, "transaction", 60, auto);
        if variant == "sharding_changed" {
            if new {
                cfg.pools[0].shards.push(crate::pgcat::ShardCfg { id: "1".into(), database: "db1".into(), servers: vec![cell.server(a2, "primary")], mirrors: vec![] });
            }
        } else if variant == "roles_swapped" {
            // the failover edit: nothing but the roles of the two servers changes
            cfg.pools[0].shards[0].servers = vec![cell.server(a1, if new { "replica" } else { "primary" }), cell.server(a2, if new { "primary" } else { "replica" })];
            cfg.pools[0].set("default_role", "\"primary\"");
        } else {
            cfg.pools[0].shards[0].servers.push(cell.server(a2, "replica"));
            cfg.pools[0].set("default_role", "\"primary\"");
            if new {
                cfg.pools[0].set("query_parser_enabled", "true");
                cfg.pools[0].set("query_parser_read_write_splitting", "true");
                cfg.pools[0].set("primary_reads_enabled", "false");
            }
        }
        cfg
    };
    let router_variant = variant == "sharding_changed" || variant == "routing_changed" || variant == "roles_swapped";
    let old = if router_variant { mk_routing(&cell, false) } else { mk(&cell, a1, true, false, 3, "transaction", 60, auto) };
    cell.start_pgcat(&old, &StartOpts::default()).map_err(|e| format!("start: {:?}", e))?;
    let port = cell.pg().port;
    let old_toml = old.to_toml(port);
    let new_toml: String = match variant {
        "unchanged" => old_toml.clone(),
        "general_only" => mk(&cell, a1, true, false, 3, "transaction", 77, auto).to_toml(port),
        "servers_changed" => mk(&cell, a2, true, false, 3, "transaction", 60, auto).to_toml(port),
        "pool_added" => mk(&cell, a1, true, true, 3, "transaction", 60, auto).to_toml(port),
        "pool_removed" => mk(&cell, a1, false, false, 3, "transaction", 60, auto).to_toml(port),
        "user_changed" => mk(&cell, a1, true, false, 5, "transaction", 60, auto).to_toml(port),
        "mode_changed" => mk(&cell, a1, true, false, 3, "session", 60, auto).to_toml(port),
        "sharding_changed" | "routing_changed" | "roles_swapped" => mk_routing(&cell, true).to_toml(port),
        "invalid_syntax" => format!("{}\n[pools.pa\nthis is = not toml", old_toml),
        "invalid_default_role" => mk(&cell, a2, true, false, 3, "transaction", 60, auto).to_toml(port).replacen("default_role = \"any\"", "default_role = \"bogus\"", 1),
        // one past the last shard: pa has exactly one shard (shard_0)
        "invalid_default_shard" => mk(&cell, a2, true, false, 3, "transaction", 60, auto).to_toml(port).replacen("default_role = \"any\"", "default_role = \"any\"\ndefault_shard = \"shard_1\"", 1),
        "invalid_two_primaries" => {
            let t = mk(&cell, a2, true, false, 3, "transaction", 60, auto).to_toml(port);
            let s = cell.server(a2, "primary");
            t.replacen(&format!("[\"{}\", {}, \"primary\"]", s.host, s.port), &format!("[\"{}\", {}, \"primary\"], [\"{}\", {}, \"primary\"]", s.host, s.port, cell.mocks[c1].host(), cell.mocks[c1].port), 1)
        }
        "invalid_min_pool_size" => mk(&cell, a2, true, false, 3, "transaction", 60, auto).to_toml(port).replacen("pool_size = 3", "pool_size = 3\nmin_pool_size = 9", 1),
        _ => unreachable!(),
    };
    let invalid = variant.starts_with("invalid");
    let addr = cell.addr();
    let stop = Arc::new(AtomicBool::new(false));
    let mut hs = vec![];
    for (i, pool) in ["pa", "pa", "pb", "pb"].iter().enumerate() {
        let (a, p, s) = (addr.clone(), pool.to_string(), stop.clone());
        let sd = rng.next();
        hs.push(std::thread::spawn(move || looper(a, p, format!("l{}", i), s, sd)));
    }
    {
        let (a, s) = (addr.clone(), stop.clone());
        let sd = rng.next();
        hs.push(std::thread::spawn(move || looper_as(a, "pa".into(), "u2".into(), "pw2".into(), "l4".into(), s, sd)));
    }
    // straddlers: a transaction in progress across the reload, one per pool
    let release = Arc::new(AtomicU64::new(0));
    let in_txn = Arc::new(AtomicU64::new(0));
    let mut straddlers = vec![];
    for pool in ["pa", "pb"] {
        let a = addr.clone();
        let rel = release.clone();
        let in_txn = in_txn.clone();
        let pool = pool.to_string();
        straddlers.push(std::thread::spawn(move || -> Result<(), String> {
            let id = format!("s{}", pool);
            let mut c = Conn::connect(&a, &StartupOpts::new(USER, &pool, PASS).app(&id)).map_err(|e| e.to_string())?;
            let r = c.query(&format!("BEGIN {}", tag(&id, &format!("{}.q1", id), "")), 5000).map_err(|e| format!("{:?}", e.1))?;
            if first_error(&r).is_some() {
                return Err(format!("BEGIN: {}", summarize(&r)));
            }
            let r = c.query(&format!("SELECT 1 {}", tag(&id, &format!("{}.q2", id), "rows=1")), 5000).map_err(|e| format!("{:?}", e.1))?;
            let sid0 = row_idents(&r).first().map(|x| (x.0.clone(), x.1));
            in_txn.fetch_add(1, Ordering::SeqCst);
            while rel.load(Ordering::SeqCst) == 0 {
                sleep_ms(2);
            }
            let r = c.query(&format!("SELECT 1 {}", tag(&id, &format!("{}.q3", id), "rows=1")), 8000).map_err(|(m, e)| format!("statement after reload: {:?} {}", e, summarize(&m)))?;
            if let Some((_, msg)) = first_error(&r) {
                return Err(format!("statement after reload failed: {}", msg));
            }
            let sid1 = row_idents(&r).first().map(|x| (x.0.clone(), x.1));
            if sid0 != sid1 {
                return Err(format!("transaction moved from {:?} to {:?}", sid0, sid1));
            }
            let r = c.query(&format!("COMMIT {}", tag(&id, &format!("{}.q4", id), "")), 8000).map_err(|(m, e)| format!("COMMIT: {:?} {}", e, summarize(&m)))?;
            if first_error(&r).is_some() {
                return Err(format!("COMMIT: {}", summarize(&r)));
            }
            c.terminate();
            Ok(())
        }));
    }
    // survivor: connected (and served once) before the reload, idle while it happens; its first
    // transactions afterwards are compared with those of a client that connects after the reload
    let survivor = if router_variant {
        let a = addr.clone();
        let rel = release.clone();
        let v = variant.to_string();
        Some(std::thread::spawn(move || -> Result<Vec<(String, String)>, String> {
            let mut c = Conn::connect(&a, &StartupOpts::new(USER, "pa", PASS).app("sv")).map_err(|e| e.to_string())?;
            let r = c.query(&format!("SELECT 1 {}", tag("sv", "sv.q0", "rows=1")), 5000).map_err(|e| format!("{:?}", e.1))?;
            if first_error(&r).is_some() {
                return Err(format!("survivor's first statement: {}", summarize(&r)));
            }
            while rel.load(Ordering::SeqCst) == 0 {
                sleep_ms(2);
            }
            let out = probes(&mut c, "sv", &v);
            c.terminate();
            Ok(out)
        }))
    } else {
        None
    };
    sleep_ms(150);
    // (on a busy machine the straddlers may need longer than that to get going: the reload must
    // find their transactions open, otherwise their BEGIN meets the new configuration)
    let t_wait = now_ns() + 10_000_000_000;
    while in_txn.load(Ordering::SeqCst) < 2 && now_ns() < t_wait {
        sleep_ms(5);
    }
    if in_txn.load(Ordering::SeqCst) < 2 {
        release.store(1, Ordering::SeqCst);
        return Err("the straddling transactions did not start within 10 s".into());
    }
    let mut adm = cell.pg().admin().map_err(|e| format!("admin: {}", e))?;
    let norm = |rows: Vec<BTreeMap<String, String>>| -> Vec<String> {
        let mut v: Vec<String> = rows
            .into_iter()
            .map(|r| {
                ["name", "host", "port", "database", "force_user", "pool_size", "pool_mode", "key", "value"]
                    .iter()
                    .filter_map(|k| r.get(*k).map(|x| format!("{}={}", k, x)))
                    .collect::<Vec<_>>()
                    .join(",")
            })
            .collect();
        v.sort();
        v
    };
    let db_before = norm(admin_rows(&mut adm, "SHOW DATABASES")?);
    let cfg_before = norm(admin_rows(&mut adm, "SHOW CONFIG")?);
    // ---- reload
    let n_log0 = cell.log.len();
    let ev0 = cell.pg().events().len();
    let t_start = now_ns();
    cell.pg().rewrite_config(&new_toml);
    // (the harness thread may be descheduled between t_start and the write on a busy machine:
    // autoreload ticks are anchored on the moment the new file was completely in place)
    let t_written = now_ns();
    let t_after: u64;
    match trigger {
        "admin_reload" => {
            let r = adm.query("RELOAD", 10_000);
            match r {
                Ok(m) => {
                    if invalid && first_error(&m).is_none() && crate::proto::type_string(&m).starts_with('C') {
                        rep.violation(&format!("C14|invalid_config_accepted_by_reload|variant={}", variant), &format!("RELOAD with an invalid file ({}) answered {}", variant, summarize(&m)), json!({"seed": seed}));
                    }
                }
                Err(_) => {
                    // pgcat drops the admin connection when the reload fails
                    if !invalid {
                        rep.violation(&format!("C14|valid_config_rejected_by_reload|variant={}", variant), &format!("RELOAD with a valid file ({}) failed", variant), json!({"seed": seed, "log": cell.pg().log_tail(8)}));
                    }
                    adm = cell.pg().admin().map_err(|e| format!("admin reconnect: {}", e))?;
                }
            }
            t_after = now_ns();
        }
        _ => {
            if trigger == "sighup" {
                cell.pg().signal(libc::SIGHUP);
            }
            // wait for the reload to finish: a `reload.stored` hook event emitted AFTER the new file
            // was in place (an autoreload tick that read the old file may still be finishing), then
            // the `reload.end` that follows it; for invalid files the error log line
            let log_from = cell.pg().log_len().saturating_sub(1);
            let deadline = now_ns() + 8_000_000_000;
            loop {
                let evs = cell.pg().events();
                // an autoreload tick may have READ the old file just before the rewrite and store it
                // afterwards: only the second store after the rewrite is certain to be the new file
                let need = if trigger == "autoreload" { 2 } else { 1 };
                let stored: Vec<u64> = evs.iter().filter(|e| e.1 == "reload.stored" && e.0 > t_written).map(|e| e.0).collect();
                if stored.len() >= need {
                    let ts = stored[need - 1];
                    if evs.iter().any(|e| e.1 == "reload.end" && e.0 >= ts) {
                        break;
                    }
                }
                if invalid && cell.pg().wait_log("Config reload error", log_from, 1).is_some() {
                    break;
                }
                if now_ns() > deadline {
                    return Err(format!("reload ({}, {}) never finished; events {:?}; log tail: {}", trigger, variant, cell.pg().events().iter().map(|e| e.1.clone()).filter(|k| k.starts_with("reload")).collect::<Vec<_>>(), cell.pg().log_tail(4)));
                }
                sleep_ms(5);
            }
            if variant == "unchanged" {
                // autoreload of an unchanged file reports changed=false; nothing else to wait for
            }
            t_after = now_ns();
        }
    }
    rep.count(&format!("reloads_{}", trigger), 1);
    rep.count(&format!("variant_{}", variant), 1);
    sleep_ms(30);
    release.store(1, Ordering::SeqCst);
    let mut straddle_err = vec![];
    for s in straddlers {
        match s.join().map_err(|_| "straddler panicked".to_string())? {
            Ok(()) => rep.count("transactions_straddling_a_reload_ok", 1),
            Err(e) => straddle_err.push(e),
        }
    }
    for e in straddle_err {
        rep.violation(&format!("C14|transaction_in_progress_broken_by_reload|variant={}|trigger={}", variant, trigger), &format!("a transaction in progress across the reload ({}, {}) was broken: {}", variant, trigger, e), json!({"seed": seed, "log": cell.pg().log_tail(8)}));
    }
    if let Some(h) = survivor {
        let sv = h.join().map_err(|_| "survivor panicked".to_string())??;
        let mut c = Conn::connect(&addr, &StartupOpts::new(USER, "pa", PASS).app("fr")).map_err(|e| format!("fresh client: {}", e))?;
        let fr = probes(&mut c, "fr", variant);
        c.terminate();
        let labels: std::collections::BTreeSet<&String> = fr.iter().map(|x| &x.1).collect();
        if variant == "sharding_changed" && labels.len() < 2 {
            rep.inconclusive(&format!("sharding_changed: the fresh client's probes reached only {:?}", labels));
        }
        for (a, b) in sv.iter().zip(fr.iter()) {
            rep.count("survivor_probes_compared_with_fresh_client", 1);
            if a.1 != b.1 {
                rep.violation(
                    &format!("C14|surviving_client_routed_by_old_pool_settings_after_reload|variant={}|trigger={}", variant, trigger),
                    &format!("after the reload ({}, {}) finished, probe `{}` of a client that was connected before the reload was answered by {}, the same probe of a client connected afterwards by {}", variant, trigger, a.0, a.1, b.1),
                    json!({"seed": seed, "survivor": sv, "fresh": fr}),
                );
                break;
            }
        }
    }
    // a fresh client of the added pool
    let mut pc_obs = vec![];
    if variant == "pool_added" {
        for k in 0..3 {
            let t = now_ns();
            match Conn::connect(&addr, &StartupOpts::new(USER, "pc", PASS).app("lc")) {
                Ok(mut c) => {
                    let qid = format!("lc.q{}", k);
                    let r = c.query(&format!("SELECT 1 {}", tag("lc", &qid, "rows=1")), 8000);
                    let (served, err) = match r {
                        Ok(m) => (row_idents(&m).first().map(|x| x.0.clone()), first_error(&m).map(|e| e.1)),
                        Err((_, e)) => (None, Some(format!("{:?}", e))),
                    };
                    pc_obs.push(Obs { pool: "pc".into(), qid, t_send: t, t_done: now_ns(), served, err });
                    c.terminate();
                }
                Err(e) => pc_obs.push(Obs { pool: "pc".into(), qid: format!("lc.connect{}", k), t_send: t, t_done: now_ns(), served: None, err: Some(e.to_string()) }),
            }
        }
    }
    sleep_ms(200);
    let t_end = now_ns();
    stop.store(true, Ordering::SeqCst);
    let mut obs: Vec<Obs> = pc_obs;
    for h in hs {
        obs.extend(h.join().map_err(|_| "looper panicked".to_string())?);
    }
    // ---- judgement
    let expected_after = |pool: &str| -> Result<&'static str, &'static str> {
        if invalid {
            return Ok(match pool { "pa" => "pa.g1", "pb" => "pb.g1", _ => "none" });
        }
        match (variant, pool) {
            ("servers_changed", "pa") => Ok("pa.g2"),
            ("routing_changed", "pa") => Ok("pa.g2"),
            ("roles_swapped", "pa") => Ok("pa.g2"),
            ("pool_removed", "pb") => Err("No pool configured"),
            (_, "pa") => Ok("pa.g1"),
            (_, "pb") => Ok("pb.g1"),
            ("pool_added", "pc") => Ok("pc.g1"),
            _ => Err("No pool configured"),
        }
    };
    let mut judged_after = 0;
    for o in &obs {
        rep.count("transactions_observed", 1);
        if o.t_send > t_after {
            judged_after += 1;
            rep.count("transactions_started_after_reload", 1);
            match expected_after(&o.pool) {
                Ok(label) => {
                    if let Some(e) = &o.err {
                        rep.violation(&format!("C14|transaction_failed_after_reload|variant={}|pool={}|trigger={}", variant, o.pool, trigger), &format!("{} (pool {}) started after the reload ({}) and failed: {}", o.qid, o.pool, variant, e), json!({"seed": seed, "log": cell.pg().log_tail(8)}));
                    } else if o.served.as_deref() != Some(label) {
                        rep.violation(&format!("C14|served_under_wrong_definition_after_reload|variant={}|pool={}|trigger={}", variant, o.pool, trigger), &format!("{} (pool {}) started {} ms after the reload ({}) finished and was served by {:?}, expected {}", o.qid, o.pool, (o.t_send - t_after) / 1_000_000, variant, o.served, label), json!({"seed": seed}));
                    }
                }
                Err(msg) => {
                    if o.served.is_some() || !o.err.as_deref().unwrap_or("").contains(msg) {
                        rep.violation(&format!("C14|removed_pool_still_served_or_wrong_error|variant={}|trigger={}", variant, trigger), &format!("{} (removed pool {}) after the reload: served by {:?}, error {:?}", o.qid, o.pool, o.served, o.err), json!({"seed": seed}));
                    } else {
                        rep.count("removed_pool_clients_got_error", 1);
                    }
                }
            }
        } else if o.t_done < t_start {
            // before the reload: old definition, must work
            if o.err.is_some() || o.served.as_deref() != Some(if o.pool == "pa" { "pa.g1" } else { "pb.g1" }) {
                rep.violation(&format!("C14|transaction_failed_before_reload|pool={}", o.pool), &format!("{} before any reload: served {:?} err {:?}", o.qid, o.served, o.err), json!({"seed": seed}));
            }
        } else if let Some(e) = &o.err {
            // straddling the reload window: must not be broken, unless its pool is being removed
            let removed = expected_after(&o.pool).is_err();
            if !removed {
                rep.violation(&format!("C14|transaction_failed_during_reload|variant={}|pool={}|trigger={}", variant, o.pool, trigger), &format!("{} (pool {}) ran while the reload ({}) was being applied and failed: {}", o.qid, o.pool, variant, e), json!({"seed": seed, "log": cell.pg().log_tail(8)}));
            }
        }
    }
    if judged_after == 0 {
        rep.inconclusive("no transaction started after the reload");
    }
    // unchanged pools keep their server connections: no session of their mocks closes in the window
    let unchanged_mocks: Vec<usize> = if invalid || variant == "unchanged" || variant == "general_only" {
        vec![a1, b1]
    } else {
        match variant {
            "pool_removed" => vec![a1],
            "pool_added" => vec![a1, b1],
            _ => vec![b1],
        }
    };
    for e in cell.log.since(n_log0) {
        if e.t > t_end {
            break;
        }
        match &e.ev {
            Ev::MockClose { b, sid, how } if unchanged_mocks.contains(b) => {
                rep.violation(
                    &format!("C14|unchanged_pool_lost_a_server_connection|variant={}|trigger={}", variant, trigger),
                    &format!("server session {} sid={} of an unchanged pool was closed ({}) {} ms after the reload ({}) began", cell.mocks[*b].label, sid, how, (e.t.saturating_sub(t_start)) / 1_000_000, variant),
                    json!({"seed": seed}),
                );
            }
            Ev::MockOpen { b, .. } if invalid && (*b == a2 || *b == c1) => {
                rep.violation(&format!("C14|invalid_config_opened_connections|variant={}", variant), &format!("a connection to {} (only named in the invalid file) was opened", cell.mocks[*b].label), json!({"seed": seed}));
            }
            _ => {}
        }
    }
    rep.count("unchanged_pool_session_sets_checked", unchanged_mocks.len() as u64);
    if invalid {
        let db_after = norm(admin_rows(&mut adm, "SHOW DATABASES")?);
        let cfg_after = norm(admin_rows(&mut adm, "SHOW CONFIG")?);
        if db_after != db_before || cfg_after != cfg_before {
            let diff: Vec<&String> = cfg_after.iter().filter(|l| !cfg_before.contains(l)).chain(db_after.iter().filter(|l| !db_before.contains(l))).take(5).collect();
            rep.violation(&format!("C14|invalid_config_changed_visible_configuration|variant={}|trigger={}", variant, trigger), &format!("after a reload with an invalid file ({}) SHOW CONFIG / SHOW DATABASES differ: {:?}", variant, diff), json!({"seed": seed}));
        } else {
            rep.count("invalid_reloads_changed_nothing", 1);
        }
    }
    rep.distinct_str(&format!("{}|{}", variant, trigger));
    let _ = admin_query(&mut adm, "SHOW VERSION");
    Ok(())
}

pub fn run(tier: &str) -> i32 {
    let rep = Report::new(
        "C14",
        tier,
        "exploration",
        "scenario = old/new config pair from {unchanged, general-only change, servers changed, pool added, pool removed, user changed, mode changed, shard count changed, parser/read-write-splitting flags changed, only the roles of two servers swapped, syntactically invalid, 4 semantically invalid} x trigger {admin RELOAD, SIGHUP, autoreload} with looping clients on every pool (two users on one of them), a transaction straddling the reload per pool and a late client of the added pool; each pool generation has its own labelled mocks; oracle = label of the mock serving each tagged statement relative to the reload's end (RELOAD reply / reload.end hook event), session close events of unchanged pools, SHOW CONFIG / SHOW DATABASES before/after for invalid files; distinct = (variant, trigger) pairs",
    );
    rep.assume("validate_config = false in generated files (a valid file naming unreachable servers is outside the property)");
    let thorough = rep.thorough();
    let reps = if thorough { 60 } else { 6 };
    let mut jobs = vec![];
    let mut rng = Rng::new(rep.seed ^ 0xC14);
    for _ in 0..reps {
        for v in VARIANTS {
            for t in TRIGGERS {
                jobs.push((rng.next(), v.to_string(), t.to_string()));
            }
        }
    }
    run_parallel(jobs.len(), workers(), |i| {
        rep.eval(1);
        if let Err(e) = scenario(jobs[i].0, &jobs[i].1, &jobs[i].2, &rep) {
            rep.inconclusive(&format!("{}/{}: {}", jobs[i].1, jobs[i].2, e));
        }
    });
    rep.sample(json!({"variant": jobs[0].1, "trigger": jobs[0].2}));
    rep.finish(&[("transactions_started_after_reload", 500), ("transactions_straddling_a_reload_ok", 40), ("invalid_reloads_changed_nothing", 10)])
}
