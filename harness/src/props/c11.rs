//! C11 — malformed or hostile client bytes hurt only the sender.

use super::c02::dirty_components;
use super::c04::capacity_probe;
use super::common::*;
use crate::cell::{run_parallel, workers, Cell};
use crate::evlog::Ev;
use crate::pgcat::{admin_query, Cfg, PoolCfg, StartOpts, ADMIN_PASS, ADMIN_USER};
use crate::proto::{self, Msg};
use crate::report::Report;
use crate::sql::tag;
use crate::util::{sleep_ms, Rng};
use crate::wire::{row_idents, summarize, Conn, StartupOpts};
use serde_json::json;
use std::io::Write;

const STATES: &[&str] = &["pre_startup", "mid_auth", "idle", "in_transaction", "mid_batch", "in_copy", "admin_console"];

const FRAME_MUTATIONS: &[&str] = &[
    "len_0", "len_3", "len_4_unknown_type", "len_negative", "len_gt_body_then_close", "len_lt_body", "len_64mib_then_close",
    "unknown_type", "parse_no_terminators", "parse_negative_param_count", "parse_huge_param_count", "bind_no_terminators",
    "bind_negative_counts", "bind_param_len_beyond_frame", "bind_huge_param_count", "describe_empty", "describe_no_terminator",
    "close_empty", "close_no_terminator", "query_no_terminator", "query_embedded_nul", "query_empty_body", "execute_empty",
    "execute_no_terminator", "execute_without_bind", "bind_without_parse", "sync_only", "copydata_outside_copy", "copydone_outside_copy", "copyfail_outside_copy", "bind_after_refused_named_parse",
    "password_message", "flush_only", "function_call", "random_garbage", "terminate_with_body", "many_syncs", "custom_command_huge_number",
    "query_answered_with_non_utf8_error", "parse_answered_with_non_utf8_error", "short_length_then_sync", "cached_and_new_parse_then_reset",
];

thread_local! {
    /// statement text of the current case: hostile Parse mutations use it, and the canary prepares it
    /// (properly, with no parameters) right afterwards
    static SHARED_TEXT: std::cell::RefCell<String> = std::cell::RefCell::new("SELECT 2 /*v q=shared.prepared rows=1 */".to_string());
}
fn shared_text() -> String {
    SHARED_TEXT.with(|t| t.borrow().clone())
}

const STARTUP_MUTATIONS: &[&str] = &[
    "len_0", "len_4", "len_7", "len_8_unknown_code", "len_negative", "len_huge_then_close", "unknown_code", "ssl_request_twice",
    "no_user_param", "odd_param_count", "no_terminator", "random_garbage", "cancel_request_short", "protocol_2",
];

fn frame(typ: u8, len: i32, body: &[u8]) -> Vec<u8> {
    let mut v = vec![typ];
    v.extend_from_slice(&len.to_be_bytes());
    v.extend_from_slice(body);
    v
}

fn hostile_frames(rng: &mut Rng, m: &str) -> Vec<u8> {
    let cs = |s: &str| {
        let mut v = s.as_bytes().to_vec();
        v.push(0);
        v
    };
    match m {
        "len_0" => frame(b'Q', 0, &[]),
        "len_3" => frame(b'Q', 3, &[]),
        "len_4_unknown_type" => frame(b'~', 4, &[]),
        // a length below 4 on a message type the pooler passes on without looking inside, then Sync
        "short_length_then_sync" => {
            let mut v = frame(*rng.pick(&[b'E', b'P', b'B', b'D', b'd', b'c', b'H']), rng.below(4) as i32, &[]);
            v.extend(proto::sync());
            v
        }
        "len_negative" => frame(*rng.pick(&[b'Q', b'P', b'B', b'X', b'S']), -(rng.range(1, 100000) as i32), &[]),
        "len_gt_body_then_close" => frame(b'Q', 5000, b"select 1"),
        "len_lt_body" => {
            let mut v = frame(b'Q', 8, b"sel\0");
            // the bytes beyond the declared length are parsed as the next message: keep that
            // accidental header small (declared lengths above 64 MiB are out of scope, see DESIGN)
            v.extend_from_slice(&[b'y', 0, 0, 0, 8, b'a', b'b', b'c', b'd']);
            v
        }
        "len_64mib_then_close" => frame(*rng.pick(&[b'Q', b'P', b'd']), 64 << 20, b"x"),
        "unknown_type" => Msg::new(*rng.pick(&[b'~', b'!', 0u8, 0xff, b'z', b'T', b'Z', b'1']), vec![1, 2, 3, 0]).encode(),
        "parse_no_terminators" => Msg::new(b'P', b"stmt select 1".to_vec()).encode(),
        // (the statement text is the one the well-behaved canary prepares too: a malformed
        // statement must not get in the way of the same text sent properly by somebody else)
        "parse_negative_param_count" => {
            let mut b = cs("s");
            b.extend(cs(&shared_text()));
            b.extend_from_slice(&(-(rng.range(1, 5) as i16)).to_be_bytes());
            let mut v = Msg::new(b'P', b).encode();
            v.extend(proto::sync());
            v
        }
        "parse_huge_param_count" => {
            let mut b = cs("s");
            b.extend(cs(&shared_text()));
            b.extend_from_slice(&(30000i16).to_be_bytes());
            let mut v = Msg::new(b'P', b).encode();
            v.extend(proto::sync());
            v
        }
        "bind_no_terminators" => Msg::new(b'B', b"portal stmt".to_vec()).encode(),
        "bind_negative_counts" => {
            let mut b = cs("");
            b.extend(cs(""));
            b.extend_from_slice(&(-1i16).to_be_bytes());
            b.extend_from_slice(&(-1i16).to_be_bytes());
            b.extend_from_slice(&(-1i16).to_be_bytes());
            Msg::new(b'B', b).encode()
        }
        "bind_param_len_beyond_frame" => {
            let mut b = cs("");
            b.extend(cs(""));
            b.extend_from_slice(&0i16.to_be_bytes());
            b.extend_from_slice(&1i16.to_be_bytes());
            b.extend_from_slice(&(1_000_000i32).to_be_bytes());
            b.extend_from_slice(b"abc");
            Msg::new(b'B', b).encode()
        }
        "bind_huge_param_count" => {
            let mut b = cs("");
            b.extend(cs(""));
            b.extend_from_slice(&(32000i16).to_be_bytes());
            Msg::new(b'B', b).encode()
        }
        "describe_empty" => Msg::new(b'D', vec![]).encode(),
        "describe_no_terminator" => Msg::new(b'D', b"Sname".to_vec()).encode(),
        "close_empty" => Msg::new(b'C', vec![]).encode(),
        "close_no_terminator" => Msg::new(b'C', b"Sname".to_vec()).encode(),
        "query_no_terminator" => Msg::new(b'Q', b"select 1".to_vec()).encode(),
        "query_embedded_nul" => Msg::new(b'Q', b"select\01\0; drop\0".to_vec()).encode(),
        "query_empty_body" => Msg::new(b'Q', vec![]).encode(),
        "execute_empty" => Msg::new(b'E', vec![]).encode(),
        "execute_no_terminator" => Msg::new(b'E', b"portal".to_vec()).encode(),
        "execute_without_bind" => {
            let mut v = proto::execute("nosuch", 0);
            v.extend(proto::sync());
            v
        }
        "bind_without_parse" => {
            let mut v = proto::bind("", "nosuch", &[], &[], &[]);
            v.extend(proto::sync());
            v
        }
        "sync_only" | "cached_and_new_parse_then_reset" => proto::sync(),
        "copydata_outside_copy" => proto::copy_data(b"1\t2\n"),
        "copydone_outside_copy" => proto::copy_done(),
        "copyfail_outside_copy" => proto::copy_fail("stray"),
        "bind_after_refused_named_parse" => {
            // a named Parse the server refuses, then Bind/Execute by that name in a later batch
            let name = format!("bad{}", rng.below(1000));
            let mut b = proto::parse(&name, &format!("SELECT 1 {}", tag("hostile", &format!("h.perr.{}", rng.below(100000)), "perr")), &[]);
            b.extend(proto::sync());
            b.extend(proto::bind("", &name, &[], &[], &[]));
            b.extend(proto::execute("", 0));
            b.extend(proto::sync());
            b
        }
        "password_message" => proto::password_message(b"md5abcdef\0"),
        "flush_only" => proto::flush(),
        "function_call" => Msg::new(b'F', vec![0, 0, 0, 1, 0, 0, 0, 0, 0, 0]).encode(),
        "random_garbage" => {
            // random type byte and body; the accidental length field is kept below 64 KiB
            let mut v: Vec<u8> = (0..rng.range(6, 300)).map(|_| rng.next() as u8).collect();
            v[1] = 0;
            v[2] = 0;
            v
        }
        "terminate_with_body" => Msg::new(b'X', b"junk".to_vec()).encode(),
        "many_syncs" => proto::sync().repeat(200),
        "query_answered_with_non_utf8_error" => proto::query(&format!("SELECT * FROM t {}", tag("hostile", &format!("h.raw{}", rng.below(1000)), "errraw"))),
        "parse_answered_with_non_utf8_error" => {
            let mut v = proto::parse("", &format!("SELECT * FROM t {}", tag("hostile", &format!("h.rawp{}", rng.below(1000)), "errraw")), &[]);
            v.extend(proto::bind("", "", &[], &[], &[]));
            v.extend(proto::execute("", 0));
            v.extend(proto::sync());
            v
        }
        "custom_command_huge_number" => proto::query(&format!("SET SHARDING KEY TO '{}'", "9".repeat(rng.range(19, 60) as usize))),
        _ => vec![],
    }
}

fn hostile_startup(rng: &mut Rng, m: &str) -> Vec<u8> {
    let be = |n: i32| n.to_be_bytes().to_vec();
    match m {
        "len_0" => be(0),
        "len_4" => be(4),
        "len_7" => {
            let mut v = be(7);
            v.extend_from_slice(&[0, 3, 0]);
            v
        }
        "len_8_unknown_code" => {
            let mut v = be(8);
            v.extend(be(12345));
            v
        }
        "len_negative" => be(-(rng.range(1, 1 << 30) as i32)),
        "len_huge_then_close" => {
            let mut v = be(64 << 20);
            v.extend(be(196608));
            v
        }
        "unknown_code" => {
            let mut v = be(12);
            v.extend(be(rng.next() as i32));
            v.extend(be(0));
            v
        }
        "ssl_request_twice" => {
            let mut v = proto::ssl_request();
            v.extend(proto::ssl_request());
            v
        }
        "no_user_param" => proto::startup_message(&[("database".into(), "db".into())]),
        "odd_param_count" => {
            let mut body = be(196608);
            body.extend_from_slice(b"user\0u1\0database\0");
            body.push(0);
            let mut v = be(body.len() as i32 + 4);
            v.extend(body);
            v
        }
        "no_terminator" => {
            let mut body = be(196608);
            body.extend_from_slice(b"user\0u1");
            let mut v = be(body.len() as i32 + 4);
            v.extend(body);
            v
        }
        "random_garbage" => (0..rng.range(1, 200)).map(|_| rng.next() as u8).collect(),
        "cancel_request_short" => {
            let mut v = be(12);
            v.extend(be(80877102));
            v.extend(be(1));
            v
        }
        "protocol_2" => {
            let mut v = be(12);
            v.extend(be(131072));
            v.extend(be(0));
            v
        }
        _ => vec![],
    }
}

fn build_with(cache: bool, parser: bool) -> Result<Cell, String> {
    let mut cell = Cell::new();
    let a = cell.add_mock("db.s0.primary.0");
    let b = cell.add_mock("db2.s0.primary.0");
    let mut cfg = Cfg::new();
    cfg.pools.push(PoolCfg::single("db", USER, PASS, 1, vec![cell.server(a, "primary")]));
    cfg.pools.push(PoolCfg::single("db2", USER, PASS, 1, vec![cell.server(b, "primary")]));
    cfg.gset("connect_timeout", "1500");
    if cache {
        cfg.pools[0].set("prepared_statements_cache_size", "8");
    }
    if parser {
        // the pooler's own SQL parser sees every Query / Parse body (more decoding of client bytes)
        cfg.pools[0].set("query_parser_enabled", "true");
        cfg.pools[0].set("query_parser_read_write_splitting", "true");
    }
    cell.start_pgcat(&cfg, &StartOpts::default()).map_err(|e| format!("start: {:?}", e))?;
    Ok(cell)
}

fn canary(cell: &Cell, pool: &str, id: &str, n: u64) -> Result<(), String> {
    let mut c = Conn::connect(&cell.addr(), &StartupOpts::new(USER, pool, PASS).app("app")).map_err(|e| format!("connect: {}", e))?;
    let qid = format!("{}.q{}", id, n);
    let r = c.query(&format!("SELECT 1 {}", tag(id, &qid, "rows=2 snap")), 10_000).map_err(|(m, e)| format!("no reply: {:?} after {}", e, summarize(&m)))?;
    let ids = row_idents(&r);
    if proto::type_string(&r) != "TDDCZ" || ids.len() != 2 || ids.iter().any(|x| x.2 != qid) || r.last().map(|z| z.body.first().copied()) != Some(Some(b'I')) {
        return Err(format!("wrong reply: {}", summarize(&r)));
    }
    // and a prepared statement with a fixed text, over the extended protocol
    let mut b = proto::parse("cs", &shared_text(), &[]);
    b.extend(proto::bind("", "cs", &[], &[], &[]));
    b.extend(proto::execute("", 0));
    b.extend(proto::sync());
    c.send(&b).map_err(|e| format!("no reply: send {}", e))?;
    let r = c.read_until_ready(10_000).map_err(|(m, e)| format!("no reply to the prepared statement: {:?} after {}", e, summarize(&m)))?;
    if proto::type_string(&r) != "12DCZ" || row_idents(&r).len() != 1 {
        return Err(format!("wrong reply to the prepared statement: {}", summarize(&r)));
    }
    c.terminate();
    Ok(())
}

fn batch(seed: u64, cases: usize, rep: &Report) -> Result<(), String> {
    let mut rng = Rng::new(seed);
    // half of the batches run with the statement cache on (other code paths in the pooler)
    let cache_on = seed % 2 == 0;
    // a third of them with the pooler's query parser on
    let parser_on = (seed >> 1) % 3 == 0;
    let build = || build_with(cache_on, parser_on);
    let mut cell = build()?;
    let mut n = 0u64;
    for ci in 0..cases {
        let mut state = *rng.pick(STATES);
        let mut mutation = if state == "pre_startup" { *rng.pick(STARTUP_MUTATIONS) } else { *rng.pick(FRAME_MUTATIONS) };
        if let Ok(only) = std::env::var("PGV_ONLY") {
            // debugging aid: PGV_ONLY=state,mutation
            let mut it = only.split(',');
            let (s, m) = (it.next().unwrap_or(""), it.next().unwrap_or(""));
            state = STATES.iter().find(|x| **x == s).copied().unwrap_or(state);
            mutation = FRAME_MUTATIONS.iter().chain(STARTUP_MUTATIONS.iter()).find(|x| **x == m).copied().unwrap_or(mutation);
        }
        SHARED_TEXT.with(|t| *t.borrow_mut() = format!("SELECT 2 /*v q=shared.prepared.{}.{} rows=1 */", seed % 100_000, ci));
        let case_name = format!("state={}|mutation={}", state, mutation);
        rep.eval(1);
        rep.distinct_str(&case_name);
        rep.set_add("state_x_mutation", &case_name);
        let n_log0 = cell.log.len();
        // ---- hostile client
        let addr = cell.addr();
        let mut run_hostile = || -> Result<(), String> {
            match state {
                "pre_startup" => {
                    let mut s = crate::wire::tcp_connect(&addr, 3000).map_err(|e| e.to_string())?;
                    let _ = s.write_all(&hostile_startup(&mut Rng::new(seed ^ ci as u64), mutation));
                    sleep_ms(15);
                    drop(s);
                }
                "mid_auth" => {
                    let mut c = Conn::raw(&addr).map_err(|e| e.to_string())?;
                    c.send(&proto::startup_message(&[("user".into(), USER.into()), ("database".into(), "db".into())])).map_err(|e| e.to_string())?;
                    let _ = c.read_msg(2000); // md5 challenge
                    let _ = c.send(&hostile_frames(&mut Rng::new(seed ^ ci as u64), mutation));
                    let _ = c.drain_to_eof(300);
                }
                "admin_console" => {
                    let mut c = Conn::connect(&addr, &StartupOpts::new(ADMIN_USER, "pgcat", ADMIN_PASS)).map_err(|e| e.to_string())?;
                    let _ = c.send(&hostile_frames(&mut Rng::new(seed ^ ci as u64), mutation));
                    let _ = c.drain_to_eof(300);
                }
                _ => {
                    let mut c = Conn::connect(&addr, &StartupOpts::new(USER, "db", PASS).app("app")).map_err(|e| e.to_string())?;
                    match state {
                        "in_transaction" => {
                            let _ = c.query(&format!("BEGIN {}", tag("hostile", &format!("h.{}.b", ci), "")), 3000);
                        }
                        "mid_batch" => {
                            let mut b = proto::parse("", &format!("SELECT 1 {}", tag("hostile", &format!("h.{}.p", ci), "")), &[]);
                            b.extend(proto::bind("", "", &[], &[], &[]));
                            let _ = c.send(&b);
                        }
                        "in_copy" => {
                            let _ = c.send(&proto::query(&format!("COPY t FROM STDIN {}", tag("hostile", &format!("h.{}.c", ci), ""))));
                            let _ = c.read_until_types(&[b'G', b'Z'], 3000);
                            let _ = c.send(&proto::copy_data(b"1\n"));
                        }
                        _ => {}
                    }
                    if mutation == "cached_and_new_parse_then_reset" {
                        // a batch the pooler answers partly by itself (a statement the server connection
                        // already has) and that prepares a new statement (the text the canary prepares
                        // next); the sender resets its connection without reading anything
                        let known = "SELECT 3 /*v q=hostile.known rows=1 */";
                        let mut b = proto::parse("hk", known, &[]);
                        b.extend(proto::sync());
                        let _ = c.send(&b);
                        let _ = c.read_until_ready(3000);
                        let mut b = proto::parse("hk2", known, &[]);
                        b.extend(proto::parse("hn", &shared_text(), &[]));
                        b.extend(proto::sync());
                        let _ = c.send(&b);
                        c.close_rst();
                        sleep_ms(40);
                        return Ok(());
                    }
                    let _ = c.send(&hostile_frames(&mut Rng::new(seed ^ ci as u64), mutation));
                    // a second pool must be unaffected while the hostile client is still connected
                    n += 1;
                    if let Err(e) = canary(&cell, "db2", "canary2", n) {
                        rep.violation(&format!("C11|other_pool_affected|{}", case_name), &format!("while a hostile client ({}) was connected to pool db, a well-behaved client of pool db2 failed: {}", case_name, e), json!({"seed": seed, "case": case_name}));
                    } else {
                        rep.count("canary_other_pool_ok", 1);
                    }
                    let _ = c.drain_to_eof(250);
                }
            }
            Ok(())
        };
        if let Err(e) = run_hostile() {
            if cell.pg().alive() {
                rep.inconclusive(&format!("{}: {}", case_name, e));
                continue;
            }
        }
        sleep_ms(30);
        // ---- judgement after the hostile connection is gone
        let wit = |cell: &mut Cell| json!({"seed": seed, "case": case_name, "panics": cell.pg().panics(), "log_tail": cell.pg().log_tail(6), "rss_kb": cell.pg().rss_kb()});
        if !cell.pg().alive() {
            rep.violation(&format!("C11|pooler_terminated|{}", case_name), &format!("pgcat exited after hostile input {}", case_name), wit(&mut cell));
            cell = build()?;
            continue;
        }
        n += 1;
        match canary(&cell, "db", "canary", n) {
            Ok(()) => rep.count("canary_transactions_ok", 1),
            Err(e) => {
                let effect = if e.starts_with("wrong reply") { "canary_got_wrong_reply" } else if e.starts_with("connect") { "pooler_not_accepting" } else { "canary_blocked" };
                rep.violation(&format!("C11|{}|{}", effect, case_name), &format!("after hostile input {} the well-behaved client sharing the pool failed: {}", case_name, e), wit(&mut cell));
                if std::env::var("PGV_DEBUG").is_ok() {
                    println!("{}", cell.pg().log_text());
                    let labels = cell.labels();
                    for e in cell.log.since(n_log0) {
                        println!("{}", crate::evlog::render_event(&e, &labels));
                    }
                }
                // do not let one poisoned state cascade into later cases
                cell = build()?;
                continue;
            }
        }
        // the canary must not have inherited a dirty server session
        for e in cell.log.since(n_log0) {
            if let Ev::Handover { next, state: st, prev, .. } = &e.ev {
                if next == "canary" {
                    if std::env::var("PGV_DEBUG").is_ok() && !dirty_components(st, cache_on).is_empty() {
                        println!("{}", cell.pg().log_text());
                        let labels = cell.labels();
                        for e in cell.log.since(n_log0) {
                            println!("{}", crate::evlog::render_event(&e, &labels));
                        }
                    }
                    for comp in dirty_components(st, cache_on) {
                        rep.violation(&format!("C11|canary_got_dirty_server_session|{}|dirty={}", case_name, comp), &format!("after hostile input {} the canary was given the server session last used by {} in state [{}]", case_name, prev, st.render()), wit(&mut cell));
                    }
                }
            }
        }
        if ci % 10 == 9 {
            match capacity_probe(&cell, 1, "transaction", 15_000) {
                Ok(()) => rep.count("capacity_probes_passed", 1),
                Err(e) => rep.violation(&format!("C11|server_connection_out_of_service|{}", case_name), &format!("after hostile inputs (last {}) the pool's capacity was not available: {}", case_name, e), wit(&mut cell)),
            }
            if let Ok(mut a) = cell.pg().admin() {
                if admin_query(&mut a, "SHOW VERSION").is_err() {
                    rep.violation(&format!("C11|admin_console_unusable|{}", case_name), "SHOW VERSION failed", wit(&mut cell));
                }
            }
        }
        if mutation.contains("64mib") || mutation.contains("huge") {
            rep.max("max_rss_kb_after_large_declared_length", cell.pg().rss_kb());
        }
        for p in cell.pg().panics() {
            rep.set_add("pgcat_panic_sites", &p);
        }
    }
    Ok(())
}

/// Hostile but well-framed sequences against a pool with replicas: nothing a client sends may get a
/// server banned (taken out of service for everybody else).
fn ban_leg(seed: u64, rep: &Report) -> Result<(), String> {
    let mut rng = Rng::new(seed);
    let mut cell = Cell::new();
    let p = cell.add_mock("db.s0.primary.0");
    let r1 = cell.add_mock("db.s0.replica.1");
    let r2 = cell.add_mock("db.s0.replica.2");
    let mut cfg = Cfg::new();
    let mut pool = PoolCfg::single("db", USER, PASS, 2, vec![cell.server(p, "primary"), cell.server(r1, "replica"), cell.server(r2, "replica")]);
    pool.set("default_role", "\"replica\"");
    if seed % 2 == 0 {
        pool.set("prepared_statements_cache_size", "16");
    }
    cfg.pools.push(pool);
    cfg.gset("ban_time", "60");
    cell.start_pgcat(&cfg, &StartOpts::default()).map_err(|e| format!("start: {:?}", e))?;
    let mut adm = cell.pg().admin().map_err(|e| format!("admin: {}", e))?;
    let seqs = ["bind_after_refused_named_parse", "bind_without_parse", "execute_without_bind", "sync_only", "copydata_outside_copy", "copydone_outside_copy", "copyfail_outside_copy", "close_empty", "describe_empty", "many_syncs", "query_empty_body", "short_length_then_sync", "short_length_then_sync"];
    for k in 0..12 {
        let m = *rng.pick(&seqs);
        let in_txn = rng.chance(1, 2);
        let mut c = Conn::connect(&cell.addr(), &StartupOpts::new(USER, "db", PASS).app("app")).map_err(|e| e.to_string())?;
        if in_txn {
            let _ = c.query(&format!("BEGIN {}", tag("hostile", &format!("hb.{}", k), "")), 3000);
        }
        let _ = c.send(&hostile_frames(&mut rng, m));
        let _ = c.drain_to_eof(200);
        drop(c);
        sleep_ms(30);
        rep.count("ban_leg_sequences", 1);
        let bans = crate::pgcat::admin_rows(&mut adm, "SHOW BANS")?;
        if !bans.is_empty() {
            rep.violation(
                &format!("C11|server_banned_because_of_client_input|mutation={}|in_transaction={}", m, in_txn),
                &format!("after the hostile sequence {} ({}) SHOW BANS lists {:?}", m, if in_txn { "inside a transaction" } else { "idle" }, bans.iter().map(|b| format!("{}:{} {}", b.get("host").cloned().unwrap_or_default(), b.get("port").cloned().unwrap_or_default(), b.get("reason").cloned().unwrap_or_default())).collect::<Vec<_>>()),
                json!({"seed": seed, "log_tail": cell.pg().log_tail(8)}),
            );
            return Ok(());
        }
        // and well-behaved clients are still served
        for j in 0..2 {
            if let Err(e) = canary(&cell, "db", "canary", (k * 10 + j) as u64) {
                rep.violation(&format!("C11|canary_blocked|ban_leg|mutation={}", m), &format!("after hostile sequence {} a well-behaved client failed: {}", m, e), json!({"seed": seed}));
                return Ok(());
            }
        }
    }
    Ok(())
}

pub fn run(tier: &str) -> i32 {
    let rep = Report::new(
        "C11",
        tier,
        "exploration",
        "case = protocol state {pre-startup, mid-auth, idle, in transaction, mid-batch, in COPY, admin console} x mutation (14 startup mutations, 42 frame/body/order mutations incl. lengths <4, negative, beyond/below body, 64 MiB declared, unknown types, missing terminators, negative/oversized counts, parameter lengths beyond the frame, embedded NULs, messages in invalid order); after each case: process liveness, a canary transaction on the shared pool_size=1 pool (own correct reply, clean inherited session), a canary on a second pool during the attack, capacity probe and admin console every 10 cases; plus a leg on a pool with two replicas where SHOW BANS must stay empty after every hostile but well-framed sequence; distinct = distinct (state, mutation) pairs",
    );
    rep.assume("declared lengths are capped at 64 MiB in verdict-bearing cases; memory exhaustion by larger declared lengths is measured (RSS) but not judged");
    rep.assume("panics confined to the sender's task are allowed by the property; they are catalogued, not judged");
    let thorough = rep.thorough();
    let batches = if thorough { 400 } else { 48 };
    let per = if thorough { 60 } else { 30 };
    let mut rng = Rng::new(rep.seed ^ 0xC11);
    let seeds: Vec<u64> = (0..batches).map(|_| rng.next()).collect();
    let n_ban = if thorough { 64 } else { 16 };
    run_parallel(batches + n_ban, workers(), |i| {
        let r = if i < batches { batch(seeds[i], per, &rep) } else { ban_leg(seeds[i - batches] ^ (i as u64) << 7, &rep) };
        if let Err(e) = r {
            rep.inconclusive(&e);
        }
    });
    rep.sample(json!({"states": STATES, "frame_mutations": FRAME_MUTATIONS.len(), "startup_mutations": STARTUP_MUTATIONS.len()}));
    rep.finish(&[("canary_transactions_ok", 500), ("capacity_probes_passed", 50), ("ban_leg_sequences", 50)])
}
