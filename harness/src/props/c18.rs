//! C18 — admin statistics count every client, server connection and transaction once.

use super::common::*;
use crate::cell::{run_parallel, workers, Cell};
use crate::pgcat::{admin_rows, StartOpts};
use crate::proto::{self, Msg};
use crate::report::Report;
use crate::sql::tag;
use crate::util::{sleep_ms, Rng};
use crate::wire::{Conn, StartupOpts};
use crate::wl::{gen_txn, run_txn, GenOpts};
use serde_json::json;
use std::collections::{BTreeMap, BTreeSet};
use std::sync::atomic::Ordering;

struct Actor {
    id: String,
    conn: Conn,
    app: String,
    txn_no: usize,
}

fn cid_str(pid: i32) -> String {
    format!("{:#010X}", pid)
}

type Rows = Vec<BTreeMap<String, String>>;

struct Sample {
    clients: Rows,
    pools: Rows,
    servers: Rows,
    lists: Rows,
    stats: Rows,
}

fn sample(adm: &mut Conn) -> Result<Sample, String> {
    Ok(Sample {
        clients: admin_rows(adm, "SHOW CLIENTS")?,
        pools: admin_rows(adm, "SHOW POOLS")?,
        servers: admin_rows(adm, "SHOW SERVERS")?,
        lists: admin_rows(adm, "SHOW LISTS")?,
        stats: admin_rows(adm, "SHOW STATS")?,
    })
}

fn fingerprint(s: &Sample) -> String {
    let mut c: Vec<String> = s
        .clients
        .iter()
        .map(|r| format!("{}:{}", r.get("client_id").cloned().unwrap_or_default(), r.get("state").cloned().unwrap_or_default()))
        .collect();
    c.sort();
    let mut sv: Vec<String> = s
        .servers
        .iter()
        .map(|r| format!("{}:{}", r.get("server_id").cloned().unwrap_or_default(), r.get("state").cloned().unwrap_or_default()))
        .collect();
    sv.sort();
    format!("{:?}|{:?}", c, sv)
}

fn num(r: &BTreeMap<String, String>, k: &str) -> i64 {
    r.get(k).and_then(|v| v.parse().ok()).unwrap_or(-1)
}

fn scenario(seed: u64, rep: &Report) -> Result<(), String> {
    let mut rng = Rng::new(seed);
    let pool_size = rng.range(1, 3) as u32;
    let (mut cell, mut cfg) = simple_cell(&["primary"], pool_size, "transaction");
    cfg.gset("connect_timeout", "400");
    cell.start_pgcat(&cfg, &StartOpts::default())
        .map_err(|e| format!("start: {:?}", e))?;
    let addr = cell.addr();
    let mut adm = cell.pg().admin().map_err(|e| format!("admin: {}", e))?;
    let mut actors: Vec<Actor> = vec![];
    let mut next_id = 0;
    let mut prev_totals: BTreeMap<String, i64> = BTreeMap::new();
    let mut exits_so_far: BTreeSet<String> = BTreeSet::new();
    let mut departed: BTreeMap<String, String> = BTreeMap::new();
    let phases = rng.range(3, 7);
    let mut gen = GenOpts::default();
    gen.sleep_max_ms = 2;
    for phase in 0..=phases {
        let last = phase == phases;
        // ---- membership changes
        if last {
            // everyone leaves, each in some way
            while let Some(a) = actors.pop() {
                { let pid = cid_str(a.conn.pid); let how = leave(a, &mut rng, &mut exits_so_far, rep); departed.insert(pid, how); }
            }
        } else {
            let joiners = rng.range(1, 5);
            for _ in 0..joiners {
                let id = format!("a{}", next_id);
                next_id += 1;
                let app = format!("app-{}-{}", id, rng.below(100));
                match Conn::connect(&addr, &StartupOpts::new(USER, "db", PASS).app(&app)) {
                    Ok(conn) => actors.push(Actor {
                        id,
                        conn,
                        app,
                        txn_no: 0,
                    }),
                    Err(e) => return Err(format!("connect: {}", e)),
                }
            }
            // failed logins
            for _ in 0..rng.below(3) {
                let _ = Conn::connect(&addr, &StartupOpts::new(USER, "db", "wrong-password"));
                let _ = Conn::connect(&addr, &StartupOpts::new("nobody", "db", "x"));
                rep.count("failed_logins", 2);
            }
            // some leave
            let leavers = rng.below(actors.len() as u64 / 2 + 1);
            for _ in 0..leavers {
                if actors.len() > 1 {
                    let i = rng.below(actors.len() as u64) as usize;
                    let a = actors.swap_remove(i);
                    { let pid = cid_str(a.conn.pid); let how = leave(a, &mut rng, &mut exits_so_far, rep); departed.insert(pid, how); }
                }
            }
            // ---- work, in parallel
            let seeds: Vec<u64> = actors.iter().map(|_| rng.next()).collect();
            let g = gen.clone();
            std::thread::scope(|s| {
                for (a, sd) in actors.iter_mut().zip(seeds.iter()) {
                    let g = g.clone();
                    s.spawn(move || {
                        let mut r = Rng::new(*sd);
                        for _ in 0..r.range(1, 6) {
                            a.txn_no += 1;
                            let (kind, steps) = gen_txn(&mut r, &a.id, a.txn_no, &g);
                            let _ = run_txn(&mut a.conn, &kind, &steps, 15_000);
                        }
                    });
                }
            });
            // checkout failure: hold every server, let one more client fail to get one
            if rng.chance(1, 2) && actors.len() > pool_size as usize {
                let n = pool_size as usize;
                for a in actors.iter_mut().take(n) {
                    a.txn_no += 1;
                    let q = format!("{}.t{}.q1", a.id, a.txn_no);
                    let _ = a.conn.query(&format!("BEGIN {}", tag(&a.id, &q, "")), 5000);
                }
                {
                    let a = &mut actors[n];
                    a.txn_no += 1;
                    let q = format!("{}.t{}.q1", a.id, a.txn_no);
                    let r = a.conn.query(&format!("SELECT 1 {}", tag(&a.id, &q, "")), 5000);
                    if let Ok(m) = &r {
                        if crate::wl::pooler_error(m).is_some() {
                            rep.count("checkout_failures", 1);
                        }
                    }
                }
                for a in actors.iter_mut().take(n) {
                    let q = format!("{}.t{}.q2", a.id, a.txn_no);
                    let _ = a.conn.query(&format!("COMMIT {}", tag(&a.id, &q, "")), 5000);
                }
            }
        }
        // ---- quiescent point: settle, then two identical consecutive samples
        sleep_ms(200);
        let mut s = sample(&mut adm)?;
        let mut stable = false;
        for _ in 0..20 {
            sleep_ms(60);
            let s2 = sample(&mut adm)?;
            if fingerprint(&s) == fingerprint(&s2) {
                stable = true;
                s = s2;
                break;
            }
            s = s2;
        }
        if !stable {
            rep.inconclusive("admin samples never stabilised");
            continue;
        }
        rep.count("quiescent_points", 1);
        let wit = |what: &str, s: &Sample, cell: &mut Cell| {
            json!({"what": what, "seed": seed, "phase": phase, "exits_so_far": exits_so_far.iter().collect::<Vec<_>>(),
                   "show_clients": s.clients, "show_pools": s.pools, "pgcat_panics": cell.pg().panics()})
        };
        // 1. SHOW CLIENTS == ledger
        let ledger: BTreeMap<String, &Actor> = actors.iter().map(|a| (cid_str(a.conn.pid), a)).collect();
        let mut seen: BTreeMap<String, usize> = BTreeMap::new();
        for r in &s.clients {
            if r.get("database").map(|d| d.as_str()) == Some("pgcat") {
                continue;
            }
            let id = r.get("client_id").cloned().unwrap_or_default();
            *seen.entry(id.clone()).or_insert(0) += 1;
            match ledger.get(&id) {
                None => {
                    let how = departed.get(&id).cloned().unwrap_or("never_connected".into());
                    rep.violation(
                        &format!("C18|show_clients_lists_client_that_is_gone|left_by={}", how),
                        &format!("SHOW CLIENTS lists {} (app {:?}, state {:?}) which is not connected any more; it left by: {}", id, r.get("application_name"), r.get("state"), how),
                        wit("stale client row", &s, &mut cell),
                    );
                }
                Some(a) => {
                    rep.count("client_rows_checked", 1);
                    if r.get("application_name") != Some(&a.app) || r.get("user").map(|s| s.as_str()) != Some(USER) || r.get("database").map(|s| s.as_str()) != Some("db") {
                        rep.violation(
                            "C18|show_clients_wrong_identity",
                            &format!("SHOW CLIENTS row for {} has {:?}/{:?}/{:?}, expected db/{}/{}", id, r.get("database"), r.get("user"), r.get("application_name"), USER, a.app),
                            wit("identity", &s, &mut cell),
                        );
                    }
                    if r.get("state").map(|s| s.as_str()) != Some("idle") {
                        rep.violation(
                            &format!("C18|idle_client_reported_as_{}", r.get("state").cloned().unwrap_or_default()),
                            &format!("client {} is idle between transactions but SHOW CLIENTS says {:?}", id, r.get("state")),
                            wit("state", &s, &mut cell),
                        );
                    }
                }
            }
        }
        for (id, n) in &seen {
            if *n > 1 {
                rep.violation("C18|client_listed_more_than_once", &format!("client {} listed {} times", id, n), wit("dup", &s, &mut cell));
            }
        }
        for id in ledger.keys() {
            if !seen.contains_key(id) {
                rep.violation("C18|connected_client_missing_from_show_clients", &format!("connected client {} is missing from SHOW CLIENTS", id), wit("missing", &s, &mut cell));
            }
        }
        // 2. SHOW POOLS
        let live = cell.mocks[0].ctl.live_sessions() as i64;
        for r in &s.pools {
            if r.get("database").map(|d| d.as_str()) != Some("db") {
                continue;
            }
            let total = num(r, "cl_idle") + num(r, "cl_active") + num(r, "cl_waiting");
            if total != actors.len() as i64 {
                // attribute to the stale rows, if any
                let stale: BTreeSet<String> = s.clients.iter().filter(|r| r.get("database").map(|d| d.as_str()) != Some("pgcat")).filter_map(|r| r.get("client_id").cloned()).filter(|id| !ledger.contains_key(id)).map(|id| departed.get(&id).cloned().unwrap_or("never_connected".into())).collect();
                rep.violation(
                    &format!("C18|pool_client_counts_do_not_add_up|stale_rows_left_by={}", stale.iter().cloned().collect::<Vec<_>>().join("+")),
                    &format!("SHOW POOLS cl_idle+cl_active+cl_waiting = {} but {} clients are connected", total, actors.len()),
                    wit("pool counts", &s, &mut cell),
                );
            }
            if num(r, "sv_active") != 0 {
                rep.violation("C18|sv_active_nonzero_at_quiescence", &format!("sv_active={} with no transaction running", num(r, "sv_active")), wit("sv_active", &s, &mut cell));
            }
            let sv = num(r, "sv_active") + num(r, "sv_idle") + num(r, "sv_used") + num(r, "sv_tested") + num(r, "sv_login");
            if sv != live {
                rep.violation(
                    "C18|pool_server_counts_differ_from_backend",
                    &format!("SHOW POOLS counts {} server connections, the backend has {} open sessions", sv, live),
                    wit("sv counts", &s, &mut cell),
                );
            }
        }
        // 3. SHOW SERVERS
        if s.servers.len() as i64 != live {
            rep.violation(
                "C18|show_servers_differs_from_backend",
                &format!("SHOW SERVERS lists {} rows, the backend has {} open sessions", s.servers.len(), live),
                wit("servers", &s, &mut cell),
            );
        }
        for r in &s.servers {
            rep.count("server_rows_checked", 1);
            if r.get("state").map(|x| x.as_str()) != Some("idle") {
                rep.violation(&format!("C18|unused_server_reported_as_{}", r.get("state").cloned().unwrap_or_default()), "a server connection is unused but not reported idle", wit("server state", &s, &mut cell));
            }
        }
        // 4. SHOW LISTS consistent with SHOW CLIENTS / SERVERS
        let lists: BTreeMap<String, i64> = s.lists.iter().map(|r| (r.get("list").cloned().unwrap_or_default(), num(r, "items"))).collect();
        let fc = lists.get("free_clients").copied().unwrap_or(-1) + lists.get("used_clients").copied().unwrap_or(-1);
        if fc != s.clients.len() as i64 {
            rep.violation("C18|show_lists_clients_inconsistent", &format!("SHOW LISTS free+used clients = {} but SHOW CLIENTS has {} rows", fc, s.clients.len()), wit("lists", &s, &mut cell));
        }
        let fs = lists.get("free_servers").copied().unwrap_or(-1) + lists.get("used_servers").copied().unwrap_or(-1);
        if fs != s.servers.len() as i64 {
            rep.violation("C18|show_lists_servers_inconsistent", &format!("SHOW LISTS free+used servers = {} but SHOW SERVERS has {} rows", fs, s.servers.len()), wit("lists", &s, &mut cell));
        }
        // 5. totals
        let mock_x = cell.mocks[0].ctl.client_xacts.load(Ordering::SeqCst) as i64;
        let mock_q = cell.mocks[0].ctl.client_requests.load(Ordering::SeqCst) as i64;
        for r in &s.stats {
            if r.get("database").map(|d| d.as_str()) != Some("db") {
                continue;
            }
            rep.count("stats_rows_checked", 1);
            let x = num(r, "total_xact_count");
            let q = num(r, "total_query_count");
            if x != mock_x {
                rep.violation(
                    &format!("C18|total_xact_count_differs|sign={}", if x > mock_x { "over" } else { "under" }),
                    &format!("SHOW STATS total_xact_count={} but the backend executed {} client transactions", x, mock_x),
                    wit("xact", &s, &mut cell),
                );
            }
            if q != mock_q {
                rep.violation(
                    &format!("C18|total_query_count_differs|sign={}", if q > mock_q { "over" } else { "under" }),
                    &format!("SHOW STATS total_query_count={} but the backend executed {} client requests", q, mock_q),
                    wit("query", &s, &mut cell),
                );
            }
            for (k, v) in r {
                if k.starts_with("total_") {
                    let v: i64 = v.parse().unwrap_or(-1);
                    let key = format!("{}:{}", r.get("instance").cloned().unwrap_or_default(), k);
                    if let Some(p) = prev_totals.get(&key) {
                        if v < *p {
                            rep.violation(&format!("C18|total_decreased|column={}", k), &format!("{} went from {} to {}", k, p, v), wit("monotone", &s, &mut cell));
                        }
                    }
                    prev_totals.insert(key, v);
                }
            }
        }
        if last {
            rep.count("all_gone_points", 1);
        }
        if phase == 1 {
            rep.sample(json!({"seed": seed, "connected": actors.iter().map(|a| cid_str(a.conn.pid)).collect::<Vec<_>>(), "show_pools": s.pools, "mock_xacts": mock_x, "mock_requests": mock_q}));
        }
    }
    rep.distinct(seed);
    Ok(())
}

fn leave(mut a: Actor, rng: &mut Rng, exits: &mut BTreeSet<String>, rep: &Report) -> String {
    let how = rng.below(7);
    let name = match how {
        0 => {
            a.conn.terminate();
            "terminate"
        }
        1 => {
            a.conn.close_fin();
            "fin"
        }
        2 => {
            a.conn.close_rst();
            "rst"
        }
        3 => {
            a.txn_no += 1;
            let q = format!("{}.t{}.q1", a.id, a.txn_no);
            let _ = a.conn.query(&format!("BEGIN {}", tag(&a.id, &q, "")), 5000);
            a.conn.close_fin();
            "fin_mid_txn"
        }
        4 => {
            a.txn_no += 1;
            let q = format!("{}.t{}.q1", a.id, a.txn_no);
            let _ = a.conn.query(&format!("BEGIN {}", tag(&a.id, &q, "")), 5000);
            let _ = a.conn.send(&Msg::new(b'C', vec![]).encode());
            let _ = a.conn.drain_to_eof(2000);
            a.conn.close_fin();
            "malformed_close_mid_txn"
        }
        5 => {
            let _ = a.conn.send(&Msg::new(b'C', vec![]).encode());
            let _ = a.conn.drain_to_eof(2000);
            a.conn.close_fin();
            "malformed_close_idle"
        }
        _ => {
            a.txn_no += 1;
            let q = format!("{}.t{}.q1", a.id, a.txn_no);
            let mut b = proto::parse("", &format!("SELECT 1 {}", tag(&a.id, &q, "")), &[]);
            b.extend(proto::bind("", "nosuch", &[], &[], &[]));
            b.extend(proto::sync());
            let _ = a.conn.send(&b);
            let _ = a.conn.read_until_ready(2000);
            a.conn.terminate();
            "bind_unknown_then_terminate"
        }
    };
    exits.insert(name.to_string());
    rep.set_add("exit_modes", name);
    name.to_string()
}

/// One pgcat instance observed across a statistics period boundary (the collector ticks every
/// 15 s and resets the per-period counters): totals, including errors, must not go down.
fn across_stats_period(seed: u64, rep: &Report) -> Result<(), String> {
    let (mut cell, mut cfg) = simple_cell(&["primary"], 1, "transaction");
    cfg.gset("connect_timeout", "300");
    cell.start_pgcat(&cfg, &StartOpts::default()).map_err(|e| format!("start: {:?}", e))?;
    let t_spawn = cell.pg().t_spawn;
    let addr = cell.addr();
    let mut adm = cell.pg().admin().map_err(|e| format!("admin: {}", e))?;
    let mut a = Conn::connect(&addr, &StartupOpts::new(USER, "db", PASS).app("pa")).map_err(|e| e.to_string())?;
    let mut b = Conn::connect(&addr, &StartupOpts::new(USER, "db", PASS).app("pb")).map_err(|e| e.to_string())?;
    let mut rng = Rng::new(seed);
    let mut qn = 0;
    let mut totals_before: BTreeMap<String, i64> = BTreeMap::new();
    // traffic + checkout failures (B cannot get the only server while A's transaction is open)
    for _ in 0..rng.range(2, 4) {
        qn += 1;
        let _ = a.query(&format!("BEGIN {}", tag("pa", &format!("pa.q{}", qn), "")), 5000);
        qn += 1;
        let r = b.query(&format!("SELECT 1 {}", tag("pb", &format!("pb.q{}", qn), "rows=1")), 5000);
        if r.is_err() {
            b = Conn::connect(&addr, &StartupOpts::new(USER, "db", PASS).app("pb")).map_err(|e| e.to_string())?;
        }
        qn += 1;
        let _ = a.query(&format!("COMMIT {}", tag("pa", &format!("pa.q{}", qn), "")), 5000);
        qn += 1;
        let _ = b.query(&format!("SELECT 1 {}", tag("pb", &format!("pb.q{}", qn), "rows=1")), 5000);
    }
    let read_totals = |adm: &mut Conn| -> Result<BTreeMap<String, i64>, String> {
        let mut m = BTreeMap::new();
        for r in admin_rows(adm, "SHOW STATS")? {
            if r.get("database").map(|d| d.as_str()) == Some("db") || r.get("instance").is_some() {
                for (k, v) in &r {
                    if k.starts_with("total_") {
                        *m.entry(k.clone()).or_insert(0) += v.parse::<i64>().unwrap_or(0);
                    }
                }
            }
        }
        Ok(m)
    };
    sleep_ms(50);
    for (k, v) in read_totals(&mut adm)? {
        totals_before.insert(k, v);
    }
    if totals_before.get("total_errors").copied().unwrap_or(0) == 0 {
        return Err(format!("no error was counted before the period boundary: {:?}", totals_before));
    }
    // wait for the collector's next tick (15 s after start) with the server connection still pooled
    let boundary = t_spawn + 15_600_000_000;
    while crate::util::now_ns() < boundary {
        sleep_ms(50);
    }
    let after = read_totals(&mut adm)?;
    rep.count("stats_period_boundaries_crossed", 1);
    for (k, p) in &totals_before {
        let v = after.get(k).copied().unwrap_or(0);
        if v < *p {
            rep.violation(
                &format!("C18|total_decreased|column={}", k),
                &format!("{} went from {} to {} across a statistics period boundary (no client or server had left)", k, p, v),
                json!({"seed": seed, "before": totals_before, "after": after}),
            );
        }
    }
    a.terminate();
    b.terminate();
    Ok(())
}

/// Server logins that FAIL (server refusing connections, then answering the startup with a FATAL
/// error): nothing of them may stay behind in SHOW SERVERS / sv_login once things are quiet.
fn failed_server_logins(seed: u64, rep: &Report) -> Result<(), String> {
    let mut rng = Rng::new(seed);
    let (mut cell, mut cfg) = simple_cell(&["primary"], 2, "transaction");
    cfg.gset("connect_timeout", "300");
    cell.start_pgcat(&cfg, &StartOpts::default()).map_err(|e| format!("start: {:?}", e))?;
    let addr = cell.addr();
    let mut adm = cell.pg().admin().map_err(|e| format!("admin: {}", e))?;
    let ctl = cell.mocks[0].ctl.clone();
    let mut c = Conn::connect(&addr, &StartupOpts::new(USER, "db", PASS).app("fl")).map_err(|e| e.to_string())?;
    let _ = c.query(&format!("SELECT 1 {}", tag("fl", "fl.q0", "rows=1")), 5000);
    for round in 0..rng.range(2, 4) {
        // all pooled server connections die, the server then refuses / breaks new logins for a while
        let how = *rng.pick(&[crate::mock::LISTEN_DOWN, crate::mock::LISTEN_ACCEPT_CLOSE]);
        ctl.listen.store(how, std::sync::atomic::Ordering::SeqCst);
        ctl.kill_sessions();
        for k in 0..3 {
            let r = c.query(&format!("SELECT 1 {}", tag("fl", &format!("fl.r{}.{}", round, k), "rows=1")), 5000);
            if r.is_err() {
                c = Conn::connect(&addr, &StartupOpts::new(USER, "db", PASS).app("fl")).map_err(|e| e.to_string())?;
            }
        }
        ctl.listen.store(crate::mock::LISTEN_UP, std::sync::atomic::Ordering::SeqCst);
        sleep_ms(50);
        // service is back
        let mut ok = false;
        for k in 0..10 {
            match c.query(&format!("SELECT 1 {}", tag("fl", &format!("fl.b{}.{}", round, k), "rows=1")), 5000) {
                Ok(m) if crate::wire::first_error(&m).is_none() => {
                    ok = true;
                    break;
                }
                Ok(_) => sleep_ms(100),
                Err(_) => {
                    c = Conn::connect(&addr, &StartupOpts::new(USER, "db", PASS).app("fl")).map_err(|e| e.to_string())?;
                }
            }
        }
        if !ok {
            return Err("service did not come back after the server was reachable again".into());
        }
    }
    // quiescent point: two identical consecutive samples
    // (a connection the pooler has just dropped is still open at the backend until the backend's
    // thread has seen the FIN, and one being opened is not listed yet: the comparison is repeated
    // until it agrees, and only a disagreement that persists for 2.5 s is reported)
    sleep_ms(400);
    let mut live = cell.mocks[0].ctl.live_sessions();
    let mut servers = admin_rows(&mut adm, "SHOW SERVERS")?;
    let mut pools = admin_rows(&mut adm, "SHOW POOLS")?;
    let login = |pools: &Vec<BTreeMap<String, String>>| -> i64 { pools.iter().filter(|r| r.get("database").map(|d| d.as_str()) == Some("db")).map(|r| num(r, "sv_login")).sum() };
    for _ in 0..7 {
        if servers.len() == live && login(&pools) == 0 {
            break;
        }
        rep.count("failed_server_login_samples_repeated", 1);
        sleep_ms(300);
        live = cell.mocks[0].ctl.live_sessions();
        servers = admin_rows(&mut adm, "SHOW SERVERS")?;
        pools = admin_rows(&mut adm, "SHOW POOLS")?;
    }
    rep.count("failed_server_login_scenarios", 1);
    let sv_login: i64 = login(&pools);
    if servers.len() != live || sv_login != 0 {
        rep.violation(
            "C18|server_rows_left_behind_by_failed_server_logins",
            &format!("after server logins had failed and service was back: SHOW SERVERS lists {} rows (states {:?}), the backend has {} live sessions, sv_login={}", servers.len(), servers.iter().map(|r| r.get("state").cloned().unwrap_or_default()).collect::<Vec<_>>(), live, sv_login),
            json!({"seed": seed}),
        );
    }
    c.terminate();
    Ok(())
}

/// A request that is refused at checkout for a reason other than a busy pool (a shard the pool does
/// not have, selected through a shard_id comment): the client stays connected and idle, and is listed so.
fn refused_at_checkout_then_idle(seed: u64, rep: &Report) -> Result<(), String> {
    let mut rng = Rng::new(seed);
    let mut cell = crate::cell::Cell::new();
    let mut pool = crate::pgcat::PoolCfg::new("db");
    for s in 0..2 {
        let m = cell.add_mock(&format!("db.s{}.primary.0", s));
        pool.shards.push(crate::pgcat::ShardCfg { id: s.to_string(), database: format!("db{}", s), servers: vec![cell.server(m, "primary")], mirrors: vec![] });
    }
    pool.users.push(crate::pgcat::UserCfg::new(USER, PASS, 2));
    pool.set("query_parser_enabled", "true");
    pool.set("shard_id_regex", "'/\\* shard_id: (\\d+) \\*/'");
    let mut cfg = crate::pgcat::Cfg::new();
    cfg.pools.push(pool);
    cell.start_pgcat(&cfg, &StartOpts::default()).map_err(|e| format!("start: {:?}", e))?;
    let addr = cell.addr();
    let mut adm = cell.pg().admin().map_err(|e| format!("admin: {}", e))?;
    let mut c = Conn::connect(&addr, &StartupOpts::new(USER, "db", PASS).app("rs")).map_err(|e| e.to_string())?;
    let _ = c.query(&format!("/* shard_id: 1 */ SELECT 1 {}", tag("rs", "rs.q0", "rows=1")), 5000);
    let bad = 2 + rng.below(7);
    let r = c.query(&format!("/* shard_id: {} */ SELECT 1 {}", bad, tag("rs", "rs.q1", "rows=1")), 5000);
    let refused = match &r {
        Ok(m) => crate::wire::first_error(m).is_some(),
        Err(_) => true,
    };
    sleep_ms(150);
    rep.count("refused_at_checkout_scenarios", 1);
    if refused && r.is_ok() {
        let pid = cid_str(c.pid);
        let clients = admin_rows(&mut adm, "SHOW CLIENTS")?;
        let me: Vec<&BTreeMap<String, String>> = clients.iter().filter(|r| r.get("client_id").map(|x| x == &pid).unwrap_or(false) || r.get("application_name").map(|a| a == "rs").unwrap_or(false)).collect();
        let pools = admin_rows(&mut adm, "SHOW POOLS")?;
        let waiting: i64 = pools.iter().filter(|r| r.get("database").map(|d| d.as_str()) == Some("db")).map(|r| num(r, "cl_waiting")).sum();
        let state = me.first().and_then(|r| r.get("state").cloned()).unwrap_or_default();
        if waiting != 0 || (!state.is_empty() && state != "idle") {
            rep.violation(
                "C18|idle_client_listed_as_waiting_after_refused_checkout",
                &format!("a client whose request was refused (shard {} does not exist) is connected and idle; SHOW CLIENTS says state={:?}, SHOW POOLS cl_waiting={}", bad, state, waiting),
                json!({"seed": seed}),
            );
        }
    }
    c.terminate();
    Ok(())
}

/// Session mode: a client keeps its server for the whole session; its transactions (every protocol)
/// are still counted once each in SHOW STATS / CLIENTS / SERVERS.
fn session_mode_totals(seed: u64, rep: &Report) -> Result<(), String> {
    let mut rng = Rng::new(seed);
    let (mut cell, cfg) = simple_cell(&["primary"], 2, "session");
    cell.start_pgcat(&cfg, &StartOpts::default()).map_err(|e| format!("start: {:?}", e))?;
    let mut c = connect(&cell, "sm").map_err(|e| e.to_string())?;
    let mut gen = GenOpts::default();
    gen.sleep_max_ms = 1;
    let n = rng.range(6, 20);
    let mut kinds = BTreeSet::new();
    for t in 0..n {
        let (kind, steps) = gen_txn(&mut rng, "sm", t as usize, &gen);
        let r = run_txn(&mut c, &kind, &steps, 10_000);
        if r.steps.iter().any(|s| matches!(s.outcome, crate::wl::Outcome::Eof | crate::wl::Outcome::Timeout | crate::wl::Outcome::Io(_))) {
            return Err(format!("session-mode client lost its connection in a {} transaction", kind));
        }
        kinds.insert(kind);
    }
    sleep_ms(150);
    let mut adm = cell.pg().admin().map_err(|e| format!("admin: {}", e))?;
    let st = admin_rows(&mut adm, "SHOW STATS")?;
    let row = st.iter().find(|r| r.get("database").map(|d| d == "db").unwrap_or(false)).or(st.first()).ok_or("SHOW STATS empty")?;
    let xacts = cell.mocks[0].ctl.client_xacts.load(Ordering::SeqCst) as i64;
    let reqs = cell.mocks[0].ctl.client_requests.load(Ordering::SeqCst) as i64;
    rep.count("session_mode_totals_compared", 1);
    for k in &kinds {
        rep.set_add("session_mode_transaction_kinds", k);
    }
    let got_x = num(row, "total_xact_count");
    if got_x != xacts {
        rep.violation(
            &format!("C18|total_xact_count_differs|sign={}|mode=session", if got_x > xacts { "over" } else { "under" }),
            &format!("session mode, one client, transaction kinds {:?}: SHOW STATS total_xact_count={} but the backend completed {} client transactions", kinds, got_x, xacts),
            json!({"seed": seed, "kinds": kinds}),
        );
    }
    let got_q = num(row, "total_query_count");
    if got_q != reqs {
        rep.violation(
            &format!("C18|total_query_count_differs|sign={}|mode=session", if got_q > reqs { "over" } else { "under" }),
            &format!("session mode, one client, transaction kinds {:?}: SHOW STATS total_query_count={} but the backend completed {} client requests", kinds, got_q, reqs),
            json!({"seed": seed, "kinds": kinds}),
        );
    }
    // the client's own row
    for r in admin_rows(&mut adm, "SHOW CLIENTS")? {
        if r.get("application_name").map(|a| a == "sm").unwrap_or(false) {
            let tc = num(&r, "transaction_count");
            if tc != xacts {
                rep.violation(
                    &format!("C18|client_transaction_count_differs|sign={}|mode=session", if tc > xacts { "over" } else { "under" }),
                    &format!("session mode: SHOW CLIENTS transaction_count={} for the only client, the backend completed {} client transactions ({:?})", tc, xacts, kinds),
                    json!({"seed": seed}),
                );
            }
        }
    }
    c.terminate();
    Ok(())
}

pub fn run(tier: &str) -> i32 {
    let rep = Report::new(
        "C18",
        tier,
        "exploration",
        "scenario = 3-7 phases of joins, failed logins, generated transactions (all protocols), pool-exhaustion checkout failures and departures by Terminate / FIN / RST / FIN mid-transaction / malformed message (decoder panic) idle or mid-transaction; after each phase a quiescent point (two identical consecutive admin samples); oracle = SHOW CLIENTS/POOLS/SERVERS/LISTS/STATS vs the harness ledger of connected clients and the mock's counters of client transactions and requests; server logins that fail (server down / closing during startup) must leave no row behind; totals monotone, also across the collector's 15 s statistics-period boundary (dedicated long-lived instances); distinct = scenario seeds",
    );
    rep.assume("statement caching off so that every batch reaches the server; comparisons only at quiescent points (counters are deliberately unsynchronised)");
    let thorough = rep.thorough();
    let n = if thorough { 800 } else { 64 };
    let mut rng = Rng::new(rep.seed ^ 0xC18);
    let seeds: Vec<u64> = (0..n).map(|_| rng.next()).collect();
    // a few instances live across a statistics-period boundary (16 s each, run alongside the rest)
    let n_long = if thorough { 8 } else { 2 };
    run_parallel(n + n_long, workers(), |i| {
        rep.eval(1);
        let r = if i < n_long {
            across_stats_period(seeds[i] ^ 0x15, &rep)
        } else if (i - n_long) % 8 == 5 {
            failed_server_logins(seeds[i - n_long], &rep)
        } else if (i - n_long) % 8 == 6 {
            refused_at_checkout_then_idle(seeds[i - n_long], &rep)
        } else if (i - n_long) % 8 == 3 {
            session_mode_totals(seeds[i - n_long], &rep)
        } else {
            scenario(seeds[i - n_long], &rep)
        };
        if let Err(e) = r {
            rep.inconclusive(&e);
        }
    });
    rep.finish(&[("quiescent_points", 100), ("client_rows_checked", 300), ("all_gone_points", 20), ("stats_period_boundaries_crossed", 1)])
}

/// Diagnostic: which transaction kinds make pgcat's totals differ from the backend's counts.
pub fn diag() -> i32 {
    let kinds = ["auto", "auto_error", "block", "failed_block", "multi_one_msg", "multi_leaves_open", "ext_auto", "ext_in_block", "ext_suspend", "ext_named_in_block", "copy_in", "copy_fail", "copy_in_block", "copy_out"];
    for want in kinds {
        let (mut cell, cfg) = simple_cell(&["primary"], 1, "transaction");
        cell.start_pgcat(&cfg, &StartOpts::default()).unwrap();
        let mut c = connect(&cell, "d").unwrap();
        let mut rng = Rng::new(7);
        let mut done = 0;
        let mut t = 0;
        while done < 5 {
            t += 1;
            let (kind, steps) = gen_txn(&mut rng, "d", t, &GenOpts::default());
            if kind == want {
                let _ = run_txn(&mut c, &kind, &steps, 5000);
                done += 1;
            }
        }
        sleep_ms(100);
        let mut adm = cell.pg().admin().unwrap();
        let st = admin_rows(&mut adm, "SHOW STATS").unwrap();
        let r = &st[0];
        println!(
            "{:20} pgcat xact={} query={} | backend xact={} requests={}",
            want,
            num(r, "total_xact_count"),
            num(r, "total_query_count"),
            cell.mocks[0].ctl.client_xacts.load(Ordering::SeqCst),
            cell.mocks[0].ctl.client_requests.load(Ordering::SeqCst)
        );
    }
    0
}
