//! Library-level leg: runs `pgv-lib` (links the pgcat crate from /repo) and merges its
//! JSON result into the report. A missing/unbuildable pgv-lib makes this leg inconclusive.

use crate::report::Report;
use serde_json::Value;
use std::process::Command;

pub fn lib_bin() -> String {
    std::env::var("PGV_LIB_BIN").unwrap_or("/verif/target/lib/release/pgv-lib".into())
}

/// Rewrites a lib signature (collapse spellings for positions the plugin never looks at).
/// Returns None for classes judged don't-care at this level.
pub type SigMap = fn(&str) -> Option<String>;

pub fn identity(sig: &str) -> Option<String> {
    Some(sig.to_string())
}

/// Returns true if the leg ran.
pub fn run(prop: &str, rep: &Report, map: SigMap) -> bool {
    let bin = lib_bin();
    if !std::path::Path::new(&bin).exists() {
        rep.inconclusive(&format!("lib-level leg: {} not built (does the pgcat library API still match?)", bin));
        rep.count("lib_leg_ran", 0);
        return false;
    }
    let out = Command::new(&bin)
        .arg(prop)
        .arg(&rep.tier)
        .arg(rep.seed.to_string())
        .output();
    let out = match out {
        Ok(o) => o,
        Err(e) => {
            rep.inconclusive(&format!("lib-level leg: cannot run {}: {}", bin, e));
            return false;
        }
    };
    if !out.status.success() {
        rep.inconclusive(&format!(
            "lib-level leg exited with {:?}: {}",
            out.status.code(),
            String::from_utf8_lossy(&out.stderr).lines().last().unwrap_or("")
        ));
        return false;
    }
    let v: Value = match serde_json::from_slice(&out.stdout) {
        Ok(v) => v,
        Err(e) => {
            rep.inconclusive(&format!("lib-level leg printed no JSON: {}", e));
            return false;
        }
    };
    let evals = v.get("evaluations").and_then(|x| x.as_u64()).unwrap_or(0);
    rep.eval(evals);
    rep.count("lib_evaluations", evals);
    rep.count("lib_distinct", v.get("distinct").and_then(|x| x.as_u64()).unwrap_or(0));
    if let Some(c) = v.get("counters").and_then(|x| x.as_object()) {
        for (k, val) in c {
            if k.starts_with("sig:") {
                continue;
            }
            if let Some(n) = val.as_u64() {
                rep.count(&format!("lib:{}", k), n);
            }
        }
    }
    if let Some(a) = v.get("assumptions").and_then(|x| x.as_array()) {
        for s in a {
            if let Some(s) = s.as_str() {
                rep.assume(&format!("lib leg: {}", s));
            }
        }
    }
    if let Some(a) = v.get("inconclusive").and_then(|x| x.as_array()) {
        for s in a {
            if let Some(s) = s.as_str() {
                rep.inconclusive(&format!("lib leg: {}", s));
            }
        }
    }
    if let Some(a) = v.get("samples").and_then(|x| x.as_array()) {
        for s in a.iter().take(3) {
            rep.sample(serde_json::json!({"lib_sample": s}));
        }
    }
    if let Some(a) = v.get("violations").and_then(|x| x.as_array()) {
        for viol in a {
            let sig = viol.get("signature").and_then(|x| x.as_str()).unwrap_or("?");
            let desc = viol.get("description").and_then(|x| x.as_str()).unwrap_or("");
            match map(sig) {
                Some(s) => rep.violation(&s, desc, viol.get("witness").cloned().unwrap_or(Value::Null)),
                None => rep.count("lib_dont_care_at_this_level", 1),
            }
        }
    }
    rep.count("lib_leg_ran", 1);
    // the lib tool measures its own distinct cases (hash set of generated inputs/shapes); they are
    // disjoint from the wire-level cases, so the two measured counts add up
    rep.add_distinct_count(v.get("distinct").and_then(|x| x.as_u64()).unwrap_or(0));
    true
}
