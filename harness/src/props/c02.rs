//! C02 — a server connection is clean whenever it changes hands.
//!
//! Leg 1 (targeted): client A runs a prefix that leaves a particular server state, stops in a
//! particular way, then a fresh client B probes the pool's only server connection.
//! Leg 2 (generic): every hand-over observed in the C01 transaction workload must be clean.

use super::common::*;
use super::txw;
use crate::cell::{run_parallel, workers, Cell};
use crate::evlog::{render_event, Ev, StateSnap};
use crate::pgcat::StartOpts;
use crate::proto::{self, Msg};
use crate::report::Report;
use crate::sql::tag;
use crate::util::{sleep_ms, Rng};
use crate::wire::{row_idents, summarize, Conn};
use serde_json::json;

const PREFIXES: &[&str] = &[
    "none",
    "set_guc",
    "set_role",
    "sql_prepare",
    "named_parse",
    "begin",
    "begin_failed",
    "copy_in_started",
    "set_guc_then_copy_in_started",
    "begin_copy_in_started",
    "begin_batch_no_sync",
    "begin_set_then_commit_later",
    "begin_prepare_failed",
    "begin_named_parse_failed",
    "set_guc_then_begin",
    "set_role_then_begin",
    "sql_prepare_then_begin",
    "set_guc_then_begin_failed",
    "set_guc_then_sql_prepare",
    "sql_prepare_then_set_guc",
    "set_role_then_sql_prepare",
];

const STOPS: &[&str] = &[
    "commit_idle",
    "terminate",
    "fin",
    "rst",
    "partial_1",
    "partial_4",
    "partial_5",
    "partial_last",
    "malformed_parse",
    "malformed_bind",
    "malformed_describe",
    "malformed_close",
    "unknown_type",
    "short_frame",
    "bind_unknown_stmt",
    "describe_unknown_stmt",
    "stop_reading_then_rst",
    "idle_in_txn_timeout",
    "statement_timeout",
    "statement_timeout_client_gone_rst",
    "statement_timeout_client_gone_fin",
    "big_result_fin_midstream",
    "copy_out_fin_midstream",
];

#[derive(Clone, Debug)]
struct Case {
    prefix: String,
    stop: String,
    cache: bool,
    mode: String,
    /// for exhaustive partial offsets (thorough)
    offset: Option<usize>,
    /// cleanup_server_connections (default true). With false the user opted out of the session-state
    /// reset, but an open transaction, a COPY in progress or an unread reply must still never be handed on
    cleanup: bool,
    /// the next client announces the same application_name as the previous one: the pooler has no
    /// parameter to sync, the next client's own first statement is the first thing the server sees
    same_app: bool,
}

impl Case {
    fn name(&self) -> String {
        format!(
            "prefix={}|stop={}{}|cache={}|mode={}{}",
            self.prefix,
            self.stop,
            match self.offset {
                Some(o) => format!("@{}", o),
                None => String::new(),
            },
            if self.cache { "on" } else { "off" },
            self.mode,
            format!("{}{}", if self.cleanup { "" } else { "|cleanup=off" }, if self.same_app { "|same_app" } else { "" })
        )
    }
}

fn in_txn_prefix(p: &str) -> bool {
    p.starts_with("begin") || p.contains("_then_begin")
}

/// dirty components of a state snapshot (C02's list), ignoring tracked parameters (C12's domain)
pub fn dirty_components(st: &StateSnap, cache_on: bool) -> Vec<String> {
    let mut d = vec![];
    if st.tx == b'T' {
        d.push("txn_open".to_string());
    }
    if st.tx == b'E' {
        d.push("txn_failed_open".to_string());
    }
    if st.copy_in {
        d.push("copy_in".to_string());
    }
    if st.role != "none" {
        d.push("role".to_string());
    }
    for (k, _) in &st.gucs {
        if crate::mock::TRACKED.contains(&k.as_str()) {
            continue;
        }
        d.push(format!("guc:{}", k));
    }
    for p in &st.prepared {
        if cache_on && p.starts_with("PGCAT_") {
            continue;
        }
        if p.is_empty() {
            continue; // the unnamed statement is overwritten by the next Parse; not session state
        }
        d.push("prepared_statement".to_string());
        break;
    }
    d
}

fn run_case(case: &Case, rep: &Report) -> Result<(), String> {
    let (mut cell, mut cfg) = simple_cell(&["primary"], 1, &case.mode);
    cfg.gset("connect_timeout", "2000");
    if case.stop == "idle_in_txn_timeout" {
        cfg.gset("idle_client_in_transaction_timeout", "150");
    }
    if case.cache {
        cfg.pools[0].set("prepared_statements_cache_size", "8");
    }
    if !case.cleanup {
        cfg.pools[0].set("cleanup_server_connections", "false");
    }
    if case.stop.starts_with("statement_timeout") {
        cfg.pools[0].users[0].extra.push("statement_timeout = 150".into());
    }
    cell.start_pgcat(&cfg, &StartOpts::default())
        .map_err(|e| format!("start: {:?}", e))?;
    let mut a = connect(&cell, "A").map_err(|e| format!("A connect: {}", e))?;
    let mut qn = 0;
    let mut t = |extra: &str| {
        qn += 1;
        tag("A", &format!("A.q{}", qn), extra)
    };
    let ok = |r: Result<Vec<Msg>, (Vec<Msg>, crate::wire::ReadErr)>, what: &str| -> Result<Vec<Msg>, String> {
        r.map_err(|(m, e)| format!("A {} failed: {:?} after {}", what, e, summarize(&m)))
    };
    // ---- prefix
    match case.prefix.as_str() {
        "none" => {}
        "set_guc" => {
            ok(a.query(&format!("SET work_mem TO '64MB' {}", t("")), 5000), "set")?;
        }
        "set_role" => {
            ok(a.query(&format!("SET ROLE other_role {}", t("")), 5000), "set role")?;
        }
        "sql_prepare" => {
            ok(a.query(&format!("PREPARE p1 AS SELECT 1 {}", t("")), 5000), "prepare")?;
        }
        "named_parse" => {
            let mut b = proto::parse("s1", &format!("SELECT 1 {}", t("")), &[]);
            b.extend(proto::sync());
            a.send(&b).map_err(|e| e.to_string())?;
            ok(a.read_until_ready(5000), "named parse")?;
        }
        "begin" => {
            ok(a.query(&format!("BEGIN {}", t("")), 5000), "begin")?;
        }
        "begin_failed" => {
            ok(a.query(&format!("BEGIN {}", t("")), 5000), "begin")?;
            ok(a.query(&format!("SELECT 1 {}", t("err=pre")), 5000), "failing stmt")?;
        }
        "copy_in_started" | "begin_copy_in_started" | "set_guc_then_copy_in_started" => {
            if case.prefix.starts_with("set_guc") {
                // (keeps its meaning in session mode only: in transaction mode the server goes back
                // to the pool, and is reset, right after the SET)
                ok(a.query(&format!("SET work_mem TO '64MB' {}", t("")), 5000), "set")?;
            }
            if case.prefix.starts_with("begin") {
                ok(a.query(&format!("BEGIN {}", t("")), 5000), "begin")?;
            }
            a.send(&proto::query(&format!("COPY t FROM STDIN {}", t(""))))
                .map_err(|e| e.to_string())?;
            let m = a
                .read_until_types(&[b'G', b'Z'], 5000)
                .map_err(|(m, e)| format!("A copy start: {:?} {}", e, summarize(&m)))?;
            if m.last().map(|x| x.typ) != Some(b'G') {
                return Err(format!("A copy start got {}", summarize(&m)));
            }
            a.send(&proto::copy_data(b"1\tx\n")).map_err(|e| e.to_string())?;
        }
        "begin_batch_no_sync" => {
            ok(a.query(&format!("BEGIN {}", t("")), 5000), "begin")?;
            let mut b = proto::parse("", &format!("SELECT 1 {}", t("")), &[]);
            b.extend(proto::bind("", "", &[], &[], &[]));
            b.extend(proto::execute("", 0));
            a.send(&b).map_err(|e| e.to_string())?;
        }
        "begin_prepare_failed" => {
            // PREPARE is not transactional: it survives the ROLLBACK and must be deallocated
            ok(a.query(&format!("BEGIN {}", t("")), 5000), "begin")?;
            ok(a.query(&format!("PREPARE p1 AS SELECT 1 {}", t("")), 5000), "prepare")?;
            ok(a.query(&format!("SELECT 1 {}", t("err=pre")), 5000), "failing stmt")?;
        }
        "begin_named_parse_failed" => {
            ok(a.query(&format!("BEGIN {}", t("")), 5000), "begin")?;
            let mut b = proto::parse("s1", &format!("SELECT 1 {}", t("")), &[]);
            b.extend(proto::sync());
            a.send(&b).map_err(|e| e.to_string())?;
            ok(a.read_until_ready(5000), "named parse")?;
            ok(a.query(&format!("SELECT 1 {}", t("err=pre")), 5000), "failing stmt")?;
        }
        "set_guc_then_begin" | "set_role_then_begin" | "sql_prepare_then_begin" | "set_guc_then_begin_failed" => {
            // session-level state created OUTSIDE a transaction, then a transaction left open
            let first = match case.prefix.as_str() {
                "set_role_then_begin" => "SET ROLE other_role",
                "sql_prepare_then_begin" => "PREPARE p1 AS SELECT 1",
                _ => "SET work_mem TO '64MB'",
            };
            ok(a.query(&format!("{} {}", first, t("")), 5000), "session state")?;
            ok(a.query(&format!("BEGIN {}", t("")), 5000), "begin")?;
            if case.prefix.ends_with("_failed") {
                ok(a.query(&format!("SELECT 1 {}", t("err=pre")), 5000), "failing stmt")?;
            }
        }
        "set_guc_then_sql_prepare" | "sql_prepare_then_set_guc" | "set_role_then_sql_prepare" => {
            // two kinds of session state created in one checkout: both must be reset. In session
            // mode they are separate statements of the session; in transaction mode one
            // multi-statement query (a single checkout)
            let set = if case.prefix.starts_with("set_role") { "SET ROLE other_role" } else { "SET work_mem TO '64MB'" };
            let prep = "PREPARE p1 AS SELECT 1";
            let (x, y) = if case.prefix.starts_with("sql_prepare") { (prep, set) } else { (set, prep) };
            if case.mode == "session" {
                ok(a.query(&format!("{} {}", x, t("")), 5000), "first state")?;
                ok(a.query(&format!("{} {}", y, t("")), 5000), "second state")?;
            } else {
                ok(a.query(&format!("{} {}; {} {}", x, t(""), y, t("")), 5000), "both states")?;
            }
        }
        "begin_set_then_commit_later" => {
            // SET inside a block is don't-care for GUC cleanliness; used for txn state only
            ok(a.query(&format!("BEGIN {}", t("")), 5000), "begin")?;
            ok(a.query(&format!("SELECT 1 {}", t("rows=2")), 5000), "select")?;
        }
        _ => unreachable!(),
    }
    // ---- stop
    let next_query = proto::query(&format!("SELECT 1 {}", t("rows=1")));
    let mut keep_a: Option<Conn> = None;
    match case.stop.as_str() {
        "commit_idle" => {
            if case.prefix == "begin_batch_no_sync" {
                a.send(&proto::sync()).map_err(|e| e.to_string())?;
                ok(a.read_until_ready(5000), "sync")?;
            }
            if in_txn_prefix(&case.prefix) && !case.prefix.contains("copy") {
                ok(a.query(&format!("COMMIT {}", t("")), 5000), "commit")?;
            }
            keep_a = Some(a);
        }
        "terminate" => a.terminate(),
        "fin" => a.close_fin(),
        "rst" => a.close_rst(),
        "partial_1" | "partial_4" | "partial_5" | "partial_last" => {
            let n = match case.offset {
                Some(o) => o.min(next_query.len() - 1),
                None => match case.stop.as_str() {
                    "partial_1" => 1,
                    "partial_4" => 4,
                    "partial_5" => 5,
                    _ => next_query.len() - 1,
                },
            };
            let _ = a.send(&next_query[..n]);
            sleep_ms(20);
            a.close_fin();
        }
        "malformed_parse" => {
            let _ = a.send(&Msg::new(b'P', vec![b'x', b'y']).encode());
            let _ = a.send(&proto::sync());
            let _ = a.drain_to_eof(1500);
            a.close_fin();
        }
        "malformed_bind" => {
            let _ = a.send(&Msg::new(b'B', vec![b'x']).encode());
            let _ = a.send(&proto::sync());
            let _ = a.drain_to_eof(1500);
            a.close_fin();
        }
        "malformed_describe" => {
            let _ = a.send(&Msg::new(b'D', vec![]).encode());
            let _ = a.send(&proto::sync());
            let _ = a.drain_to_eof(1500);
            a.close_fin();
        }
        "malformed_close" => {
            let _ = a.send(&Msg::new(b'C', vec![]).encode());
            let _ = a.send(&proto::sync());
            let _ = a.drain_to_eof(1500);
            a.close_fin();
        }
        "unknown_type" => {
            let _ = a.send(&Msg::new(b'~', vec![1, 2, 3]).encode());
            sleep_ms(30);
            a.close_fin();
        }
        "short_frame" => {
            let _ = a.send(&[b'Q', 0, 0, 0, 2]);
            let _ = a.drain_to_eof(1500);
            a.close_fin();
        }
        "bind_unknown_stmt" => {
            let mut b = proto::bind("", "nosuch", &[], &[], &[]);
            b.extend(proto::execute("", 0));
            b.extend(proto::sync());
            let _ = a.send(&b);
            let _ = a.read_until_ready(1500);
            a.close_fin();
        }
        "describe_unknown_stmt" => {
            let mut b = proto::describe(b'S', "nosuch");
            b.extend(proto::sync());
            let _ = a.send(&b);
            let _ = a.read_until_ready(1500);
            a.close_fin();
        }
        "stop_reading_then_rst" => {
            // ask for ~24 MB and never read it
            let _ = a.send(&proto::query(&format!("SELECT 1 {}", t("rows=24000 w=1000"))));
            sleep_ms(300);
            a.close_rst();
        }
        "big_result_fin_midstream" => {
            let _ = a.send(&proto::query(&format!("SELECT 1 {}", t("rows=6000 w=1000"))));
            let _ = a.read_msg(3000);
            let _ = a.read_msg(3000);
            a.close_fin();
        }
        "copy_out_fin_midstream" => {
            let _ = a.send(&proto::query(&format!(
                "COPY t TO STDOUT {}",
                t("rows=6000 w=1000")
            )));
            let _ = a.read_msg(3000);
            let _ = a.read_msg(3000);
            a.close_fin();
        }
        "idle_in_txn_timeout" => {
            // wait for pgcat's timeout to fire, stay connected
            sleep_ms(400);
            keep_a = Some(a);
        }
        "statement_timeout" => {
            let _ = a.send(&proto::query(&format!("SELECT 1 {}", t("sleep=1500"))));
            let _ = a.drain_to_eof(3000);
            a.close_fin();
        }
        "statement_timeout_client_gone_rst" | "statement_timeout_client_gone_fin" => {
            // the client is already gone when the pooler's statement timeout fires: the pooler
            // cannot even deliver its error, the server still owes the reply
            let _ = a.send(&proto::query(&format!("SELECT 1 {}", t("sleep=900"))));
            sleep_ms(40);
            if case.stop.ends_with("rst") {
                a.close_rst();
            } else {
                a.close_fin();
            }
            sleep_ms(250);
        }
        _ => unreachable!(),
    }
    // let pgcat notice the stop
    sleep_ms(if case.stop == "commit_idle" { 20 } else { 120 });
    // ---- probe with fresh client B
    let n0 = cell.log.len();
    let mut b = match connect(&cell, if case.same_app { "A" } else { "B" }) {
        Ok(b) => b,
        Err(e) => {
            if !cell.pg().alive() {
                rep.violation(
                    &format!("C02|{}|dirty=pooler_died", case.name()),
                    &format!("pgcat exited during case {}", case.name()),
                    json!({"log_tail": cell.pg().log_tail(30)}),
                );
                return Ok(());
            }
            return Err(format!("B connect: {}", e));
        }
    };
    let probe = format!("SELECT 1 {}", tag("B", "B.probe", "vstate"));
    let mut r = b.query(&probe, 6000);
    // a refusal by the pooler itself (checkout timed out, its own statement timeout fired on the
    // probe) says nothing about the state of a connection B was never given, and on a loaded
    // machine it happens to a correct pooler: B asks again (fresh connection); only a refusal that
    // persists is reported
    for _ in 0..3 {
        let refused = match &r {
            Ok(m) => summarize(m).contains("58000"),
            Err((m, _)) => summarize(m).contains("58000"),
        };
        if !refused {
            break;
        }
        rep.count("probe_refused_by_pooler_and_repeated", 1);
        sleep_ms(700);
        b = match connect(&cell, if case.same_app { "A" } else { "B" }) {
            Ok(b) => b,
            Err(_) => break,
        };
        r = b.query(&probe, 6000);
    }
    let labels = cell.labels();
    let evs = cell.log.since(n0);
    let session_excerpt: Vec<String> = cell
        .log
        .snapshot()
        .iter()
        .rev()
        .take(25)
        .rev()
        .map(|e| render_event(e, &labels))
        .collect();
    rep.eval(1);
    rep.distinct_str(&case.name());
    rep.set_add("prefix_stop_pairs", &format!("{}+{}", case.prefix, case.stop));
    let mut handed_over = false;
    for e in &evs {
        if let Ev::Handover {
            prev, next, state, ..
        } = &e.ev
        {
            if next == "B" {
                handed_over = true;
                rep.count("handovers_observed", 1);
                for comp in dirty_components(state, case.cache) {
                    if !case.cleanup && !(comp.starts_with("txn") || comp == "copy_in") {
                        continue; // session state is deliberately not reset with cleanup off
                    }
                    rep.violation(
                        &format!("C02|{}|dirty={}", case.name(), comp),
                        &format!(
                            "server connection last used by client {} was given to client B with dirty state [{}] ({}); case {}",
                            prev, state.render(), comp, case.name()
                        ),
                        json!({"case": case.name(), "state": state.render(), "events": session_excerpt, "pgcat_log_tail": cell.pg().log_tail(15)}),
                    );
                }
            }
        }
    }
    if !handed_over {
        rep.count("connection_replaced_or_first_use", 1);
    }
    // B's own reply must be exactly its own, status idle
    let reply_ok = match &r {
        Ok(m) => {
            let ids = row_idents(m);
            let z = m.last().map(|x| x.body.first().copied()) == Some(Some(b'I'));
            let types = proto::type_string(m);
            z && ids.len() == 1 && ids[0].2 == "B.probe" && (types == "TDCZ")
        }
        Err(_) => false,
    };
    if !reply_ok {
        let desc = match &r {
            Ok(m) => summarize(m),
            Err((m, e)) => format!("{:?} after {}", e, summarize(m)),
        };
        // B may legitimately get a pooler error only if the single server is still held by A
        let a_holds = keep_a.is_some() && case.mode == "session";
        if !a_holds {
            rep.violation(
                &format!("C02|{}|dirty=probe_reply_wrong", case.name()),
                &format!(
                    "fresh client B's first statement after case {} did not get its own clean reply: got {}",
                    case.name(),
                    desc
                ),
                json!({"case": case.name(), "reply": desc, "events": session_excerpt, "pgcat_log_tail": cell.pg().log_tail(15)}),
            );
        }
    } else {
        rep.count("probes_clean_reply", 1);
    }
    for p in cell.pg().panics() {
        rep.set_add("pgcat_panics", &p);
    }
    drop(keep_a);
    if std::env::var("PGV_DEBUG").is_ok() {
        println!("==== case {}\n{}\n---- events", case.name(), cell.pg().log_text());
        for e in cell.log.snapshot() {
            println!("{}", render_event(&e, &labels));
        }
    }
    Ok(())
}

fn applicable(c: &Case) -> bool {
    let p = c.prefix.as_str();
    let s = c.stop.as_str();
    if s == "commit_idle" && (p.contains("copy") || c.mode == "session") {
        return false;
    }
    if s == "idle_in_txn_timeout" && !(in_txn_prefix(p) && !p.contains("copy") || c.mode == "session") {
        return false;
    }
    if s == "idle_in_txn_timeout" && (p.contains("copy") || p == "none") {
        return false;
    }
    // stops that send a further query need a state where a query is meaningful; during COPY IN
    // they are still interesting (the query aborts the copy) so keep them.
    if c.cache && c.mode == "session" {
        return false; // statement cache is only active in transaction mode
    }
    true
}

/// Generic leg: every hand-over in a transaction workload must be clean.
fn generic_leg(rep: &Report, n: usize) {
    let mut rng = Rng::new(rep.seed ^ 0xC02);
    let params: Vec<_> = (0..n)
        .map(|i| {
            let mut p = super::c01::params_for(&mut rng, rep.thorough(), i);
            p.abort_pct = *rng.pick(&[5, 15, 30]);
            p
        })
        .collect();
    run_parallel(n, workers(), |i| match txw::run(&params[i]) {
        Err(e) => rep.inconclusive(&e),
        Ok(r) => {
            rep.eval(1);
            let labels = r.cell.labels();
            let events = r.cell.log.snapshot();
            let exits: std::collections::HashMap<String, String> = r
                .traces
                .iter()
                .map(|t| (t.id.clone(), t.how_closed.clone()))
                .collect();
            for e in &events {
                if let Ev::Handover {
                    b,
                    sid,
                    prev,
                    next,
                    state,
                    ..
                } = &e.ev
                {
                    rep.count("handovers_observed", 1);
                    rep.count("generic_handovers", 1);
                    for comp in dirty_components(state, r.params.cache > 0) {
                        let how = exits.get(prev).cloned().unwrap_or_default();
                        rep.violation(
                            &format!("C02|generic|mode={}|prev_exit={}|dirty={}", r.params.mode, how, comp),
                            &format!(
                                "workload {}: {} sid={} passed from client {} (exit: {}) to client {} with dirty state [{}]",
                                r.params.describe(), labels[*b], sid, prev, how, next, state.render()
                            ),
                            json!({"params": r.params.describe(), "seed": r.params.seed, "state": state.render()}),
                        );
                    }
                }
            }
        }
    });
}

pub fn run(tier: &str) -> i32 {
    let rep = Report::new(
        "C02",
        tier,
        "exploration",
        "case = (state-creating prefix of client A) x (way A stops, incl. byte offsets inside its next message, malformed messages, timeouts) x (statement cache on/off) x (pool mode), transaction/COPY prefixes also with cleanup_server_connections = false; pool_size=1; oracle = the mock backend's own session state at the first message of the next client + that client's probe reply; plus every hand-over of a generated multi-client workload; distinct = distinct cases",
    );
    rep.assume("mock backend's session-state rules are PostgreSQL's (DESIGN.md 2.2); SET inside a transaction block is excluded (property says 'outside a transaction')");
    rep.assume("tracked parameters (client_encoding, DateStyle, TimeZone, standard_conforming_strings, application_name) are judged by C12, not here");
    let thorough = rep.thorough();
    let mut cases = vec![];
    for mode in ["transaction", "session"] {
        for cache in [false, true] {
            for p in PREFIXES {
                for s in STOPS {
                    let c = Case {
                        prefix: p.to_string(),
                        stop: s.to_string(),
                        cache,
                        mode: mode.to_string(),
                        offset: None,
                        cleanup: true,
                        same_app: false,
                    };
                    if applicable(&c) {
                        // COPY prefixes also with a next client of the same application_name
                        if !cache && p.contains("copy") {
                            cases.push(Case { same_app: true, ..c.clone() });
                        }
                        // transaction / COPY prefixes also with cleanup_server_connections = false
                        if !cache && mode == "transaction" && (in_txn_prefix(p) || p.contains("copy")) {
                            cases.push(Case { cleanup: false, ..c.clone() });
                        }
                        cases.push(c);
                    }
                }
            }
        }
    }
    if thorough {
        // every byte offset of the next message, for every prefix
        for mode in ["transaction", "session"] {
            for p in PREFIXES {
                for off in 1..60 {
                    cases.push(Case {
                        prefix: p.to_string(),
                        stop: "partial_1".into(),
                        cache: false,
                        mode: mode.into(),
                        offset: Some(off),
                        cleanup: true,
                        same_app: false,
                    });
                }
            }
        }
    }
    if let Ok(f) = std::env::var("PGV_ONLY") {
        cases.retain(|c| c.name().contains(&f));
    }
    let n = cases.len();
    run_parallel(n, workers(), |i| {
        // environmental failures are retried once
        for attempt in 0..2 {
            match run_case(&cases[i], &rep) {
                Ok(()) => break,
                Err(e) => {
                    if attempt == 1 {
                        rep.inconclusive(&format!("{}: {}", cases[i].name(), e));
                    }
                }
            }
        }
    });
    rep.count("cases", n as u64);
    if std::env::var("PGV_ONLY").is_err() {
        generic_leg(&rep, if thorough { 1500 } else { 150 });
    }
    rep.sample(json!({"case": cases[0].name(), "meaning": "A runs prefix, stops, fresh client B probes the single server connection; mock reports its own session state at B's first message"}));
    rep.sample(json!({"case": cases[n / 2].name()}));
    rep.finish(&[("handovers_observed", 300), ("probes_clean_reply", 100)])
}
