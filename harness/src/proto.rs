//! PostgreSQL v3 wire protocol: builders and a framing parser, both directions.
//! Written from the protocol documentation; independent of pgcat's `messages.rs`.

use std::io::{self, Read};

#[derive(Clone, Debug, PartialEq, Eq)]
pub struct Msg {
    pub typ: u8,
    pub body: Vec<u8>,
}

impl Msg {
    pub fn new(typ: u8, body: Vec<u8>) -> Msg {
        Msg { typ, body }
    }
    pub fn encode(&self) -> Vec<u8> {
        let mut v = Vec::with_capacity(self.body.len() + 5);
        v.push(self.typ);
        v.extend_from_slice(&((self.body.len() as u32 + 4).to_be_bytes()));
        v.extend_from_slice(&self.body);
        v
    }
    pub fn wire_len(&self) -> usize {
        self.body.len() + 5
    }
    /// First C string of the body.
    pub fn cstr(&self, at: usize) -> (String, usize) {
        cstr_at(&self.body, at)
    }
    /// Fields of an ErrorResponse/NoticeResponse.
    pub fn err_fields(&self) -> Vec<(u8, String)> {
        let mut out = vec![];
        let mut i = 0;
        while i < self.body.len() && self.body[i] != 0 {
            let k = self.body[i];
            let (s, n) = cstr_at(&self.body, i + 1);
            out.push((k, s));
            i = n;
        }
        out
    }
    pub fn err_field(&self, k: u8) -> Option<String> {
        self.err_fields().into_iter().find(|f| f.0 == k).map(|f| f.1)
    }
    pub fn err_message(&self) -> String {
        self.err_field(b'M').unwrap_or_default()
    }
    pub fn err_code(&self) -> String {
        self.err_field(b'C').unwrap_or_default()
    }
    /// DataRow columns.
    pub fn row(&self) -> Vec<Option<Vec<u8>>> {
        let mut out = vec![];
        if self.body.len() < 2 {
            return out;
        }
        let n = u16::from_be_bytes([self.body[0], self.body[1]]) as usize;
        let mut i = 2;
        for _ in 0..n {
            if i + 4 > self.body.len() {
                break;
            }
            let l = i32::from_be_bytes([
                self.body[i],
                self.body[i + 1],
                self.body[i + 2],
                self.body[i + 3],
            ]);
            i += 4;
            if l < 0 {
                out.push(None);
            } else {
                let l = l as usize;
                if i + l > self.body.len() {
                    break;
                }
                out.push(Some(self.body[i..i + l].to_vec()));
                i += l;
            }
        }
        out
    }
    pub fn row_strings(&self) -> Vec<String> {
        self.row()
            .into_iter()
            .map(|c| match c {
                Some(v) => String::from_utf8_lossy(&v).to_string(),
                None => "NULL".to_string(),
            })
            .collect()
    }
    /// RowDescription column names.
    pub fn columns(&self) -> Vec<String> {
        let mut out = vec![];
        if self.body.len() < 2 {
            return out;
        }
        let n = u16::from_be_bytes([self.body[0], self.body[1]]) as usize;
        let mut i = 2;
        for _ in 0..n {
            let (s, nx) = cstr_at(&self.body, i);
            out.push(s);
            i = nx + 18;
            if i > self.body.len() {
                break;
            }
        }
        out
    }
}

pub fn cstr_at(b: &[u8], at: usize) -> (String, usize) {
    let at = at.min(b.len());
    let mut i = at;
    while i < b.len() && b[i] != 0 {
        i += 1;
    }
    let s = String::from_utf8_lossy(&b[at..i]).to_string();
    (s, i + 1)
}

/// C string that must be NUL-terminated inside the body (None = malformed message).
pub fn cstr_checked(b: &[u8], at: usize) -> Option<(String, usize)> {
    if at > b.len() {
        return None;
    }
    let mut i = at;
    while i < b.len() && b[i] != 0 {
        i += 1;
    }
    if i >= b.len() {
        return None;
    }
    Some((String::from_utf8_lossy(&b[at..i]).to_string(), i + 1))
}

pub fn cstr_bytes_at(b: &[u8], at: usize) -> (Vec<u8>, usize) {
    let at = at.min(b.len());
    let mut i = at;
    while i < b.len() && b[i] != 0 {
        i += 1;
    }
    (b[at..i].to_vec(), i + 1)
}

fn put_cstr(v: &mut Vec<u8>, s: &str) {
    v.extend_from_slice(s.as_bytes());
    v.push(0);
}

// ---------------------------------------------------------------- frontend messages

pub fn startup_message(params: &[(String, String)]) -> Vec<u8> {
    let mut body = vec![];
    body.extend_from_slice(&196608i32.to_be_bytes());
    for (k, v) in params {
        put_cstr(&mut body, k);
        put_cstr(&mut body, v);
    }
    body.push(0);
    let mut out = ((body.len() as u32 + 4).to_be_bytes()).to_vec();
    out.extend_from_slice(&body);
    out
}

pub fn ssl_request() -> Vec<u8> {
    let mut out = 8u32.to_be_bytes().to_vec();
    out.extend_from_slice(&80877103i32.to_be_bytes());
    out
}

pub fn cancel_request(pid: i32, key: i32) -> Vec<u8> {
    let mut out = 16u32.to_be_bytes().to_vec();
    out.extend_from_slice(&80877102i32.to_be_bytes());
    out.extend_from_slice(&pid.to_be_bytes());
    out.extend_from_slice(&key.to_be_bytes());
    out
}

pub fn query(sql: &str) -> Vec<u8> {
    let mut body = vec![];
    put_cstr(&mut body, sql);
    Msg::new(b'Q', body).encode()
}

pub fn query_bytes(sql: &[u8]) -> Vec<u8> {
    let mut body = sql.to_vec();
    body.push(0);
    Msg::new(b'Q', body).encode()
}

pub fn password_message(resp: &[u8]) -> Vec<u8> {
    Msg::new(b'p', resp.to_vec()).encode()
}

pub fn parse(name: &str, sql: &str, types: &[i32]) -> Vec<u8> {
    let mut body = vec![];
    put_cstr(&mut body, name);
    put_cstr(&mut body, sql);
    body.extend_from_slice(&(types.len() as i16).to_be_bytes());
    for t in types {
        body.extend_from_slice(&t.to_be_bytes());
    }
    Msg::new(b'P', body).encode()
}

/// Bind with text/binary parameters. `formats` may be empty (all text).
pub fn bind(
    portal: &str,
    stmt: &str,
    formats: &[i16],
    params: &[Option<Vec<u8>>],
    result_formats: &[i16],
) -> Vec<u8> {
    let mut body = vec![];
    put_cstr(&mut body, portal);
    put_cstr(&mut body, stmt);
    body.extend_from_slice(&(formats.len() as i16).to_be_bytes());
    for f in formats {
        body.extend_from_slice(&f.to_be_bytes());
    }
    body.extend_from_slice(&(params.len() as i16).to_be_bytes());
    for p in params {
        match p {
            None => body.extend_from_slice(&(-1i32).to_be_bytes()),
            Some(v) => {
                body.extend_from_slice(&(v.len() as i32).to_be_bytes());
                body.extend_from_slice(v);
            }
        }
    }
    body.extend_from_slice(&(result_formats.len() as i16).to_be_bytes());
    for f in result_formats {
        body.extend_from_slice(&f.to_be_bytes());
    }
    Msg::new(b'B', body).encode()
}

pub fn describe(kind: u8, name: &str) -> Vec<u8> {
    let mut body = vec![kind];
    put_cstr(&mut body, name);
    Msg::new(b'D', body).encode()
}

pub fn execute(portal: &str, max_rows: i32) -> Vec<u8> {
    let mut body = vec![];
    put_cstr(&mut body, portal);
    body.extend_from_slice(&max_rows.to_be_bytes());
    Msg::new(b'E', body).encode()
}

pub fn close(kind: u8, name: &str) -> Vec<u8> {
    let mut body = vec![kind];
    put_cstr(&mut body, name);
    Msg::new(b'C', body).encode()
}

pub fn sync() -> Vec<u8> {
    Msg::new(b'S', vec![]).encode()
}

pub fn flush() -> Vec<u8> {
    Msg::new(b'H', vec![]).encode()
}

pub fn terminate() -> Vec<u8> {
    Msg::new(b'X', vec![]).encode()
}

pub fn copy_data(data: &[u8]) -> Vec<u8> {
    Msg::new(b'd', data.to_vec()).encode()
}

pub fn copy_done() -> Vec<u8> {
    Msg::new(b'c', vec![]).encode()
}

pub fn copy_fail(msg: &str) -> Vec<u8> {
    let mut body = vec![];
    put_cstr(&mut body, msg);
    Msg::new(b'f', body).encode()
}

// ---------------------------------------------------------------- backend messages

pub fn auth_ok() -> Vec<u8> {
    Msg::new(b'R', 0i32.to_be_bytes().to_vec()).encode()
}

pub fn auth_md5(salt: [u8; 4]) -> Vec<u8> {
    let mut body = 5i32.to_be_bytes().to_vec();
    body.extend_from_slice(&salt);
    Msg::new(b'R', body).encode()
}

pub fn parameter_status(k: &str, v: &str) -> Vec<u8> {
    let mut body = vec![];
    put_cstr(&mut body, k);
    put_cstr(&mut body, v);
    Msg::new(b'S', body).encode()
}

pub fn backend_key_data(pid: i32, key: i32) -> Vec<u8> {
    let mut body = pid.to_be_bytes().to_vec();
    body.extend_from_slice(&key.to_be_bytes());
    Msg::new(b'K', body).encode()
}

pub fn ready_for_query(status: u8) -> Vec<u8> {
    Msg::new(b'Z', vec![status]).encode()
}

pub fn command_complete(tag: &str) -> Vec<u8> {
    let mut body = vec![];
    put_cstr(&mut body, tag);
    Msg::new(b'C', body).encode()
}

pub fn empty_query_response() -> Vec<u8> {
    Msg::new(b'I', vec![]).encode()
}

pub fn row_description(cols: &[&str]) -> Vec<u8> {
    let mut body = (cols.len() as i16).to_be_bytes().to_vec();
    for c in cols {
        put_cstr(&mut body, c);
        body.extend_from_slice(&0i32.to_be_bytes()); // table oid
        body.extend_from_slice(&0i16.to_be_bytes()); // attnum
        body.extend_from_slice(&25i32.to_be_bytes()); // text
        body.extend_from_slice(&(-1i16).to_be_bytes()); // typlen
        body.extend_from_slice(&(-1i32).to_be_bytes()); // typmod
        body.extend_from_slice(&0i16.to_be_bytes()); // format
    }
    Msg::new(b'T', body).encode()
}

pub fn data_row(cols: &[&[u8]]) -> Vec<u8> {
    let mut body = (cols.len() as i16).to_be_bytes().to_vec();
    for c in cols {
        body.extend_from_slice(&(c.len() as i32).to_be_bytes());
        body.extend_from_slice(c);
    }
    Msg::new(b'D', body).encode()
}

pub fn error_response(severity: &str, code: &str, message: &str) -> Vec<u8> {
    let mut body = vec![];
    body.push(b'S');
    put_cstr(&mut body, severity);
    body.push(b'V');
    put_cstr(&mut body, severity);
    body.push(b'C');
    put_cstr(&mut body, code);
    body.push(b'M');
    put_cstr(&mut body, message);
    body.push(0);
    Msg::new(b'E', body).encode()
}

/// ErrorResponse whose message field is raw bytes (servers echo identifiers in the client's encoding,
/// which need not be UTF-8).
pub fn error_response_bytes(severity: &str, code: &str, message: &[u8]) -> Vec<u8> {
    let mut body = vec![];
    body.push(b'S');
    put_cstr(&mut body, severity);
    body.push(b'V');
    put_cstr(&mut body, severity);
    body.push(b'C');
    put_cstr(&mut body, code);
    body.push(b'M');
    body.extend_from_slice(message);
    body.push(0);
    body.push(0);
    Msg::new(b'E', body).encode()
}

pub fn notice_response(code: &str, message: &str) -> Vec<u8> {
    let mut body = vec![];
    body.push(b'S');
    put_cstr(&mut body, "WARNING");
    body.push(b'V');
    put_cstr(&mut body, "WARNING");
    body.push(b'C');
    put_cstr(&mut body, code);
    body.push(b'M');
    put_cstr(&mut body, message);
    body.push(0);
    Msg::new(b'N', body).encode()
}

pub fn notification_response(pid: i32, channel: &str, payload: &str) -> Vec<u8> {
    let mut body = pid.to_be_bytes().to_vec();
    put_cstr(&mut body, channel);
    put_cstr(&mut body, payload);
    Msg::new(b'A', body).encode()
}

pub fn parse_complete() -> Vec<u8> {
    Msg::new(b'1', vec![]).encode()
}
pub fn bind_complete() -> Vec<u8> {
    Msg::new(b'2', vec![]).encode()
}
pub fn close_complete() -> Vec<u8> {
    Msg::new(b'3', vec![]).encode()
}
pub fn no_data() -> Vec<u8> {
    Msg::new(b'n', vec![]).encode()
}
pub fn portal_suspended() -> Vec<u8> {
    Msg::new(b's', vec![]).encode()
}
pub fn parameter_description(types: &[i32]) -> Vec<u8> {
    let mut body = (types.len() as i16).to_be_bytes().to_vec();
    for t in types {
        body.extend_from_slice(&t.to_be_bytes());
    }
    Msg::new(b't', body).encode()
}
pub fn copy_in_response() -> Vec<u8> {
    Msg::new(b'G', vec![0, 0, 1, 0, 0]).encode()
}
pub fn copy_out_response() -> Vec<u8> {
    Msg::new(b'H', vec![0, 0, 1, 0, 0]).encode()
}

// ---------------------------------------------------------------- framing

/// Read one typed message (blocking). Returns Ok(None) on clean EOF at a message boundary.
pub fn read_msg<R: Read>(r: &mut R, max_len: usize) -> io::Result<Option<Msg>> {
    let mut hdr = [0u8; 5];
    let mut got = 0;
    while got < 5 {
        let n = r.read(&mut hdr[got..])?;
        if n == 0 {
            if got == 0 {
                return Ok(None);
            }
            return Err(io::Error::new(
                io::ErrorKind::UnexpectedEof,
                "eof inside message header",
            ));
        }
        got += n;
    }
    let len = u32::from_be_bytes([hdr[1], hdr[2], hdr[3], hdr[4]]) as usize;
    if len < 4 || len - 4 > max_len {
        return Err(io::Error::new(
            io::ErrorKind::InvalidData,
            format!("bad message length {} for type {:?}", len, hdr[0] as char),
        ));
    }
    let mut body = vec![0u8; len - 4];
    r.read_exact(&mut body)?;
    Ok(Some(Msg { typ: hdr[0], body }))
}

/// Split a byte stream into messages; returns the messages and the number of bytes consumed.
pub fn split_msgs(buf: &[u8]) -> (Vec<Msg>, usize) {
    let mut out = vec![];
    let mut i = 0;
    while i + 5 <= buf.len() {
        let len = u32::from_be_bytes([buf[i + 1], buf[i + 2], buf[i + 3], buf[i + 4]]) as usize;
        if len < 4 || i + 1 + len > buf.len() {
            break;
        }
        out.push(Msg {
            typ: buf[i],
            body: buf[i + 5..i + 1 + len].to_vec(),
        });
        i += 1 + len;
    }
    (out, i)
}

pub fn type_string(msgs: &[Msg]) -> String {
    msgs.iter().map(|m| m.typ as char).collect()
}
