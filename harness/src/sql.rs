//! A tiny SQL lexer: statement splitting, first keywords, directive comments, SET parsing.
//! Enough of PostgreSQL's lexical rules to see a simple-Query string the way the server would.

use std::collections::BTreeMap;

/// Split a simple-Query string into statements at top-level semicolons.
/// Err(()) = unterminated quote / comment (PostgreSQL: syntax error for the whole message).
pub fn split_statements(sql: &str) -> Result<Vec<String>, String> {
    let b = sql.as_bytes();
    let mut out = vec![];
    let mut cur_start = 0usize;
    let mut i = 0usize;
    while i < b.len() {
        let c = b[i];
        match c {
            b'\'' => {
                // E'' strings allow backslash escapes
                let is_e = i > 0 && (b[i - 1] == b'E' || b[i - 1] == b'e') && {
                    i < 2 || !(b[i - 2].is_ascii_alphanumeric() || b[i - 2] == b'_')
                };
                i += 1;
                loop {
                    if i >= b.len() {
                        return Err("unterminated quoted string".into());
                    }
                    if is_e && b[i] == b'\\' {
                        i += 2;
                        continue;
                    }
                    if b[i] == b'\'' {
                        if i + 1 < b.len() && b[i + 1] == b'\'' {
                            i += 2;
                            continue;
                        }
                        i += 1;
                        break;
                    }
                    i += 1;
                }
            }
            b'"' => {
                i += 1;
                loop {
                    if i >= b.len() {
                        return Err("unterminated quoted identifier".into());
                    }
                    if b[i] == b'"' {
                        if i + 1 < b.len() && b[i + 1] == b'"' {
                            i += 2;
                            continue;
                        }
                        i += 1;
                        break;
                    }
                    i += 1;
                }
            }
            b'-' if i + 1 < b.len() && b[i + 1] == b'-' => {
                while i < b.len() && b[i] != b'\n' {
                    i += 1;
                }
            }
            b'/' if i + 1 < b.len() && b[i + 1] == b'*' => {
                let mut depth = 1;
                i += 2;
                while depth > 0 {
                    if i + 1 >= b.len() {
                        return Err("unterminated /* comment".into());
                    }
                    if b[i] == b'/' && b[i + 1] == b'*' {
                        depth += 1;
                        i += 2;
                    } else if b[i] == b'*' && b[i + 1] == b'/' {
                        depth -= 1;
                        i += 2;
                    } else {
                        i += 1;
                    }
                }
            }
            b'$' => {
                // dollar quote: $tag$ ... $tag$ ; tag = identifier chars or empty
                let mut j = i + 1;
                while j < b.len() && (b[j].is_ascii_alphanumeric() || b[j] == b'_') {
                    j += 1;
                }
                let prev_ident = i > 0 && (b[i - 1].is_ascii_alphanumeric() || b[i - 1] == b'_');
                if !prev_ident
                    && j < b.len()
                    && b[j] == b'$'
                    && !(j > i + 1 && b[i + 1].is_ascii_digit())
                {
                    let tag = &b[i..=j];
                    let mut k = j + 1;
                    let mut found = false;
                    while k + tag.len() <= b.len() {
                        if &b[k..k + tag.len()] == tag {
                            found = true;
                            break;
                        }
                        k += 1;
                    }
                    if !found {
                        return Err("unterminated dollar-quoted string".into());
                    }
                    i = k + tag.len();
                } else {
                    i += 1;
                }
            }
            b';' => {
                out.push(sql[cur_start..i].to_string());
                i += 1;
                cur_start = i;
            }
            _ => i += 1,
        }
    }
    if cur_start < b.len() {
        out.push(sql[cur_start..].to_string());
    }
    Ok(out)
}

/// Remove comments (keeps strings) and collapse whitespace; used to find keywords.
pub fn strip_comments(stmt: &str) -> String {
    let b = stmt.as_bytes();
    let mut out = String::new();
    let mut i = 0;
    while i < b.len() {
        if b[i] == b'-' && i + 1 < b.len() && b[i + 1] == b'-' {
            while i < b.len() && b[i] != b'\n' {
                i += 1;
            }
            out.push(' ');
        } else if b[i] == b'/' && i + 1 < b.len() && b[i + 1] == b'*' {
            let mut depth = 1;
            i += 2;
            while depth > 0 && i + 1 < b.len() {
                if b[i] == b'/' && b[i + 1] == b'*' {
                    depth += 1;
                    i += 2;
                } else if b[i] == b'*' && b[i + 1] == b'/' {
                    depth -= 1;
                    i += 2;
                } else {
                    i += 1;
                }
            }
            if depth > 0 {
                i = b.len();
            }
            out.push(' ');
        } else if b[i] == b'\'' {
            let s = i;
            i += 1;
            while i < b.len() {
                if b[i] == b'\'' {
                    if i + 1 < b.len() && b[i + 1] == b'\'' {
                        i += 2;
                        continue;
                    }
                    i += 1;
                    break;
                }
                i += 1;
            }
            out.push_str(&String::from_utf8_lossy(&b[s..i.min(b.len())]));
        } else {
            // push the whole UTF-8 char
            let ch_len = utf8_len(b[i]);
            let end = (i + ch_len).min(b.len());
            out.push_str(&String::from_utf8_lossy(&b[i..end]));
            i = end;
        }
    }
    out
}

fn utf8_len(b: u8) -> usize {
    if b < 0x80 {
        1
    } else if b >> 5 == 0b110 {
        2
    } else if b >> 4 == 0b1110 {
        3
    } else if b >> 3 == 0b11110 {
        4
    } else {
        1
    }
}

/// Upper-cased leading words of a statement (comments removed).
pub fn keywords(stmt: &str, n: usize) -> Vec<String> {
    strip_comments(stmt)
        .split(|c: char| c.is_whitespace() || c == '(' || c == ';')
        .filter(|w| !w.is_empty())
        .take(n)
        .map(|w| w.to_ascii_uppercase())
        .collect()
}

/// The `/*v k=v k=v */` directive inside a statement, if any.
pub fn directive(stmt: &str) -> BTreeMap<String, String> {
    let mut out = BTreeMap::new();
    if let Some(s) = stmt.find("/*v ") {
        if let Some(e) = stmt[s..].find("*/") {
            let inner = &stmt[s + 4..s + e];
            for tok in inner.split_whitespace() {
                if let Some(eq) = tok.find('=') {
                    out.insert(tok[..eq].to_string(), tok[eq + 1..].to_string());
                } else {
                    out.insert(tok.to_string(), "1".to_string());
                }
            }
        }
    }
    out
}

/// Build a directive comment.
pub fn tag(client: &str, qid: &str, extra: &str) -> String {
    if extra.is_empty() {
        format!("/*v c={} q={} */", client, qid)
    } else {
        format!("/*v c={} q={} {} */", client, qid, extra)
    }
}

#[derive(Debug, Clone, PartialEq, Eq)]
pub enum SetKind {
    Session,
    Local,
}

#[derive(Debug, Clone, PartialEq, Eq)]
pub struct SetStmt {
    pub kind: SetKind,
    pub name: String,
    /// None = DEFAULT
    pub value: Option<String>,
}

/// Parse `SET [SESSION|LOCAL] name {TO|=} value`, `SET TIME ZONE v`, `SET ROLE r`.
/// Returns Err for anything PostgreSQL would call a syntax error (approximation).
pub fn parse_set(stmt: &str) -> Result<SetStmt, String> {
    let s = strip_comments(stmt);
    let s = s.trim().trim_end_matches(';').trim();
    let mut rest = s;
    let w = take_word(&mut rest).ok_or("empty")?;
    if !w.eq_ignore_ascii_case("SET") {
        return Err("not SET".into());
    }
    let mut kind = SetKind::Session;
    let mut name = take_word(&mut rest).ok_or("syntax error at end of input")?;
    if name.eq_ignore_ascii_case("SESSION") {
        // SET SESSION AUTHORIZATION / SET SESSION CHARACTERISTICS are not modelled
        let save = rest;
        let nx = take_word(&mut rest).ok_or("syntax error at end of input")?;
        if nx.eq_ignore_ascii_case("AUTHORIZATION") || nx.eq_ignore_ascii_case("CHARACTERISTICS") {
            return Err("unsupported SET SESSION form".into());
        }
        let _ = save;
        name = nx;
    } else if name.eq_ignore_ascii_case("LOCAL") {
        kind = SetKind::Local;
        name = take_word(&mut rest).ok_or("syntax error at end of input")?;
    }
    if name.eq_ignore_ascii_case("TIME") {
        let z = take_word(&mut rest).ok_or("syntax error")?;
        if !z.eq_ignore_ascii_case("ZONE") {
            return Err("syntax error at or near TIME".into());
        }
        let v = take_value(&mut rest)?;
        if !rest.trim().is_empty() {
            return Err(format!("syntax error at or near \"{}\"", rest.trim()));
        }
        return Ok(SetStmt {
            kind,
            name: "timezone".into(),
            value: v,
        });
    }
    if name.eq_ignore_ascii_case("ROLE") {
        let v = take_value(&mut rest)?;
        if !rest.trim().is_empty() {
            return Err(format!("syntax error at or near \"{}\"", rest.trim()));
        }
        return Ok(SetStmt {
            kind,
            name: "role".into(),
            value: v.map(|x| if x.eq_ignore_ascii_case("none") { "none".into() } else { x }),
        });
    }
    if !name
        .chars()
        .all(|c| c.is_ascii_alphanumeric() || c == '_' || c == '.')
    {
        return Err(format!("syntax error at or near \"{}\"", name));
    }
    let rest_t = rest.trim_start();
    let after = if let Some(r) = rest_t.strip_prefix('=') {
        r
    } else if rest_t.len() >= 2
        && rest_t[..2].eq_ignore_ascii_case("TO")
        && rest_t[2..]
            .chars()
            .next()
            .map(|c| c.is_whitespace() || c == '\'' || c == '"')
            .unwrap_or(false)
    {
        &rest_t[2..]
    } else {
        return Err(format!("syntax error at or near \"{}\"", rest_t));
    };
    let mut rest = after;
    let v = take_value(&mut rest)?;
    if !rest.trim().is_empty() {
        // list values: a, b  (e.g. search_path, DateStyle) -- accept comma lists
        let mut full = v.clone().unwrap_or_default();
        let mut r = rest.trim_start();
        while let Some(r2) = r.strip_prefix(',') {
            let mut r3 = r2;
            let nv = take_value(&mut r3)?;
            full.push_str(", ");
            full.push_str(&nv.unwrap_or_default());
            r = r3.trim_start();
        }
        if !r.is_empty() {
            return Err(format!("syntax error at or near \"{}\"", r));
        }
        return Ok(SetStmt {
            kind,
            name: name.to_ascii_lowercase(),
            value: Some(full),
        });
    }
    Ok(SetStmt {
        kind,
        name: name.to_ascii_lowercase(),
        value: v,
    })
}

fn take_word<'a>(rest: &mut &'a str) -> Option<&'a str> {
    let r = rest.trim_start();
    if r.is_empty() {
        return None;
    }
    let end = r
        .find(|c: char| c.is_whitespace() || c == '=' || c == '\'' || c == ';')
        .unwrap_or(r.len());
    if end == 0 {
        return None;
    }
    *rest = &r[end..];
    Some(&r[..end])
}

/// value: 'string' (with '' escapes) | "ident" | bare token | DEFAULT (=> None)
fn take_value(rest: &mut &str) -> Result<Option<String>, String> {
    let r = rest.trim_start();
    if r.is_empty() {
        return Err("syntax error at end of input".into());
    }
    let b = r.as_bytes();
    if b[0] == b'\'' {
        let mut out = Vec::new();
        let mut i = 1;
        loop {
            if i >= b.len() {
                return Err("unterminated quoted string".into());
            }
            if b[i] == b'\'' {
                if i + 1 < b.len() && b[i + 1] == b'\'' {
                    out.push(b'\'');
                    i += 2;
                    continue;
                }
                i += 1;
                break;
            }
            out.push(b[i]);
            i += 1;
        }
        *rest = &r[i..];
        return Ok(Some(String::from_utf8_lossy(&out).to_string()));
    }
    if b[0] == b'"' {
        let mut out = Vec::new();
        let mut i = 1;
        loop {
            if i >= b.len() {
                return Err("unterminated quoted identifier".into());
            }
            if b[i] == b'"' {
                if i + 1 < b.len() && b[i + 1] == b'"' {
                    out.push(b'"');
                    i += 2;
                    continue;
                }
                i += 1;
                break;
            }
            out.push(b[i]);
            i += 1;
        }
        *rest = &r[i..];
        return Ok(Some(String::from_utf8_lossy(&out).to_string()));
    }
    let end = r
        .find(|c: char| c.is_whitespace() || c == ',' || c == ';' || c == '\'')
        .unwrap_or(r.len());
    if end == 0 {
        return Err(format!("syntax error at or near \"{}\"", r));
    }
    let tok = &r[..end];
    *rest = &r[end..];
    if tok.eq_ignore_ascii_case("DEFAULT") {
        Ok(None)
    } else {
        Ok(Some(tok.to_string()))
    }
}

/// Quote a value as a PostgreSQL string literal (standard_conforming_strings = on).
pub fn quote_literal(v: &str) -> String {
    format!("'{}'", v.replace('\'', "''"))
}

#[cfg(test)]
mod t {
    use super::*;
    #[test]
    fn split() {
        assert_eq!(
            split_statements("select 1; select ';' ; /* ; */ select $$;$$").unwrap().len(),
            3
        );
        assert!(split_statements("select 'abc").is_err());
        assert_eq!(split_statements(";").unwrap(), vec!["".to_string()]);
        assert_eq!(
            split_statements("SET a TO 'x';SET b TO 'y';").unwrap().len(),
            2
        );
    }
    #[test]
    fn set() {
        let s = parse_set("SET application_name TO 'it''s'").unwrap();
        assert_eq!(s.name, "application_name");
        assert_eq!(s.value.unwrap(), "it's");
        assert!(parse_set("SET application_name TO 'a'b'").is_err());
        let s = parse_set("set DateStyle = ISO, DMY").unwrap();
        assert_eq!(s.value.unwrap(), "ISO, DMY");
        let s = parse_set("SET LOCAL work_mem TO '1MB'").unwrap();
        assert_eq!(s.kind, SetKind::Local);
        assert!(parse_set("SET SERVER ROLE TO 'primary'").is_err());
        let s = parse_set("SET TIME ZONE 'UTC'").unwrap();
        assert_eq!(s.name, "timezone");
    }
    #[test]
    fn dir() {
        let d = directive("select 1 /*v c=3 q=c3.t1.q2 rows=5 */");
        assert_eq!(d["c"], "3");
        assert_eq!(d["rows"], "5");
    }
}
