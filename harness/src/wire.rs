//! Scripted wire client: raw protocol v3 over TCP (or TLS), records everything it sends/receives.

use crate::proto::{self, Msg};
use crate::util::{md5_password_response, now_ns};
use std::io::{Read, Write};
use std::net::{Shutdown, SocketAddr, TcpStream};
use std::sync::Arc;
use std::time::Duration;

pub enum Stream {
    Plain(TcpStream),
    Tls(Box<rustls::StreamOwned<rustls::ClientConnection, TcpStream>>),
}

impl Stream {
    pub fn tcp(&self) -> &TcpStream {
        match self {
            Stream::Plain(s) => s,
            Stream::Tls(s) => &s.sock,
        }
    }
}

impl Read for Stream {
    fn read(&mut self, buf: &mut [u8]) -> std::io::Result<usize> {
        match self {
            Stream::Plain(s) => s.read(buf),
            Stream::Tls(s) => s.read(buf),
        }
    }
}

impl Write for Stream {
    fn write(&mut self, buf: &[u8]) -> std::io::Result<usize> {
        match self {
            Stream::Plain(s) => s.write(buf),
            Stream::Tls(s) => s.write(buf),
        }
    }
    fn flush(&mut self) -> std::io::Result<()> {
        match self {
            Stream::Plain(s) => s.flush(),
            Stream::Tls(s) => s.flush(),
        }
    }
}

#[derive(Clone, Debug)]
pub struct StartupOpts {
    pub user: String,
    pub database: String,
    pub password: Option<String>,
    pub params: Vec<(String, String)>,
    pub tls: bool,
    /// libpq's sslmode=prefer: send SSLRequest first, continue in plain text when answered 'N'
    pub tls_prefer: bool,
}

impl StartupOpts {
    pub fn new(user: &str, database: &str, password: &str) -> StartupOpts {
        StartupOpts {
            user: user.into(),
            database: database.into(),
            password: Some(password.into()),
            params: vec![],
            tls: false,
            tls_prefer: false,
        }
    }
    pub fn prefer_tls(mut self, on: bool) -> StartupOpts {
        self.tls_prefer = on;
        self
    }
    pub fn app(mut self, name: &str) -> StartupOpts {
        self.params.push(("application_name".into(), name.into()));
        self
    }
    pub fn param(mut self, k: &str, v: &str) -> StartupOpts {
        self.params.push((k.into(), v.into()));
        self
    }
}

#[derive(Debug)]
pub enum ConnErr {
    Io(String),
    /// server answered with ErrorResponse during startup
    Refused { code: String, message: String },
    Timeout,
    Protocol(String),
}

impl std::fmt::Display for ConnErr {
    fn fmt(&self, f: &mut std::fmt::Formatter<'_>) -> std::fmt::Result {
        match self {
            ConnErr::Io(s) => write!(f, "io: {}", s),
            ConnErr::Refused { code, message } => write!(f, "refused {}: {}", code, message),
            ConnErr::Timeout => write!(f, "timeout"),
            ConnErr::Protocol(s) => write!(f, "protocol: {}", s),
        }
    }
}

#[derive(Debug, Clone, PartialEq, Eq)]
pub enum ReadErr {
    Timeout,
    Eof,
    Io(String),
}

pub struct Conn {
    pub stream: Stream,
    pub pid: i32,
    pub key: i32,
    /// ParameterStatus values as last reported to this client
    pub params: std::collections::BTreeMap<String, String>,
    /// every byte received after startup, when `record` is set
    pub rx: Vec<u8>,
    pub record: bool,
    pub salt: Option<[u8; 4]>,
    pub t_connected: u64,
    pub last_status: u8,
    /// all ParameterStatus messages received after startup (key, value)
    pub param_updates: Vec<(String, String)>,
    pub startup_msgs: Vec<Msg>,
    /// a read for a whole reply (`read_until_ready`) timed out: the reply may still arrive later,
    /// so every further request/reply exchange on this connection would be one reply behind.
    /// Further `query` calls fail at once instead of reporting a stale reply as the new one.
    pub desynced: bool,
}

pub struct NoVerify;
impl rustls::client::ServerCertVerifier for NoVerify {
    fn verify_server_cert(
        &self,
        _end_entity: &rustls::Certificate,
        _intermediates: &[rustls::Certificate],
        _server_name: &rustls::ServerName,
        _scts: &mut dyn Iterator<Item = &[u8]>,
        _ocsp_response: &[u8],
        _now: std::time::SystemTime,
    ) -> Result<rustls::client::ServerCertVerified, rustls::Error> {
        Ok(rustls::client::ServerCertVerified::assertion())
    }
}

pub fn tls_client_config() -> Arc<rustls::ClientConfig> {
    let cfg = rustls::ClientConfig::builder()
        .with_safe_defaults()
        .with_custom_certificate_verifier(Arc::new(NoVerify))
        .with_no_client_auth();
    Arc::new(cfg)
}

pub fn tcp_connect(addr: &str, timeout_ms: u64) -> Result<TcpStream, ConnErr> {
    let sa: SocketAddr = addr
        .parse()
        .map_err(|e| ConnErr::Io(format!("bad addr {}: {}", addr, e)))?;
    let s = TcpStream::connect_timeout(&sa, Duration::from_millis(timeout_ms))
        .map_err(|e| ConnErr::Io(format!("connect: {}", e)))?;
    s.set_nodelay(true).ok();
    Ok(s)
}

impl Conn {
    /// Raw connection without startup (for hostile scenarios).
    pub fn raw(addr: &str) -> Result<Conn, ConnErr> {
        let s = tcp_connect(addr, 5000)?;
        Ok(Conn::from_stream(Stream::Plain(s)))
    }

    pub fn from_stream(stream: Stream) -> Conn {
        Conn {
            stream,
            pid: 0,
            key: 0,
            params: Default::default(),
            rx: vec![],
            record: false,
            salt: None,
            t_connected: 0,
            last_status: b'?',
            param_updates: vec![],
            startup_msgs: vec![],
            desynced: false,
        }
    }

    pub fn connect(addr: &str, opts: &StartupOpts) -> Result<Conn, ConnErr> {
        Conn::connect_with(addr, opts, 10_000, |_salt, user, pw| {
            md5_password_response(user, pw, _salt)
        })
    }

    /// Connect with a custom password-response function (for C09).
    pub fn connect_with<F>(
        addr: &str,
        opts: &StartupOpts,
        timeout_ms: u64,
        respond: F,
    ) -> Result<Conn, ConnErr>
    where
        F: Fn(&[u8], &str, &str) -> Vec<u8>,
    {
        let mut tcp = tcp_connect(addr, 5000)?;
        tcp.set_read_timeout(Some(Duration::from_millis(timeout_ms)))
            .ok();
        let stream = if opts.tls || opts.tls_prefer {
            tcp.write_all(&proto::ssl_request())
                .map_err(|e| ConnErr::Io(e.to_string()))?;
            let mut b = [0u8; 1];
            tcp.read_exact(&mut b)
                .map_err(|e| ConnErr::Io(format!("ssl answer: {}", e)))?;
            if b[0] == b'N' && opts.tls_prefer && !opts.tls {
                Stream::Plain(tcp)
            } else if b[0] != b'S' {
                return Err(ConnErr::Protocol(format!(
                    "server refused TLS: {:?}",
                    b[0] as char
                )));
            } else {
                let conn = rustls::ClientConnection::new(
                    tls_client_config(),
                    rustls::ServerName::try_from("localhost").unwrap(),
                )
                .map_err(|e| ConnErr::Io(e.to_string()))?;
                Stream::Tls(Box::new(rustls::StreamOwned::new(conn, tcp)))
            }
        } else {
            Stream::Plain(tcp)
        };
        let mut c = Conn::from_stream(stream);
        let mut params = vec![
            ("user".to_string(), opts.user.clone()),
            ("database".to_string(), opts.database.clone()),
        ];
        params.extend(opts.params.iter().cloned());
        c.send(&proto::startup_message(&params))
            .map_err(|e| ConnErr::Io(e.to_string()))?;
        loop {
            let m = match c.read_msg(timeout_ms) {
                Ok(m) => m,
                Err(ReadErr::Timeout) => return Err(ConnErr::Timeout),
                Err(ReadErr::Eof) => return Err(ConnErr::Io("eof during startup".into())),
                Err(ReadErr::Io(e)) => return Err(ConnErr::Io(e)),
            };
            c.startup_msgs.push(m.clone());
            match m.typ {
                b'R' => {
                    let code = i32::from_be_bytes([m.body[0], m.body[1], m.body[2], m.body[3]]);
                    match code {
                        0 => {}
                        5 => {
                            let salt = [m.body[4], m.body[5], m.body[6], m.body[7]];
                            c.salt = Some(salt);
                            let pw = opts.password.clone().unwrap_or_default();
                            let resp = respond(&salt, &opts.user, &pw);
                            c.send(&proto::password_message(&resp))
                                .map_err(|e| ConnErr::Io(e.to_string()))?;
                        }
                        other => {
                            return Err(ConnErr::Protocol(format!("auth code {}", other)));
                        }
                    }
                }
                b'S' => {
                    let (k, n) = m.cstr(0);
                    let (v, _) = m.cstr(n);
                    c.params.insert(k, v);
                }
                b'K' => {
                    c.pid = i32::from_be_bytes([m.body[0], m.body[1], m.body[2], m.body[3]]);
                    c.key = i32::from_be_bytes([m.body[4], m.body[5], m.body[6], m.body[7]]);
                }
                b'Z' => {
                    c.last_status = m.body[0];
                    c.t_connected = now_ns();
                    return Ok(c);
                }
                b'E' => {
                    return Err(ConnErr::Refused {
                        code: m.err_code(),
                        message: m.err_message(),
                    });
                }
                b'N' => {}
                other => {
                    return Err(ConnErr::Protocol(format!(
                        "unexpected startup message {:?}",
                        other as char
                    )))
                }
            }
        }
    }

    pub fn send(&mut self, bytes: &[u8]) -> std::io::Result<()> {
        self.stream.write_all(bytes)?;
        self.stream.flush()
    }

    /// Send in segments chosen by `cuts` (sorted offsets), sleeping `delay_us` between them.
    pub fn send_split(&mut self, bytes: &[u8], cuts: &[usize], delay_us: u64) -> std::io::Result<()> {
        let mut prev = 0;
        for &c in cuts.iter().chain(std::iter::once(&bytes.len())) {
            let c = c.min(bytes.len());
            if c > prev {
                self.stream.write_all(&bytes[prev..c])?;
                self.stream.flush()?;
                if delay_us > 0 && c < bytes.len() {
                    std::thread::sleep(Duration::from_micros(delay_us));
                }
                prev = c;
            }
        }
        Ok(())
    }

    pub fn set_timeout(&mut self, ms: u64) {
        self.stream
            .tcp()
            .set_read_timeout(Some(Duration::from_millis(ms.max(1))))
            .ok();
    }

    pub fn read_msg(&mut self, timeout_ms: u64) -> Result<Msg, ReadErr> {
        self.set_timeout(timeout_ms);
        match proto::read_msg(&mut self.stream, 1 << 30) {
            Ok(Some(m)) => {
                if self.record {
                    self.rx.extend_from_slice(&m.encode());
                }
                if m.typ == b'S' {
                    let (k, n) = m.cstr(0);
                    let (v, _) = m.cstr(n);
                    self.params.insert(k.clone(), v.clone());
                    self.param_updates.push((k, v));
                }
                if m.typ == b'Z' && !m.body.is_empty() {
                    self.last_status = m.body[0];
                }
                Ok(m)
            }
            Ok(None) => Err(ReadErr::Eof),
            Err(e) => match e.kind() {
                std::io::ErrorKind::WouldBlock | std::io::ErrorKind::TimedOut => {
                    Err(ReadErr::Timeout)
                }
                std::io::ErrorKind::UnexpectedEof
                | std::io::ErrorKind::ConnectionReset
                | std::io::ErrorKind::ConnectionAborted
                | std::io::ErrorKind::BrokenPipe => Err(ReadErr::Eof),
                _ => Err(ReadErr::Io(e.to_string())),
            },
        }
    }

    /// Read messages up to and including ReadyForQuery.
    pub fn read_until_ready(&mut self, timeout_ms: u64) -> Result<Vec<Msg>, (Vec<Msg>, ReadErr)> {
        let deadline = now_ns() + timeout_ms * 1_000_000;
        let mut out = vec![];
        loop {
            let now = now_ns();
            if now >= deadline {
                self.desynced = true;
                return Err((out, ReadErr::Timeout));
            }
            let left = ((deadline - now) / 1_000_000).max(1);
            match self.read_msg(left) {
                Ok(m) => {
                    let done = m.typ == b'Z';
                    out.push(m);
                    if done {
                        return Ok(out);
                    }
                }
                Err(e) => {
                    if e == ReadErr::Timeout {
                        self.desynced = true;
                    }
                    return Err((out, e));
                }
            }
        }
    }

    /// Read until one of the given message types arrives (inclusive).
    pub fn read_until_types(
        &mut self,
        types: &[u8],
        timeout_ms: u64,
    ) -> Result<Vec<Msg>, (Vec<Msg>, ReadErr)> {
        let deadline = now_ns() + timeout_ms * 1_000_000;
        let mut out = vec![];
        loop {
            let now = now_ns();
            if now >= deadline {
                return Err((out, ReadErr::Timeout));
            }
            let left = ((deadline - now) / 1_000_000).max(1);
            match self.read_msg(left) {
                Ok(m) => {
                    let done = types.contains(&m.typ);
                    out.push(m);
                    if done {
                        return Ok(out);
                    }
                }
                Err(e) => return Err((out, e)),
            }
        }
    }

    pub fn query(&mut self, sql: &str, timeout_ms: u64) -> Result<Vec<Msg>, (Vec<Msg>, ReadErr)> {
        if self.desynced {
            return Err((vec![], ReadErr::Io("connection given up after an earlier read timeout (would be one reply behind)".into())));
        }
        if let Err(e) = self.send(&proto::query(sql)) {
            return Err((vec![], ReadErr::Io(e.to_string())));
        }
        self.read_until_ready(timeout_ms)
    }

    /// Wait for EOF (server closed). Returns messages seen before.
    pub fn drain_to_eof(&mut self, timeout_ms: u64) -> (Vec<Msg>, bool) {
        let deadline = now_ns() + timeout_ms * 1_000_000;
        let mut out = vec![];
        loop {
            let now = now_ns();
            if now >= deadline {
                return (out, false);
            }
            match self.read_msg(((deadline - now) / 1_000_000).max(1)) {
                Ok(m) => out.push(m),
                Err(ReadErr::Eof) => return (out, true),
                Err(ReadErr::Timeout) => return (out, false),
                Err(ReadErr::Io(_)) => return (out, true),
            }
        }
    }

    pub fn terminate(mut self) {
        let _ = self.send(&proto::terminate());
        let _ = self.stream.tcp().shutdown(Shutdown::Both);
    }

    pub fn close_fin(self) {
        let _ = self.stream.tcp().shutdown(Shutdown::Both);
    }

    pub fn close_rst(self) {
        crate::mock::linger0(self.stream.tcp());
        drop(self);
    }

    pub fn half_close(&self) {
        let _ = self.stream.tcp().shutdown(Shutdown::Write);
    }
}

/// Send a CancelRequest on a fresh connection.
pub fn send_cancel(addr: &str, pid: i32, key: i32) -> Result<(), ConnErr> {
    let mut s = tcp_connect(addr, 5000)?;
    s.write_all(&proto::cancel_request(pid, key))
        .map_err(|e| ConnErr::Io(e.to_string()))?;
    // wait for the server to close
    s.set_read_timeout(Some(Duration::from_millis(2000))).ok();
    let mut b = [0u8; 16];
    let _ = s.read(&mut b);
    Ok(())
}

/// Summarise a reply: type string plus the first error, if any.
pub fn summarize(msgs: &[Msg]) -> String {
    let mut s = proto::type_string(msgs);
    for m in msgs {
        if m.typ == b'E' {
            s.push_str(&format!(" [{} {}]", m.err_code(), m.err_message()));
            break;
        }
    }
    s
}

pub fn first_error(msgs: &[Msg]) -> Option<(String, String)> {
    msgs.iter()
        .find(|m| m.typ == b'E')
        .map(|m| (m.err_code(), m.err_message()))
}

/// The `label|sid|qid|row` identity string of every DataRow in a reply.
pub fn row_idents(msgs: &[Msg]) -> Vec<(String, u64, String, u64)> {
    let mut out = vec![];
    for m in msgs {
        if m.typ == b'D' {
            let cols = m.row_strings();
            if let Some(id) = cols.first() {
                let parts: Vec<&str> = id.split('|').collect();
                if parts.len() == 4 {
                    out.push((
                        parts[0].to_string(),
                        parts[1].parse().unwrap_or(0),
                        parts[2].to_string(),
                        parts[3].parse().unwrap_or(0),
                    ));
                }
            }
        }
    }
    out
}
