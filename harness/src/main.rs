mod cell;
mod evlog;
mod mock;
mod pgcat;
mod props;
mod proto;
mod report;
mod sql;
mod util;
mod wire;
mod wl;

fn main() {
    let args: Vec<String> = std::env::args().collect();
    if args.len() < 2 {
        eprintln!("usage: pgv <C01..C20|smoke|selftest> [quick|thorough]");
        std::process::exit(64);
    }
    let what = args[1].as_str();
    let tier = args.get(2).map(|s| s.as_str()).unwrap_or("quick");
    util::process_t0();
    util::start_stall_monitor();
    // scratch dir for this process is removed on exit
    let code = props::run(what, tier, &args[2.min(args.len())..]);
    let _ = std::fs::remove_dir_all(pgcat::run_root());
    std::process::exit(code);
}
