#!/bin/bash
# runs the whole quick tier at several seeds into a scratch root; prints only alarms
cd /verif
for seed in "$@"; do
  for p in C01 C02 C03 C04 C05 C06 C07 C08 C09 C10 C11 C12 C13 C14 C15 C16 C17 C18 C19 C20; do
    out=$(VERIF_SEED=$seed PGV_VERIF_ROOT=/tmp/fh timeout 1500 ./check $p quick 2>&1); rc=$?
    if [ $rc -ne 0 ]; then
      echo "== seed=$seed $p rc=$rc"
      echo "$out" | grep -E "signature:|INCONCLUSIVE|BUILD-FAILED" | head -6
      mkdir -p /tmp/fh/keep; cp /tmp/fh/replay/$p-quick-seed$seed-*.json /tmp/fh/keep/ 2>/dev/null
    fi
  done
  echo "seed $seed done $(date +%H:%M:%S)"
done
