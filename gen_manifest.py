#!/usr/bin/env python3
"""Regenerates MANIFEST.json from the table below (kept in one place so it stays valid)."""
import json, subprocess
ids=[json.loads(l)['id'] for l in open('/verif/properties.jsonl')]
hook_commits=["4e5c854","1934888","6278fb2"]
CHECKS={}
def add(pid, cat, text, note, technique, ref):
    CHECKS[pid]=dict(property_id=pid, quick_cmd=f"./check {pid} quick", thorough_cmd=f"./check {pid} thorough",
        evidence_file=f"/verif/evidence/{pid}.json", replay_cmd_template="cat {path}", engine="pgv",
        level_claimed=dict(category=cat, text=text, design_ref=ref), level_note=note, technique=technique)
exec(open('/verif/manifest_checks.py').read())
m={"version":1,
 "setup_cmd":"./setup.sh",
 "hooks":{"guard":"cargo feature verif_hooks","enable":"cargo build --release --offline --features verif_hooks --bin pgcat --manifest-path /repo/Cargo.toml --target-dir /verif/target/rel",
          "baseline_off_cmd":"cd /repo && cargo test --workspace --no-fail-fast --offline","source_commits":hook_commits,"add_only":True},
 "engines":[{"name":"pgv","path":"/verif/harness","serves_properties":sorted(CHECKS),"kind_free_text":"runtime monitor: scripted wire clients + mock PostgreSQL backends around the real pgcat binary built from /repo with hook events; offline oracles over the recorded event log"}],
 "checks":[CHECKS[k] for k in sorted(CHECKS)],
 "not_applicable":[{"property_id":i,"reason":"check not built yet (work in progress; design in DESIGN.md section 5)"} for i in ids if i not in CHECKS],
 "notes":"All checks are runtime monitors over executions of the real pgcat binary; see DESIGN.md. Known findings: /verif/known_findings.json."}
json.dump(m,open('/verif/MANIFEST.json','w'),indent=1)
print("claimed:",sorted(CHECKS))
