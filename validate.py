#!/opt/veriftools/pyvenv/bin/python
import json,jsonschema,glob,sys
ok=True
try:
    jsonschema.validate(json.load(open('/verif/MANIFEST.json')), json.load(open('/root/.vp/MANIFEST.schema.json'))); print('manifest ok')
except Exception as e:
    ok=False; print('MANIFEST INVALID', e)
s=json.load(open('/root/.vp/EVIDENCE.schema.json'))
for f in sorted(glob.glob('/verif/evidence/*.json')):
    try:
        jsonschema.validate(json.load(open(f)), s); print(f,'ok')
    except Exception as e:
        ok=False; print(f,'INVALID',str(e)[:300])
sys.exit(0 if ok else 1)
