//! C13 — the SET/SHOW routing commands behave as a small, exact language.
//!
//! Oracle: a hand-written recogniser (no regular expressions) with three verdicts and a
//! reference state machine for what SHOW must report.
//!
//!  * MUST-accept  = the documented spellings (README "Query parser"/"Sharding" sections,
//!    plus SET PRIMARY READS / SHOW ... which the property statement lists): keywords in any
//!    letter case separated by exactly one space, value optionally wrapped in one pair of
//!    single quotes (for SET SERVER ROLE the README only ever shows the quoted form, so only
//!    that is MUST), optional `;` directly at the end, numeric values of 1–18 digits.
//!  * DON'T-CARE   = strings that are one command "morally" but outside the documented
//!    surface: extra/exotic white space, unbalanced or repeated quotes, unquoted role,
//!    values outside the documented vocabulary, numbers of 19+ digits (may not fit),
//!    negative numbers, `SET SHARD TO ANY`, several trailing semicolons.  For these only
//!    "does not panic" and "SHOW stays consistent with whatever was accepted" are judged.
//!  * MUST-reject  = everything else (near misses, extra tokens, embedded text,
//!    multi-statement strings, comments before/after).

use crate::c06::reference;
use crate::util::*;
use pgcat::config::Role;
use pgcat::messages::simple_query;
use pgcat::pool::PoolSettings;
use pgcat::query_router::{Command, QueryRouter};
use pgcat::sharding::ShardingFunction;
use serde_json::json;

#[derive(Clone, Copy, PartialEq, Eq, Debug)]
pub enum Cmd {
    SetShardingKey,
    SetShard,
    ShowShard,
    SetServerRole,
    ShowServerRole,
    SetPrimaryReads,
    ShowPrimaryReads,
}

impl Cmd {
    fn name(self) -> &'static str {
        match self {
            Cmd::SetShardingKey => "set_sharding_key",
            Cmd::SetShard => "set_shard",
            Cmd::ShowShard => "show_shard",
            Cmd::SetServerRole => "set_server_role",
            Cmd::ShowServerRole => "show_server_role",
            Cmd::SetPrimaryReads => "set_primary_reads",
            Cmd::ShowPrimaryReads => "show_primary_reads",
        }
    }
    fn of(c: &Command) -> Cmd {
        match c {
            Command::SetShardingKey => Cmd::SetShardingKey,
            Command::SetShard => Cmd::SetShard,
            Command::ShowShard => Cmd::ShowShard,
            Command::SetServerRole => Cmd::SetServerRole,
            Command::ShowServerRole => Cmd::ShowServerRole,
            Command::SetPrimaryReads => Cmd::SetPrimaryReads,
            Command::ShowPrimaryReads => Cmd::ShowPrimaryReads,
        }
    }
}

#[derive(Clone, Debug)]
pub struct Parsed {
    pub cmd: Cmd,
    /// value with quotes removed and surrounding blanks trimmed (SET commands only)
    pub value: Option<String>,
}

#[derive(Clone, Debug)]
pub enum Verdict {
    MustAccept(Parsed),
    DontCare(Parsed, &'static str),
    MustReject,
}

fn is_ws(c: char) -> bool {
    matches!(c, ' ' | '\t' | '\n' | '\r' | '\x0b' | '\x0c')
}

fn keyword_prefix(words: &[String]) -> Option<(Cmd, usize)> {
    let w: Vec<&str> = words.iter().map(|s| s.as_str()).collect();
    let starts = |p: &[&str]| w.len() >= p.len() && w[..p.len()].iter().zip(p).all(|(a, b)| a == b);
    if starts(&["show", "shard"]) {
        Some((Cmd::ShowShard, 2))
    } else if starts(&["show", "server", "role"]) {
        Some((Cmd::ShowServerRole, 3))
    } else if starts(&["show", "primary", "reads"]) {
        Some((Cmd::ShowPrimaryReads, 3))
    } else if starts(&["set", "sharding", "key", "to"]) {
        Some((Cmd::SetShardingKey, 4))
    } else if starts(&["set", "shard", "to"]) {
        Some((Cmd::SetShard, 3))
    } else if starts(&["set", "server", "role", "to"]) {
        Some((Cmd::SetServerRole, 4))
    } else if starts(&["set", "primary", "reads", "to"]) {
        Some((Cmd::SetPrimaryReads, 4))
    } else {
        None
    }
}

fn all_digits(s: &str) -> bool {
    !s.is_empty() && s.bytes().all(|b| b.is_ascii_digit())
}

const ROLES: [&str; 5] = ["primary", "replica", "any", "auto", "default"];
const PRS: [&str; 3] = ["on", "off", "default"];

/// The documented surface.  Returns the parsed command if `s` is a MUST-accept spelling.
fn strict(s: &str) -> Option<Parsed> {
    let body = s.strip_suffix(';').unwrap_or(s);
    if body.is_empty() || body.chars().any(|c| is_ws(c) && c != ' ') {
        return None;
    }
    let words: Vec<String> = body.split(' ').map(|w| w.to_ascii_lowercase()).collect();
    if words.iter().any(|w| w.is_empty()) {
        return None; // leading/trailing/double blank
    }
    let (cmd, n) = keyword_prefix(&words)?;
    match cmd {
        Cmd::ShowShard | Cmd::ShowServerRole | Cmd::ShowPrimaryReads => {
            if words.len() == n {
                Some(Parsed { cmd, value: None })
            } else {
                None
            }
        }
        _ => {
            if words.len() != n + 1 {
                return None;
            }
            // take the value from the original text to keep its case
            let raw = body.rsplit(' ').next().unwrap();
            let (inner, quoted) = if raw.len() >= 2 && raw.starts_with('\'') && raw.ends_with('\'') {
                (&raw[1..raw.len() - 1], true)
            } else {
                (raw, false)
            };
            if inner.is_empty() || inner.contains('\'') {
                return None;
            }
            let low = inner.to_ascii_lowercase();
            let ok = match cmd {
                Cmd::SetShard | Cmd::SetShardingKey => all_digits(inner) && inner.len() <= 18,
                Cmd::SetServerRole => quoted && ROLES.contains(&low.as_str()),
                Cmd::SetPrimaryReads => PRS.contains(&low.as_str()),
                _ => false,
            };
            if ok {
                Some(Parsed { cmd, value: Some(inner.to_string()) })
            } else {
                None
            }
        }
    }
}

/// The widest reading under which `s` is still "entirely one command".
fn lenient(s: &str) -> Option<(Parsed, &'static str)> {
    let norm: String = s.chars().map(|c| if is_ws(c) { ' ' } else { c }).collect();
    let t = norm.trim_matches(|c| c == ' ');
    let t = t.trim_end_matches(|c| c == ' ' || c == ';');
    if t.is_empty() {
        return None;
    }
    let words: Vec<String> = t.split(' ').filter(|w| !w.is_empty()).map(|w| w.to_ascii_lowercase()).collect();
    let (cmd, n) = keyword_prefix(&words)?;
    match cmd {
        Cmd::ShowShard | Cmd::ShowServerRole | Cmd::ShowPrimaryReads => {
            if words.len() == n {
                Some((Parsed { cmd, value: None }, "whitespace_or_semicolons"))
            } else {
                None
            }
        }
        _ => {
            // text after the n-th word, taken from the case-preserving string
            let mut rest = t;
            for _ in 0..n {
                rest = rest.trim_start_matches(' ');
                let end = rest.find(' ').unwrap_or(rest.len());
                rest = &rest[end..];
            }
            let inner: String = rest.chars().filter(|c| *c != '\'').collect();
            let inner = inner.trim_matches(|c| c == ' ').to_string();
            if inner.is_empty() {
                return None;
            }
            if !inner.chars().all(|c| c.is_ascii_alphanumeric() || c == '_' || c == '-' || c == '+' || c == '.') {
                return None; // blanks, ';', comment characters, '=' ... => extra tokens
            }
            let why = {
                let nq = rest.chars().filter(|c| *c == '\'').count();
                let r = rest.trim_matches(|c| c == ' ');
                let balanced = nq == 0 || (nq == 2 && r.starts_with('\'') && r.ends_with('\''));
                let low = inner.to_ascii_lowercase();
                if !balanced {
                    "odd_quotes"
                } else {
                    match cmd {
                        Cmd::SetShard | Cmd::SetShardingKey => {
                            if all_digits(&inner) {
                                if inner.len() >= 19 {
                                    "digits_19plus"
                                } else {
                                    "whitespace_or_semicolons"
                                }
                            } else if cmd == Cmd::SetShard && low == "any" {
                                "shard_any"
                            } else {
                                "value_outside_vocabulary"
                            }
                        }
                        Cmd::SetServerRole => {
                            if ROLES.contains(&low.as_str()) {
                                if nq == 0 {
                                    "unquoted_role"
                                } else {
                                    "whitespace_or_semicolons"
                                }
                            } else {
                                "value_outside_vocabulary"
                            }
                        }
                        Cmd::SetPrimaryReads => {
                            if PRS.contains(&low.as_str()) {
                                "whitespace_or_semicolons"
                            } else {
                                "value_outside_vocabulary"
                            }
                        }
                        _ => "other",
                    }
                }
            };
            Some((Parsed { cmd, value: Some(inner) }, why))
        }
    }
}

pub fn classify(s: &str) -> Verdict {
    if let Some(p) = strict(s) {
        return Verdict::MustAccept(p);
    }
    match lenient(s) {
        Some((p, why)) => Verdict::DontCare(p, why),
        None => Verdict::MustReject,
    }
}

// ------------------------------------------------------------------------------------
// Reference state machine
// ------------------------------------------------------------------------------------
#[derive(Clone, Debug, PartialEq)]
enum ShardSt {
    Unset,
    Known(usize),
    Unknown,
}
#[derive(Clone, Debug, PartialEq)]
enum RoleSt {
    Initial,
    Named(&'static str),
    Unknown,
}
#[derive(Clone, Debug, PartialEq)]
enum PrSt {
    PoolDefault,
    On,
    Off,
    Unknown,
}

struct Model {
    shards: usize,
    pool_primary_reads: bool,
    shard: ShardSt,
    role: RoleSt,
    pr: PrSt,
    /// description of the SET that established each piece of state (for signatures)
    shard_by: String,
    role_by: String,
    pr_by: String,
}

fn case_class(s: &str) -> &'static str {
    let has_up = s.chars().any(|c| c.is_ascii_uppercase());
    let has_lo = s.chars().any(|c| c.is_ascii_lowercase());
    match (has_up, has_lo) {
        (false, _) => "lower",
        (true, false) => "upper",
        (true, true) => "mixed",
    }
}

fn digits_class(s: &str) -> &'static str {
    match s.len() {
        0..=18 => "1-18",
        19 => "19",
        _ => "20+",
    }
}

impl Model {
    fn new(shards: usize, pool_primary_reads: bool) -> Model {
        Model {
            shards,
            pool_primary_reads,
            shard: ShardSt::Unset,
            role: RoleSt::Initial,
            pr: PrSt::PoolDefault,
            shard_by: "nothing".into(),
            role_by: "nothing".into(),
            pr_by: "nothing".into(),
        }
    }
    fn forget(&mut self) {
        self.shard = ShardSt::Unknown;
        self.role = RoleSt::Unknown;
        self.pr = PrSt::Unknown;
    }
    fn apply(&mut self, p: &Parsed) {
        let v = p.value.clone().unwrap_or_default();
        let low = v.to_ascii_lowercase();
        match p.cmd {
            Cmd::SetShard => {
                self.shard_by = format!("set_shard({})", if all_digits(&v) { "digits" } else { "word" });
                self.shard = if all_digits(&v) && v.len() <= 18 {
                    let n = v.parse::<u64>().unwrap() as usize;
                    if n < self.shards {
                        ShardSt::Known(n)
                    } else {
                        ShardSt::Unknown // refusal of out-of-range shards happens in the client loop
                    }
                } else {
                    ShardSt::Unknown
                };
            }
            Cmd::SetShardingKey => {
                self.shard_by = "set_sharding_key".into();
                self.shard = match v.parse::<i64>() {
                    Ok(k) if all_digits(&v) => ShardSt::Known(reference::pg_partition(k, self.shards as u64) as usize),
                    _ => ShardSt::Unknown,
                };
            }
            Cmd::SetServerRole => {
                self.role_by = format!("set_server_role(value={},valcase={})", low, if case_class(&v) == "lower" { "lower" } else { "nonlower" });
                self.role = match low.as_str() {
                    "primary" => RoleSt::Named("primary"),
                    "replica" => RoleSt::Named("replica"),
                    "any" => RoleSt::Named("any"),
                    "auto" => RoleSt::Named("auto"),
                    // 'default' = "reset to default configured settings": what SHOW then
                    // prints is not documented
                    _ => RoleSt::Unknown,
                };
            }
            Cmd::SetPrimaryReads => {
                self.pr_by = format!("set_primary_reads(value={},valcase={})", low, if case_class(&v) == "lower" { "lower" } else { "nonlower" });
                self.pr = match low.as_str() {
                    "on" => PrSt::On,
                    "off" => PrSt::Off,
                    "default" => PrSt::PoolDefault,
                    _ => PrSt::Unknown,
                };
            }
            _ => {}
        }
    }
    /// expected SHOW reply, None = don't care
    fn expect_show(&self, cmd: Cmd) -> Option<String> {
        match cmd {
            Cmd::ShowShard => match &self.shard {
                ShardSt::Known(n) => Some(n.to_string()),
                _ => None,
            },
            Cmd::ShowServerRole => match &self.role {
                RoleSt::Named(r) => Some(r.to_string()),
                _ => None,
            },
            Cmd::ShowPrimaryReads => match &self.pr {
                PrSt::On => Some("on".into()),
                PrSt::Off => Some("off".into()),
                PrSt::PoolDefault => Some(if self.pool_primary_reads { "on".into() } else { "off".into() }),
                PrSt::Unknown => None,
            },
            _ => None,
        }
    }
    fn by(&self, cmd: Cmd) -> &str {
        match cmd {
            Cmd::ShowShard => &self.shard_by,
            Cmd::ShowServerRole => &self.role_by,
            _ => &self.pr_by,
        }
    }
}

// ------------------------------------------------------------------------------------
// Generator
// ------------------------------------------------------------------------------------
fn recase(rng: &mut Rng, s: &str, style: usize) -> String {
    match style {
        0 => s.to_ascii_lowercase(),
        1 => s.to_ascii_uppercase(),
        _ => s
            .chars()
            .map(|c| if rng.chance(1, 2) { c.to_ascii_uppercase() } else { c.to_ascii_lowercase() })
            .collect(),
    }
}

fn gen_digits(rng: &mut Rng) -> String {
    let len = match rng.below(100) {
        0..=44 => rng.range(1, 6),
        45..=59 => rng.range(7, 18),
        60..=71 => 19,
        72..=84 => 20,
        _ => rng.range(21, 40),
    };
    let mut s = String::with_capacity(len);
    for i in 0..len {
        let d = if i == 0 && rng.chance(9, 10) { rng.range(1, 9) } else { rng.below(10) };
        s.push((b'0' + d as u8) as char);
    }
    // make the interesting boundaries reachable
    if len == 19 && rng.chance(1, 4) {
        return (*rng.pick(&["9223372036854775807", "9223372036854775808", "9223372036854775806", "1000000000000000000"])).to_string();
    }
    if len == 20 && rng.chance(1, 4) {
        return (*rng.pick(&["18446744073709551615", "18446744073709551616", "10000000000000000000"])).to_string();
    }
    s
}

const CMD_WORDS: [(Cmd, &str); 7] = [
    (Cmd::SetShardingKey, "SET SHARDING KEY TO"),
    (Cmd::SetShard, "SET SHARD TO"),
    (Cmd::ShowShard, "SHOW SHARD"),
    (Cmd::SetServerRole, "SET SERVER ROLE TO"),
    (Cmd::ShowServerRole, "SHOW SERVER ROLE"),
    (Cmd::SetPrimaryReads, "SET PRIMARY READS TO"),
    (Cmd::ShowPrimaryReads, "SHOW PRIMARY READS"),
];

fn gen_value(rng: &mut Rng, cmd: Cmd) -> Option<String> {
    match cmd {
        Cmd::SetShard => Some(if rng.chance(1, 2) { rng.below(70).to_string() } else { gen_digits(rng) }),
        Cmd::SetShardingKey => Some(gen_digits(rng)),
        Cmd::SetServerRole => Some((*rng.pick(&ROLES)).to_string()),
        Cmd::SetPrimaryReads => Some((*rng.pick(&PRS)).to_string()),
        _ => None,
    }
}

/// A documented spelling.
fn gen_wellformed(rng: &mut Rng) -> String {
    let (cmd, words) = *rng.pick(&CMD_WORDS);
    let style = rng.below(3);
    let mut s = recase(rng, words, style);
    if let Some(v) = gen_value(rng, cmd) {
        let vstyle = rng.below(3);
        let v = recase(rng, &v, vstyle);
        let quoted = cmd == Cmd::SetServerRole || rng.chance(1, 2);
        s.push(' ');
        if quoted {
            s.push('\'');
        }
        s.push_str(&v);
        if quoted {
            s.push('\'');
        }
    }
    if rng.chance(1, 3) {
        s.push(';');
    }
    s
}

/// One command, but off the documented surface (don't-care region).
fn gen_lenient(rng: &mut Rng) -> String {
    let (cmd, words) = *rng.pick(&CMD_WORDS);
    let style = rng.below(3);
    let kw = recase(rng, words, style);
    let seps = [" ", "  ", "\t", "\n", " \t ", "   "];
    let exotic_ws = rng.chance(1, 3);
    let mut s = String::new();
    if rng.chance(1, 3) {
        s.push_str(if exotic_ws { *rng.pick(&seps) } else { " " });
    }
    let parts: Vec<&str> = kw.split(' ').collect();
    for (i, p) in parts.iter().enumerate() {
        if i > 0 {
            s.push_str(if exotic_ws { *rng.pick(&seps) } else { " " });
        }
        s.push_str(p);
    }
    if cmd != Cmd::ShowShard && cmd != Cmd::ShowServerRole && cmd != Cmd::ShowPrimaryReads {
        let v: String = match rng.below(8) {
            0 => (*rng.pick(&["mirror", "master", "true", "false", "yes", "no", "1x", "x1", "ANY", "any", "0x10", "1.5", "1e3"])).to_string(),
            1 => format!("-{}", rng.below(100)),
            2 => format!("+{}", rng.below(100)),
            3 => gen_digits(rng),
            _ => gen_value(rng, cmd).unwrap(),
        };
        let vstyle = rng.below(3);
        let v = recase(rng, &v, vstyle);
        s.push_str(if exotic_ws { *rng.pick(&seps) } else { " " });
        match rng.below(7) {
            0 => s.push_str(&format!("'{}", v)),
            1 => s.push_str(&format!("{}'", v)),
            2 => s.push_str(&format!("''{}''", v)),
            3 => s.push_str(&format!("' {} '", v)),
            4 => s.push_str(&v),
            _ => s.push_str(&format!("'{}'", v)),
        }
    }
    match rng.below(6) {
        0 => s.push_str(" ;"),
        1 => s.push_str(";;"),
        2 => s.push_str(" ; "),
        3 => s.push_str("  "),
        4 => s.push(';'),
        _ => {}
    }
    s
}

/// Strings that are NOT entirely one command.
fn gen_reject(rng: &mut Rng) -> (String, &'static str) {
    let a = gen_wellformed(rng);
    let a_nosemi = a.trim_end_matches(';').to_string();
    let other = *rng.pick(&["SELECT 1", "select * from t", "BEGIN", "SET x TO 1", "SHOW ALL", "COMMIT"]);
    match rng.below(16) {
        0 => (format!("{}; {}", a_nosemi, other), "multi_cmd_then_sql"),
        1 => (format!("{}; {}", other, a), "multi_sql_then_cmd"),
        2 => (format!("{}; {}", a_nosemi, gen_wellformed(rng)), "multi_cmd_cmd"),
        3 => (format!("{};{}", a_nosemi, gen_wellformed(rng)), "multi_cmd_cmd_nospace"),
        4 => (format!("SELECT * FROM t WHERE v = '{}'", a_nosemi.replace('\'', "''")), "embedded_in_string_literal"),
        5 => (format!("{} {}", a_nosemi, *rng.pick(&["1", "x", "TO", "'2'", "ANY", "on", ", 2", "= 1"])), "extra_token_after"),
        6 => (format!("{} {}", *rng.pick(&["EXPLAIN", "x", "1", "SELECT", "RE", "--"]), a), "extra_token_before"),
        7 => (format!("{} --c", a), "line_comment_after"),
        8 => (format!("{} /*c*/", a), "block_comment_after"),
        9 => (format!("/*c*/ {}", a), "block_comment_before"),
        10 => (format!("--c\n{}", a), "line_comment_before"),
        11 => {
            // keyword near misses
            let (cmd, _) = *rng.pick(&CMD_WORDS);
            let miss: &[&str] = match cmd {
                Cmd::SetShard => &["SET SHARDS TO", "SET SHARD", "SETSHARD TO", "SET SHARD TOO", "SET SHAR TO", "SET SHARD_ TO", "SETS SHARD TO", "SET SHARD TO TO"],
                Cmd::SetShardingKey => &["SET SHARDING KEYS TO", "SET SHARDING TO", "SET SHARDINGKEY TO", "SET SHARDING KEY", "SET SHARDING_KEY TO", "SET SHARD KEY TO"],
                Cmd::SetServerRole => &["SET SERVER ROLES TO", "SET SERVERROLE TO", "SET SERVER ROLE", "SET SERVER TO", "SET ROLE TO", "SET SERVER_ROLE TO", "SET SHARDING ROLE TO"],
                Cmd::SetPrimaryReads => &["SET PRIMARY READ TO", "SET PRIMARYREADS TO", "SET PRIMARY READS", "SET PRIMARY TO", "SET PRIMARY_READS TO", "SET READS TO"],
                Cmd::ShowShard => &["SHOW SHARDS", "SHOWSHARD", "SHOW SHARD 1", "SHOW SHARD TO", "SHOW", "SHOWS SHARD", "SHOW SHARDING KEY"],
                Cmd::ShowServerRole => &["SHOW SERVER ROLES", "SHOW SERVER", "SHOW ROLE", "SHOW SERVERROLE", "SHOW SERVER ROLE x", "SHOW SERVER_ROLE"],
                Cmd::ShowPrimaryReads => &["SHOW PRIMARY READ", "SHOW PRIMARY", "SHOW READS", "SHOW PRIMARYREADS", "SHOW PRIMARY READS on", "SHOW PRIMARY_READS"],
            };
            let style = rng.below(3);
            let m = *rng.pick(miss);
            let mut s = recase(rng, m, style);
            if let Some(v) = gen_value(rng, cmd) {
                if rng.chance(3, 4) {
                    s.push_str(&format!(" '{}'", v));
                }
            }
            if rng.chance(1, 4) {
                s.push(';');
            }
            (s, "near_miss_keywords")
        }
        12 => {
            // missing or empty value
            let (_, words) = *rng.pick(&[CMD_WORDS[0], CMD_WORDS[1], CMD_WORDS[3], CMD_WORDS[5]]);
            let tail = *rng.pick(&["", " ", " ''", ";", " ;", " '';"]);
            (format!("{}{}", words, tail), "missing_value")
        }
        13 => (format!("({})", a_nosemi), "parenthesised"),
        14 => (format!("{} AND 1=1", a_nosemi), "sql_suffix"),
        _ => {
            // value made of several tokens
            let (cmd, words) = *rng.pick(&[CMD_WORDS[0], CMD_WORDS[1], CMD_WORDS[3], CMD_WORDS[5]]);
            let v1 = gen_value(rng, cmd).unwrap();
            let v2 = gen_value(rng, cmd).unwrap();
            (format!("{} '{}', '{}'", words, v1, v2), "two_values")
        }
    }
}

const VOCAB: [&str; 40] = [
    "SET", "set", "SHOW", "show", "SHARD", "shard", "SHARDING", "KEY", "key", "SERVER", "ROLE", "role", "PRIMARY", "primary",
    "READS", "reads", "TO", "to", "'", "'", ";", "--c", "/*c*/", "ANY", "any", "replica", "default", "auto", "on", "off",
    "true", "false", "1", "0", "42", "#DIGITS", "#DIGITS", " ", "\t", "\n",
];

fn gen_soup(rng: &mut Rng) -> String {
    let n = rng.range(1, 9);
    let mut s = String::new();
    for i in 0..n {
        if i > 0 {
            s.push_str(*rng.pick(&[" ", " ", " ", " ", "", "  ", "\t", "\n"]));
        }
        let t = *rng.pick(&VOCAB);
        if t == "#DIGITS" {
            s.push_str(&gen_digits(rng));
        } else {
            s.push_str(t);
        }
    }
    s
}

/// Token soup biased towards command skeletons, so that the recognisers' edges are hit.
fn gen_skeleton_soup(rng: &mut Rng) -> String {
    let (_, words) = *rng.pick(&CMD_WORDS);
    let mut toks: Vec<String> = words.split(' ').map(|w| w.to_string()).collect();
    toks.push((*rng.pick(&["1", "'1'", "'primary'", "on", "'off'", "ANY", "'", ";", "#D", "'#D'"])).to_string());
    // mutate: drop, duplicate, swap or insert one token
    match rng.below(5) {
        0 => {
            let i = rng.below(toks.len());
            toks.remove(i);
        }
        1 => {
            let i = rng.below(toks.len());
            let t = toks[i].clone();
            toks.insert(i, t);
        }
        2 => {
            let i = rng.below(toks.len());
            let j = rng.below(toks.len());
            toks.swap(i, j);
        }
        3 => {
            let i = rng.below(toks.len() + 1);
            toks.insert(i, (*rng.pick(&VOCAB)).to_string());
        }
        _ => {}
    }
    let mut s = String::new();
    for (i, t) in toks.iter().enumerate() {
        if i > 0 {
            s.push_str(*rng.pick(&[" ", " ", " ", " ", " ", "", "  ", "\t"]));
        }
        if t.contains("#D") {
            s.push_str(&t.replace("#DIGITS", "#D").replace("#D", &gen_digits(rng)));
        } else {
            let style = rng.below(3);
            s.push_str(&recase(rng, t, style));
        }
    }
    s
}

fn quote_form(s: &str) -> &'static str {
    if s.contains('\'') {
        "quoted"
    } else {
        "unquoted"
    }
}

fn settings(shards: usize, primary_reads: bool, parser: bool, default_role: Option<Role>) -> PoolSettings {
    PoolSettings {
        shards,
        primary_reads_enabled: primary_reads,
        query_parser_enabled: parser,
        query_parser_read_write_splitting: parser,
        default_role,
        sharding_function: ShardingFunction::PgBigintHash,
        db: "db".into(),
        ..Default::default()
    }
}

pub fn run(thorough: bool, seed: u64) -> Acc {
    let threads = n_threads();
    let total: u64 = if thorough { 100_000_000 } else { 1_000_000 };
    let per_thread = total / threads as u64 + 1;

    let mut head = Acc::new();
    head.assume("MUST-accept is limited to the documented surface: single blanks between keywords, any letter case, value in one pair of single quotes or (except for SET SERVER ROLE, which the README only shows quoted) bare, optional ';' at the very end, numbers of 1-18 digits.");
    head.assume("Don't-care (only 'no panic' and SHOW-consistency judged): other white space, odd quotes, unquoted role names, values outside the documented vocabulary, 19+ digit numbers as far as acceptance goes, SET SHARD TO ANY, repeated trailing semicolons, SHOW SERVER ROLE before any SET SERVER ROLE or after 'default', SHOW SHARD before any selection, out-of-range SET SHARD (refused in the client loop, judged at wire level).");
    head.assume("Reference shard for SET SHARDING KEY uses the C06 reference (pg_bigint_hash).");
    if let Err(e) = reference::validate_pg() {
        head.inconclusive(&format!("C06 reference failed its vectors, SHOW SHARD after SET SHARDING KEY not judged: {}", e));
    }
    let ref_ok = head.inconclusive.is_empty();

    // a handful of fixed classifications guard the oracle itself
    let self_test: [(&str, u8); 16] = [
        ("SET SHARD TO '1'", 0),
        ("set sharding key to 1234;", 0),
        ("SET SERVER ROLE TO 'primary'", 0),
        ("SeT pRiMaRy ReAdS tO OFF", 0),
        ("SHOW SHARD;", 0),
        ("SET SERVER ROLE TO primary", 1),
        ("SET SHARD TO '1", 1),
        ("  SET SHARD TO 1  ; ", 1),
        ("SET SHARD TO 12345678901234567890", 1),
        ("SET SHARD TO ANY", 1),
        ("SET SHARDS TO '1'", 2),
        ("SET SHARD TO", 2),
        ("SET SHARD TO '1'; SELECT 1", 2),
        ("SET SHARD TO 1 --c", 2),
        ("/*c*/ SHOW SHARD", 2),
        ("SELECT 'SET SHARD TO 1'", 2),
    ];
    for (s, want) in self_test.iter() {
        let got = match classify(s) {
            Verdict::MustAccept(_) => 0,
            Verdict::DontCare(..) => 1,
            Verdict::MustReject => 2,
        };
        if got != *want {
            eprintln!("pgv-lib: C13 reference recogniser self-test failed on {:?}: {} != {}", s, got, want);
            std::process::exit(3);
        }
    }

    let body = run_threads(threads, move |ti, _| {
        let mut acc = Acc::new();
        let mut rng = Rng::new(seed.wrapping_mul(424243).wrapping_add(ti as u64 + 13));
        let mut done = 0u64;
        while done < per_thread {
            let shards = *rng.pick(&[1usize, 2, 3, 5, 7, 12, 16, 64, 1000, 65535]);
            let pr = rng.chance(1, 2);
            let parser = rng.chance(1, 2);
            let dr = *rng.pick(&[None, Some(Role::Primary), Some(Role::Replica)]);
            let ps = settings(shards, pr, parser, dr);
            let mut qr = QueryRouter::new();
            qr.update_pool_settings(&ps);
            qr.set_default_role();
            let mut model = Model::new(shards, pr);
            let len = rng.range(1, 8);
            let mut trace: Vec<String> = Vec::new();
            for _ in 0..len {
                let (s, gen_class): (String, &'static str) = match rng.below(100) {
                    0..=39 => (gen_wellformed(&mut rng), "wellformed"),
                    40..=57 => (gen_lenient(&mut rng), "lenient"),
                    58..=79 => gen_reject(&mut rng),
                    80..=89 => (gen_skeleton_soup(&mut rng), "skeleton_soup"),
                    _ => (gen_soup(&mut rng), "token_soup"),
                };
                done += 1;
                acc.evaluations += 1;
                if !thorough || done % 16 == 0 {
                    acc.distinct.insert(hash64(&s));
                }
                acc.count(&format!("gen:{}", gen_class));
                trace.push(s.clone());
                let verdict = classify(&s);
                let msg = simple_query(&s);
                let res = guarded(|| qr.try_execute_command(&msg));
                if ti == 0 && acc.samples.len() < MAX_SAMPLES && rng.chance(1, 50) {
                    acc.sample(json!({"input": s, "class": match &verdict { Verdict::MustAccept(_) => "must_accept", Verdict::DontCare(..) => "dont_care", Verdict::MustReject => "must_reject" },
                        "observed": format!("{:?}", res), "shards": shards}));
                }
                let res = match res {
                    Err(p) => {
                        let (cmdname, digits) = match &verdict {
                            Verdict::MustAccept(pd) | Verdict::DontCare(pd, _) => (
                                pd.cmd.name(),
                                pd.value.as_ref().filter(|v| all_digits(v)).map(|v| digits_class(v)),
                            ),
                            Verdict::MustReject => ("unrecognised", None),
                        };
                        let sig = match digits {
                            Some(d) => format!("C13|cmd={}|arg_digits={}|outcome=panic", cmdname, d),
                            None => format!("C13|cmd={}|gen={}|outcome=panic", cmdname, gen_class),
                        };
                        acc.count("panics");
                        acc.violation(
                            sig,
                            format!("try_execute_command(simple_query({:?})) panicked: {} (the client task dies: no reply, connection dropped)", s, p),
                            json!({"input": s, "panic": p, "shards": shards, "trace": trace}),
                        );
                        // the router may be half-updated; start a new session
                        break;
                    }
                    Ok(r) => r,
                };
                match (&verdict, &res) {
                    (Verdict::MustAccept(pd), None) => {
                        acc.count("must_accept");
                        let v = pd.value.clone().unwrap_or_default();
                        let sig = format!(
                            "C13|cmd={}|form={},kwcase={},valcase={},semi={}|expected=accept|got=reject",
                            pd.cmd.name(),
                            if pd.value.is_some() { quote_form(&s) } else { "novalue" },
                            case_class(&if v.is_empty() { s.clone() } else { s.replace(&v, "") }),
                            case_class(&v),
                            s.ends_with(';')
                        );
                        acc.violation(sig, format!("documented command {:?} was not recognised (would be forwarded to the server)", s), json!({"input": s, "trace": trace}));
                        model.forget();
                    }
                    (Verdict::MustAccept(pd), Some((c, val))) | (Verdict::DontCare(pd, _), Some((c, val))) => {
                        let is_must = matches!(verdict, Verdict::MustAccept(_));
                        if is_must {
                            acc.count("must_accept");
                            acc.count(&format!("must_accept_ok:{}", pd.cmd.name()));
                        } else {
                            acc.count("dont_care");
                            if let Verdict::DontCare(_, why) = &verdict {
                                acc.count(&format!("dont_care_accepted:{}", why));
                            }
                        }
                        if Cmd::of(c) != pd.cmd {
                            acc.violation(
                                format!("C13|cmd={}|expected_kind={}|got_kind={}", pd.cmd.name(), pd.cmd.name(), Cmd::of(c).name()),
                                format!("{:?} was executed as {:?}", s, c),
                                json!({"input": s, "got": format!("{:?}", c), "trace": trace}),
                            );
                            model.forget();
                            continue;
                        }
                        match pd.cmd {
                            Cmd::ShowShard | Cmd::ShowServerRole | Cmd::ShowPrimaryReads => {
                                match model.expect_show(pd.cmd) {
                                    Some(want) => {
                                        let same = if pd.cmd == Cmd::ShowShard {
                                            !ref_ok_or(ref_ok, &model) || val.parse::<u64>().ok() == want.parse::<u64>().ok()
                                        } else {
                                            val.eq_ignore_ascii_case(&want)
                                        };
                                        if same {
                                            acc.count(&format!("show_ok:{}", pd.cmd.name()));
                                        } else {
                                            let sig = format!("C13|cmd={}|after={}|outcome=show_disagrees_with_preceding_sets", pd.cmd.name(), model.by(pd.cmd));
                                            acc.violation(
                                                sig,
                                                format!("session {:?} ({} shards, pool primary_reads_enabled={}): {:?} answered {:?}, the preceding SETs established {:?}", trace, shards, pr, s, val, want),
                                                json!({"trace": trace, "shards": shards, "pool_primary_reads_enabled": pr, "expected": want, "got": val}),
                                            );
                                        }
                                    }
                                    None => acc.count("dont_care_show"),
                                }
                            }
                            Cmd::SetShardingKey => {
                                model.apply(pd);
                                // the command's own result string is the shard it selected
                                if let ShardSt::Known(n) = model.shard {
                                    if ref_ok && (val.parse::<usize>().ok() != Some(n) || qr.shard() != Some(n)) {
                                        acc.violation(
                                            format!("C13|cmd=set_sharding_key|arg_digits={}|expected=reference_shard|got=other", digits_class(pd.value.as_ref().unwrap())),
                                            format!("{:?} with {} shards selected {:?} (reply {:?}), reference {}", s, shards, qr.shard(), val, n),
                                            json!({"input": s, "shards": shards, "expected": n, "got": qr.shard(), "trace": trace}),
                                        );
                                        model.shard = ShardSt::Unknown;
                                    }
                                }
                            }
                            _ => model.apply(pd),
                        }
                    }
                    (Verdict::DontCare(_, why), None) => {
                        acc.count("dont_care");
                        acc.count(&format!("dont_care_declined:{}", why));
                    }
                    (Verdict::MustReject, None) => {
                        acc.count("must_reject");
                        acc.count("must_reject_ok");
                    }
                    (Verdict::MustReject, Some((c, val))) => {
                        acc.count("must_reject");
                        acc.violation(
                            format!("C13|gen={}|expected=reject|got=accept({})", gen_class, Cmd::of(c).name()),
                            format!("{:?} is not entirely one routing command but was executed by the pooler as {:?} (value {:?}) instead of being forwarded", s, c, val),
                            json!({"input": s, "got": format!("{:?}", c), "trace": trace}),
                        );
                        model.forget();
                    }
                }
            }
        }
        acc
    });
    head.merge(body);
    // in thorough mode only every 16th generated string is entered into the `distinct` set
    // (10^8 hashes would not fit comfortably in memory); `distinct` is then a lower bound
    head.set("distinct_sampled_one_in", if thorough { 16 } else { 1 });
    head
}

fn ref_ok_or(ref_ok: bool, m: &Model) -> bool {
    // SHOW SHARD after SET SHARD does not need the hash reference
    ref_ok || m.shard_by.starts_with("set_shard(")
}
