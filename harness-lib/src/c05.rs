//! C05 — writes and transactions go to the primary; explicit role choices are honoured.
//!
//! The label of every message comes from the generator (gen.rs); the oracle never looks at
//! the SQL text.  The per-message procedure replicates what src/client.rs does before it
//! asks the pool for a server: try_execute_command(msg); if the query parser is enabled
//! (pool setting, possibly overridden by SET SERVER ROLE) parse(msg) + infer(ast);
//! update_pool_settings(); then pool.get(shard(), role()).  Nothing else is reset between
//! transactions (set_default_role() is only called once, at session start).

use crate::gen::{self, Message, PlainNames};
use crate::util::*;
use bytes::BytesMut;
use pgcat::config::Role;
use pgcat::messages::simple_query;
use pgcat::pool::PoolSettings;
use pgcat::query_router::QueryRouter;
use serde_json::{json, Value};
use sqlparser::ast::Statement;
use std::collections::HashSet;

#[derive(Clone, Copy, PartialEq, Debug)]
enum Ov {
    Role(&'static str),
    Pr(&'static str),
}

impl Ov {
    fn sql(&self) -> String {
        match self {
            Ov::Role(r) => format!("SET SERVER ROLE TO '{}'", r),
            Ov::Pr(v) => format!("SET PRIMARY READS TO {}", v),
        }
    }
}

#[derive(Clone, Debug)]
struct Cfg {
    dr: Option<Role>,
    pr: bool,
    split: bool,
    ovs: Vec<Ov>,
}

fn role_name(r: Option<Role>) -> &'static str {
    match r {
        Some(Role::Primary) => "primary",
        Some(Role::Replica) => "replica",
        Some(Role::Mirror) => "mirror",
        None => "any",
    }
}

/// Session state according to the documentation (README "Query parser" section).
#[derive(Clone, Copy, PartialEq, Debug)]
enum Session {
    /// no SET SERVER ROLE seen (or 'default': "reset to default configured settings")
    Defaults,
    /// 'auto': "let the query parser decide"
    Auto,
    /// 'primary' | 'replica' | 'any': explicit choice, "will persist until it's changed again"
    Explicit(Option<Role>),
}

struct Model {
    session: Session,
    pr_override: Option<bool>,
}

impl Model {
    fn of(cfg: &Cfg) -> Model {
        let mut m = Model { session: Session::Defaults, pr_override: None };
        for o in &cfg.ovs {
            match o {
                Ov::Role("primary") => m.session = Session::Explicit(Some(Role::Primary)),
                Ov::Role("replica") => m.session = Session::Explicit(Some(Role::Replica)),
                Ov::Role("any") => m.session = Session::Explicit(None),
                Ov::Role("auto") => m.session = Session::Auto,
                Ov::Role(_) => m.session = Session::Defaults,
                Ov::Pr("on") => m.pr_override = Some(true),
                Ov::Pr("off") => m.pr_override = Some(false),
                Ov::Pr(_) => m.pr_override = None,
            }
        }
        m
    }
    fn session_name(&self) -> &'static str {
        match self.session {
            Session::Defaults => "none",
            Session::Auto => "auto",
            Session::Explicit(Some(Role::Primary)) => "explicit_primary",
            Session::Explicit(Some(Role::Replica)) => "explicit_replica",
            Session::Explicit(_) => "explicit_any",
        }
    }
}

#[derive(Clone, PartialEq, Debug)]
enum Exp {
    MustPrimary,
    MustNotPrimary,
    MustEqual(Option<Role>),
    DontCare(&'static str),
}

impl Exp {
    fn name(&self) -> String {
        match self {
            Exp::MustPrimary => "primary".into(),
            Exp::MustNotPrimary => "not_primary".into(),
            Exp::MustEqual(r) => format!("exactly_{}", role_name(*r)),
            Exp::DontCare(_) => "dont_care".into(),
        }
    }
    fn ok(&self, got: Option<Role>) -> bool {
        match self {
            Exp::MustPrimary => got == Some(Role::Primary),
            Exp::MustNotPrimary => got != Some(Role::Primary),
            Exp::MustEqual(r) => got == *r,
            Exp::DontCare(_) => true,
        }
    }
}

fn oracle(msg: &Message, cfg: &Cfg) -> Exp {
    let m = Model::of(cfg);
    if msg.dont_care() {
        return Exp::DontCare("label_debatable");
    }
    let read = msg.is_plain_read();
    match m.session {
        Session::Explicit(r) => {
            if read {
                Exp::MustEqual(r)
            } else if r == Some(Role::Primary) {
                Exp::MustPrimary
            } else {
                // a write while the client explicitly asked for replica/any: the property says
                // the explicit choice is honoured, the README does not discuss writes => not judged
                Exp::DontCare("write_under_explicit_non_primary")
            }
        }
        Session::Defaults | Session::Auto => {
            if !cfg.split {
                // splitting off: nothing may be forced by the parser
                let base = if m.session == Session::Auto { None } else { cfg.dr };
                return Exp::MustEqual(base);
            }
            if !read {
                return Exp::MustPrimary;
            }
            let pr = m.pr_override.unwrap_or(cfg.pr);
            if pr {
                // primary takes part in read balancing: any outcome is within the statement
                Exp::DontCare("read_with_primary_reads_on")
            } else if cfg.dr == Some(Role::Primary) && m.session == Session::Defaults {
                // default_role = primary: "all queries go to the primary unless otherwise specified"
                Exp::DontCare("read_with_default_role_primary")
            } else {
                Exp::MustNotPrimary
            }
        }
    }
}

fn settings(cfg: &Cfg) -> PoolSettings {
    PoolSettings {
        shards: 1,
        default_role: cfg.dr,
        query_parser_enabled: true,
        query_parser_read_write_splitting: cfg.split,
        primary_reads_enabled: cfg.pr,
        db: "c05db".into(),
        ..Default::default()
    }
}

/// A generated message with both wire forms and the parser's verdict on each.
struct Pm {
    msg: Message,
    wire: [BytesMut; 2],
    ast: [Option<Vec<Statement>>; 2],
}

const PROTO: [&str; 2] = ["Q", "P"];

fn prepare(msg: Message) -> Result<Pm, String> {
    let wire = [simple_query(&msg.sql), parse_message(&msg.sql)];
    let qr = QueryRouter::new();
    let a0 = guarded(|| qr.parse(&wire[0]).ok())?;
    let a1 = guarded(|| qr.parse(&wire[1]).ok())?;
    Ok(Pm { msg, wire, ast: [a0, a1] })
}

/// One client-loop iteration for message `pm` (wire form `proto`).
fn client_step(qr: &mut QueryRouter, ps: &PoolSettings, pm: &Pm, proto: usize) {
    if qr.try_execute_command(&pm.wire[proto]).is_some() {
        return;
    }
    if qr.query_parser_enabled() {
        // parse() is a pure function of the message (query_parser_max_length is unset), so
        // the AST obtained once in prepare() is what the client loop would get here.
        if let Some(ast) = &pm.ast[proto] {
            let _ = qr.infer(ast);
        }
    }
    qr.update_pool_settings(ps);
}

fn run_session(cfg: &Cfg, history: &[&Pm], cur: &Pm, proto: usize) -> Result<Option<Role>, String> {
    guarded(|| {
        let ps = settings(cfg);
        let mut qr = QueryRouter::new();
        qr.update_pool_settings(&ps);
        qr.set_default_role();
        for o in &cfg.ovs {
            let r = qr.try_execute_command(&simple_query(&o.sql()));
            if r.is_none() {
                // the override itself was not recognised: C13's business, but make it visible
                return None::<Option<Role>>;
            }
        }
        for h in history {
            client_step(&mut qr, &ps, h, proto);
        }
        client_step(&mut qr, &ps, cur, proto);
        Some(qr.role())
    })
    .map(|r| r.unwrap_or(Some(Role::Mirror))) // Mirror is never a legal answer: flags the anomaly
}

fn gen_overrides(rng: &mut Rng) -> Vec<Ov> {
    let n = rng.range(1, 4);
    (0..n)
        .map(|_| {
            if rng.chance(3, 5) {
                Ov::Role(*rng.pick(&["primary", "replica", "any", "auto", "default"]))
            } else {
                Ov::Pr(*rng.pick(&["on", "off", "default"]))
            }
        })
        .collect()
}

fn dr_name(d: Option<Role>) -> &'static str {
    role_name(d)
}

fn cfg_json(cfg: &Cfg) -> Value {
    json!({
        "default_role": dr_name(cfg.dr),
        "primary_reads_enabled": cfg.pr,
        "query_parser_read_write_splitting": cfg.split,
        "query_parser_enabled": true,
        "session_overrides": cfg.ovs.iter().map(|o| o.sql()).collect::<Vec<_>>(),
    })
}

struct Finding {
    shape: String,
    split: bool,
    pr_eff: bool,
    dr: Option<Role>,
    session: &'static str,
    expected: String,
    got: &'static str,
    proto: usize,
    desc: String,
    witness: Value,
    history: Option<String>,
}

pub fn run(thorough: bool, seed: u64) -> Acc {
    let threads = n_threads();
    let total: u64 = if thorough { 5_000_000 } else { 200_000 };
    let per_thread = total / threads as u64 + 1;

    let mut head = Acc::new();
    head.assume("Labels (plain read / not a plain read) come from the generator's grammar; only messages QueryRouter::parse accepts are judged.");
    head.assume("Precedence taken from the README: SET SERVER ROLE TO 'primary'|'replica'|'any' is an explicit choice that persists (parser switched off), 'auto' lets the parser decide, 'default' resets to the configured settings.");
    head.assume("Not judged (counted as dont_care): writes while the session explicitly asked for replica/any; plain reads when primary reads are enabled; plain reads when default_role = primary and no SET SERVER ROLE; EXPLAIN of a read.");
    head.assume("Between transactions the client loop resets nothing in the router except update_pool_settings(); this is replicated for multi-message histories.");
    head.assume("db_activity_based_routing is off in every configuration (activity-based pinning is outside this check).");

    let body = run_threads(threads, move |ti, _| {
        let mut acc = Acc::new();
        let mut rng = Rng::new(seed.wrapping_mul(50_005).wrapping_add(ti as u64 + 5));
        let mut names = PlainNames;
        let mut ring: Vec<Pm> = Vec::new();
        let roles = [None, Some(Role::Primary), Some(Role::Replica)];

        for it in 0..per_thread {
            let msg = gen::message(&mut rng, &mut names);
            acc.count("messages_generated");
            acc.add("statements_generated", msg.stmts.len() as u64);
            let shape = msg.shape();
            let label_read = msg.is_plain_read();
            acc.distinct.insert(hash64(&msg.sql));
            acc.set_insert("production_sequences", msg.prod_hash);
            acc.set_insert("shape_classes", hash64(&shape));
            acc.count(&format!("gen_shape:{}", if msg.stmts.len() == 1 { msg.stmts[0].class.split('[').next().unwrap().to_string() } else { "multi".to_string() }));
            acc.count(if label_read { "label:plain_read" } else { "label:not_plain_read" });
            let pm = match prepare(msg) {
                Ok(pm) => pm,
                Err(p) => {
                    acc.violation(
                        "C05|stage=parse|outcome=panic".to_string(),
                        format!("QueryRouter::parse panicked: {}", p),
                        json!({"panic": p}),
                    );
                    continue;
                }
            };
            for pr in 0..2 {
                if pm.ast[pr].is_some() {
                    acc.count(&format!("parser_accepted_{}", PROTO[pr]));
                    acc.count(&format!("accepted_shape:{}", if pm.msg.stmts.len() == 1 { pm.msg.stmts[0].class.split('[').next().unwrap().to_string() } else { "multi".to_string() }));
                    acc.count(&format!("accepted_coarse:{}", if pm.msg.stmts.len() == 1 { pm.msg.stmts[0].coarse } else { "multi" }));
                } else {
                    acc.count(&format!("parser_rejected_{}", PROTO[pr]));
                    if pr == 0 {
                        acc.count(&format!("rejected_shape:{}", if pm.msg.stmts.len() == 1 { pm.msg.stmts[0].class.split('[').next().unwrap().to_string() } else { "multi".to_string() }));
                    }
                }
            }
            if pm.ast[0].is_some() != pm.ast[1].is_some() {
                acc.count("parser_verdict_differs_between_Q_and_P");
            }
            if pm.ast[0].is_none() && pm.ast[1].is_none() {
                continue;
            }

            // configurations for this message
            let mut cfgs: Vec<Cfg> = Vec::new();
            for dr in roles.iter() {
                for pr in [false, true] {
                    cfgs.push(Cfg { dr: *dr, pr, split: true, ovs: vec![] });
                }
            }
            let n_base = cfgs.len();
            for dr in roles.iter() {
                for pr in [false, true] {
                    cfgs.push(Cfg { dr: *dr, pr, split: true, ovs: gen_overrides(&mut rng) });
                }
            }
            cfgs.push(Cfg { dr: *rng.pick(&roles), pr: rng.chance(1, 2), split: false, ovs: vec![] });
            cfgs.push(Cfg { dr: *rng.pick(&roles), pr: rng.chance(1, 2), split: false, ovs: gen_overrides(&mut rng) });

            // optional history (previous transactions on the same session)
            let hist_len = if ring.len() >= 3 && rng.chance(1, 3) { rng.range(1, 2) } else { 0 };
            let hist_idx: Vec<usize> = (0..hist_len).map(|_| rng.below(ring.len())).collect();

            let mut findings: Vec<Finding> = Vec::new();
            for proto in 0..2 {
                if pm.ast[proto].is_none() {
                    continue;
                }
                for (ci, cfg) in cfgs.iter().enumerate() {
                    let exp = oracle(&pm.msg, cfg);
                    let model = Model::of(cfg);
                    let pr_eff = model.pr_override.unwrap_or(cfg.pr);
                    acc.evaluations += 1;
                    let cfg_class = format!(
                        "split={},pr={},dr={},session={}",
                        if cfg.split { "on" } else { "off" },
                        if pr_eff { "on" } else { "off" },
                        dr_name(cfg.dr),
                        model.session_name()
                    );
                    if proto == 0 {
                        acc.count(&format!("cfg:{}", cfg_class));
                    }
                    acc.set_insert("cells_coarse_shape_x_config", hash64(&(pm.msg.stmts.iter().map(|s| s.coarse).collect::<Vec<_>>(), &cfg_class)));
                    let got = match run_session(cfg, &[], &pm, proto) {
                        Ok(g) => g,
                        Err(p) => {
                            acc.violation(
                                format!("C05|shape={}|stage=infer|outcome=panic", shape),
                                format!("infer panicked on {:?}: {}", pm.msg.sql, p),
                                json!({"sql": pm.msg.sql, "proto": PROTO[proto], "cfg": cfg_json(cfg), "panic": p}),
                            );
                            continue;
                        }
                    };
                    if let Exp::DontCare(why) = &exp {
                        acc.count("dont_care");
                        acc.count(&format!("dont_care:{}", why));
                    } else {
                        acc.count(&format!("judged:{}", exp.name()));
                    }
                    if ti == 0 && it < 40 && ci == 0 && proto == 0 {
                        acc.sample(json!({"sql": pm.msg.sql, "label": if label_read { "plain_read" } else { "not_plain_read" },
                            "shape": shape, "proto": PROTO[proto], "cfg": cfg_json(cfg), "expected": exp.name(), "observed_role": role_name(got)}));
                    }
                    if !exp.ok(got) {
                        findings.push(Finding {
                            shape: shape.clone(),
                            split: cfg.split,
                            pr_eff,
                            dr: cfg.dr,
                            session: model.session_name(),
                            expected: exp.name(),
                            got: role_name(got),
                            proto,
                            desc: format!(
                                "{} message `{}` (label: {}) under {} -> role() = {}, required: {}",
                                PROTO[proto],
                                pm.msg.sql,
                                if label_read { "plain read" } else { "not a plain read" },
                                cfg_class,
                                role_name(got),
                                exp.name()
                            ),
                            witness: json!({"sql": pm.msg.sql, "proto": PROTO[proto], "label": if label_read { "plain_read" } else { "not_plain_read" },
                                "statement_classes": pm.msg.stmts.iter().map(|s| s.class.clone()).collect::<Vec<_>>(),
                                "cfg": cfg_json(cfg), "expected": exp.name(), "got": role_name(got)}),
                            history: None,
                        });
                    }
                    // same message after earlier transactions on the same session
                    if hist_len > 0 && (ci < n_base || rng.chance(1, 4)) {
                        let hist: Vec<&Pm> = hist_idx.iter().map(|i| &ring[*i]).filter(|h| h.ast[proto].is_some()).collect();
                        if hist.is_empty() {
                            continue;
                        }
                        acc.evaluations += 1;
                        acc.count("history_evaluations");
                        let prev = hist.last().unwrap();
                        let prev_coarse = if prev.msg.stmts.len() == 1 { prev.msg.stmts[0].coarse } else if prev.msg.is_plain_read() { "multi_reads" } else { "multi_with_nonread" };
                        acc.count(&format!("history_prev:{}->{}", prev_coarse, if label_read { "read" } else { "nonread" }));
                        match run_session(cfg, &hist, &pm, proto) {
                            Err(p) => {
                                acc.violation(
                                    format!("C05|shape={}|stage=infer_with_history|outcome=panic", shape),
                                    format!("infer panicked: {}", p),
                                    json!({"sql": pm.msg.sql, "history": hist.iter().map(|h| h.msg.sql.clone()).collect::<Vec<_>>(), "panic": p}),
                                );
                            }
                            Ok(got_h) => {
                                if got_h != got {
                                    acc.count("history_changed_role");
                                }
                                if !exp.ok(got_h) && got_h != got {
                                    findings.push(Finding {
                                        shape: shape.clone(),
                                        split: cfg.split,
                                        pr_eff,
                                        dr: cfg.dr,
                                        session: model.session_name(),
                                        expected: exp.name(),
                                        got: role_name(got_h),
                                        proto,
                                        desc: format!(
                                            "after the transactions {:?} on the same session, {} message `{}` (label: {}) under {} -> role() = {} (fresh session: {}), required: {}",
                                            hist.iter().map(|h| h.msg.sql.clone()).collect::<Vec<_>>(),
                                            PROTO[proto], pm.msg.sql, if label_read { "plain read" } else { "not a plain read" },
                                            cfg_class, role_name(got_h), role_name(got), exp.name()
                                        ),
                                        witness: json!({"history": hist.iter().map(|h| h.msg.sql.clone()).collect::<Vec<_>>(), "sql": pm.msg.sql, "proto": PROTO[proto],
                                            "cfg": cfg_json(cfg), "expected": exp.name(), "got": role_name(got_h), "got_on_fresh_session": role_name(got)}),
                                        history: Some("role_differs_from_fresh_session".to_string()),
                                    });
                                } else if exp.ok(got_h) && !matches!(exp, Exp::DontCare(_)) {
                                    acc.count("history_redecided_ok");
                                }
                            }
                        }
                    }
                }
            }

            // ---- turn findings into signatures -------------------------------------
            // (a) Q and P agree  => no proto in the signature
            // (b) all three default_role values agree (same pr, session class, expected, got)
            //     => default_role=*
            // (c) findings under session overrides none/auto that repeat a base finding are
            //     folded into it (session=none|auto -> "parser_decides")
            let key = |f: &Finding, with_dr: bool, with_proto: bool| -> String {
                let sess = match f.session {
                    "none" | "auto" => "parser_decides",
                    s => s,
                };
                format!(
                    "C05|shape={}|cfg=rw_split={},primary_reads={},default_role={},session={}{}|expected={}|got={}{}",
                    f.shape,
                    if f.split { "on" } else { "off" },
                    if f.pr_eff { "on" } else { "off" },
                    if with_dr { dr_name(f.dr) } else { "*" },
                    sess,
                    match &f.history { Some(h) => format!(",history={}", h), None => String::new() },
                    f.expected,
                    f.got,
                    if with_proto { format!("|proto={}", PROTO[f.proto]) } else { String::new() }
                )
            };
            let mut used: Vec<bool> = vec![false; findings.len()];
            for i in 0..findings.len() {
                if used[i] {
                    continue;
                }
                let k_nodr = key(&findings[i], false, false);
                let group: Vec<usize> = (0..findings.len()).filter(|j| key(&findings[*j], false, false) == k_nodr).collect();
                let protos: HashSet<usize> = group.iter().map(|j| findings[*j].proto).collect();
                let both_protos = protos.len() == 2 || pm.ast[0].is_none() || pm.ast[1].is_none();
                let drs: HashSet<&'static str> = group.iter().map(|j| dr_name(findings[*j].dr)).collect();
                // default_role is irrelevant if every default_role that was tried in this class failed alike
                let tried_drs: HashSet<&'static str> = cfgs
                    .iter()
                    .filter(|c| {
                        let m = Model::of(c);
                        let sess = m.session_name();
                        let f = &findings[i];
                        c.split == f.split
                            && m.pr_override.unwrap_or(c.pr) == f.pr_eff
                            && (sess == f.session || (matches!(sess, "none" | "auto") && matches!(f.session, "none" | "auto")))
                    })
                    .map(|c| dr_name(c.dr))
                    .collect();
                let all_dr = drs.len() >= 2 && drs == tried_drs;
                for j in group {
                    used[j] = true;
                    let sig = key(&findings[j], !all_dr, !both_protos);
                    let f = &findings[j];
                    acc.violation(sig, f.desc.clone(), f.witness.clone());
                }
            }

            ring.push(pm);
            if ring.len() > 16 {
                ring.remove(0);
            }
        }
        acc
    });
    head.merge(body);
    head
}
