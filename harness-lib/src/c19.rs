//! C19 — plugin verdicts (table_access, intercept) at library level.
//!
//! table_access: statements come from the C05 grammar; a labelling `Names` implementation
//! fills every relation slot and remembers, for each slot, the position class, the kind
//! (listed / unlisted / listed-name-as-substring / listed name as schema only) and the
//! spelling.  PostgreSQL identifier rules give the label: unquoted identifiers fold to lower
//! case, so lower/UPPER/Mixed/"quoted lower" and every schema- or database-qualified form
//! of a listed (lower-case) name denote the listed table; "QUOTED UPPER" denotes a
//! different relation.  Deny is required iff at least one slot resolves to a listed table.
//!
//! intercept: rules are written in the form the shipped examples use (lower case, single
//! blanks).  Queries equal to a rule modulo letter case outside string literals, white
//! space and a trailing semicolon must be answered with exactly the configured rows.

use crate::gen::{self, Names, Pos};
use crate::util::*;
use bytes::{Buf, BytesMut};
use pgcat::config::{Intercept, Plugins, Query, TableAccess};
use pgcat::messages::simple_query;
use pgcat::plugins::PluginOutput;
use pgcat::pool::PoolSettings;
use pgcat::query_router::QueryRouter;
use serde_json::{json, Value};
use std::collections::BTreeMap;

#[derive(Clone, Copy, PartialEq, Eq, Debug)]
enum Kind {
    Listed,
    Unlisted,
    Substring,
    ListedAsSchema,
}

impl Kind {
    fn name(self) -> &'static str {
        match self {
            Kind::Listed => "listed",
            Kind::Unlisted => "unlisted",
            Kind::Substring => "listed_name_as_substring",
            Kind::ListedAsSchema => "listed_name_as_schema_only",
        }
    }
}

#[derive(Clone, Copy, PartialEq, Eq, Debug)]
enum Spelling {
    Lower,
    Upper,
    Mixed,
    QuotedLower,
    SchemaName,
    QSchemaQName,
    SchemaQName,
    DbSchemaName,
    QuotedUpper,
}

const SPELLINGS: [Spelling; 9] = [
    Spelling::Lower,
    Spelling::Upper,
    Spelling::Mixed,
    Spelling::QuotedLower,
    Spelling::SchemaName,
    Spelling::QSchemaQName,
    Spelling::SchemaQName,
    Spelling::DbSchemaName,
    Spelling::QuotedUpper,
];

impl Spelling {
    fn name(self) -> &'static str {
        match self {
            Spelling::Lower => "lower",
            Spelling::Upper => "UPPER",
            Spelling::Mixed => "Mixed",
            Spelling::QuotedLower => "\"quoted_lower\"",
            Spelling::SchemaName => "schema.name",
            Spelling::QSchemaQName => "\"schema\".\"name\"",
            Spelling::SchemaQName => "schema.\"name\"",
            Spelling::DbSchemaName => "db.schema.name",
            Spelling::QuotedUpper => "\"QUOTED_UPPER\"(different relation)",
        }
    }
    /// does this spelling of a lower-case catalogue name denote that very relation?
    fn same_relation(self) -> bool {
        self != Spelling::QuotedUpper
    }
}

fn mixed_case(name: &str) -> String {
    // Capitalise the first letter and every letter after '_' (always yields >= 1 upper-case
    // and, for names longer than one letter, >= 1 lower-case letter).
    let mut out = String::new();
    let mut up = true;
    for c in name.chars() {
        if c == '_' {
            out.push(c);
            up = true;
        } else if up && c.is_ascii_alphabetic() {
            out.push(c.to_ascii_uppercase());
            up = false;
        } else {
            out.push(c);
        }
    }
    out
}

fn render(rng: &mut Rng, name: &str, sp: Spelling) -> String {
    let schema = *rng.pick(&["public", "pg_catalog", "app"]);
    match sp {
        Spelling::Lower => name.to_string(),
        Spelling::Upper => name.to_ascii_uppercase(),
        Spelling::Mixed => mixed_case(name),
        Spelling::QuotedLower => format!("\"{}\"", name),
        Spelling::SchemaName => format!("{}.{}", schema, name),
        Spelling::QSchemaQName => format!("\"{}\".\"{}\"", schema, name),
        Spelling::SchemaQName => format!("{}.\"{}\"", schema, name),
        Spelling::DbSchemaName => format!("appdb.{}.{}", schema, name),
        Spelling::QuotedUpper => format!("\"{}\"", name.to_ascii_uppercase()),
    }
}

#[derive(Clone, Debug)]
struct RelRef {
    pos: Pos,
    kind: Kind,
    spelling: Spelling,
    text: String,
    hot: bool,
    /// index of the statement (within the message) the slot belongs to
    stmt: usize,
}

const LISTABLE: [&str; 6] = ["pg_user", "pg_roles", "pg_database", "secrets", "accounts", "t_priv"];
const UNLISTED: [&str; 6] = ["items", "orders", "t1", "events", "users_public", "pg_class"];

struct LabelNames {
    tables: Vec<String>,
    refs: Vec<RelRef>,
    decoy_cols: u32,
    decoy_aliases: u32,
    hot_budget: usize,
    skip: usize,
    decoys: bool,
    cur_stmt: usize,
}

impl Names for LabelNames {
    fn begin_statement(&mut self, idx: usize) {
        self.cur_stmt = idx;
    }
    fn rel(&mut self, rng: &mut Rng, pos: Pos) -> String {
        let want_hot = if self.skip > 0 {
            self.skip -= 1;
            false
        } else {
            self.hot_budget > 0 && rng.chance(1, 2)
        };
        let (kind, name, sp): (Kind, String, Spelling) = if want_hot {
            self.hot_budget -= 1;
            let mut sp = *rng.pick(&SPELLINGS);
            if sp == Spelling::QuotedUpper {
                sp = Spelling::Lower; // keep the slot hot
            }
            (Kind::Listed, rng.pick(&self.tables).clone(), sp)
        } else {
            match rng.below(10) {
                0 => (Kind::Listed, rng.pick(&self.tables).clone(), Spelling::QuotedUpper),
                1 | 2 => {
                    let l = rng.pick(&self.tables).clone();
                    let n = match rng.below(4) {
                        0 => format!("{}_x", l),
                        1 => format!("x{}", l),
                        2 => format!("{}s", l),
                        _ => format!("my_{}_copy", l),
                    };
                    (Kind::Substring, n, *rng.pick(&SPELLINGS))
                }
                3 => (Kind::ListedAsSchema, String::new(), Spelling::SchemaName),
                _ => {
                    let pool: Vec<&str> = UNLISTED.iter().copied().chain(LISTABLE.iter().copied()).filter(|n| !self.tables.iter().any(|t| t == n)).collect();
                    ((Kind::Unlisted), (*rng.pick(&pool)).to_string(), *rng.pick(&SPELLINGS))
                }
            }
        };
        let text = if kind == Kind::ListedAsSchema {
            // a relation called "items" in a SCHEMA that happens to be named like a listed table
            format!("{}.{}", rng.pick(&self.tables), *rng.pick(&UNLISTED))
        } else {
            render(rng, &name, sp)
        };
        let hot = kind == Kind::Listed && sp.same_relation();
        self.refs.push(RelRef { pos, kind, spelling: sp, text: text.clone(), hot, stmt: self.cur_stmt });
        text
    }
    fn col(&mut self, rng: &mut Rng) -> String {
        if self.decoys && rng.chance(1, 6) {
            self.decoy_cols += 1;
            return rng.pick(&self.tables).clone();
        }
        (*rng.pick(&["id", "name", "val", "qty", "ref_id"])).to_string()
    }
    fn alias(&mut self, rng: &mut Rng) -> String {
        if self.decoys && rng.chance(1, 5) {
            self.decoy_aliases += 1;
            return rng.pick(&self.tables).clone();
        }
        (*rng.pick(&["a", "b", "x", "y", "s1"])).to_string()
    }
    fn fresh(&mut self, rng: &mut Rng) -> String {
        format!("new_obj_{}", rng.below(50))
    }
}

fn base_settings(plugins: Option<Plugins>) -> PoolSettings {
    let mut user = pgcat::config::User::default();
    user.username = "alice".to_string();
    PoolSettings {
        query_parser_enabled: true,
        db: "appdb".to_string(),
        user,
        plugins,
        ..Default::default()
    }
}

fn out_name(o: &Result<PluginOutput, pgcat::errors::Error>) -> String {
    match o {
        Ok(PluginOutput::Allow) => "allow".into(),
        Ok(PluginOutput::Deny(_)) => "deny".into(),
        Ok(PluginOutput::Intercept(_)) => "intercept".into(),
        Ok(PluginOutput::Overwrite(_)) => "overwrite".into(),
        Err(_) => "error".into(),
    }
}

// ------------------------------------------------------------------------------------
// table_access
// ------------------------------------------------------------------------------------
fn table_access_part(thorough: bool, seed: u64) -> Acc {
    let threads = n_threads();
    let total: u64 = if thorough { 5_000_000 } else { 200_000 };
    let per_thread = total / threads as u64 + 1;
    run_threads(threads, move |ti, _| {
        let rt = tokio::runtime::Builder::new_current_thread().enable_all().build().expect("tokio runtime");
        let mut acc = Acc::new();
        let mut rng = Rng::new(seed.wrapping_mul(190_019).wrapping_add(ti as u64 + 19));
        for it in 0..per_thread {
            // table list of 1-3 lower-case names
            let nt = rng.range(1, 3);
            let mut tables: Vec<String> = Vec::new();
            while tables.len() < nt {
                let t = (*rng.pick(&LISTABLE)).to_string();
                if !tables.contains(&t) {
                    tables.push(t);
                }
            }
            let hot_budget = match rng.below(10) {
                0 | 1 | 2 => 0,
                3..=8 => 1,
                _ => 2,
            };
            let mut names = LabelNames {
                tables: tables.clone(),
                refs: Vec::new(),
                decoy_cols: 0,
                decoy_aliases: 0,
                hot_budget,
                skip: rng.below(4),
                decoys: rng.chance(1, 2),
                cur_stmt: 0,
            };
            let msg = gen::message(&mut rng, &mut names);
            let refs = names.refs.clone();
            let hot: Vec<&RelRef> = refs.iter().filter(|r| r.hot).collect();
            let expect_deny = !hot.is_empty();
            acc.count("messages_generated");
            acc.add("relation_slots_generated", refs.len() as u64);
            acc.add("decoy_columns", names.decoy_cols as u64);
            acc.add("decoy_aliases", names.decoy_aliases as u64);
            acc.distinct.insert(hash64(&msg.sql));
            acc.set_insert("production_sequences", msg.prod_hash);

            // leg: 0 = enabled, 1 = plugins None, 2 = table_access.enabled = false,
            //      3 = enabled together with an (unrelated) enabled intercept rule set
            let leg = match rng.below(8) {
                0 => 1,
                1 => 2,
                2 => 3,
                _ => 0,
            };
            let plugins = match leg {
                1 => None,
                2 => Some(Plugins { table_access: Some(TableAccess { enabled: false, tables: tables.clone() }), intercept: None, query_logger: None, prewarmer: None }),
                3 => Some(Plugins {
                    table_access: Some(TableAccess { enabled: true, tables: tables.clone() }),
                    intercept: Some(intercept_config(&[0, 1], true, false)),
                    query_logger: None,
                    prewarmer: None,
                }),
                _ => Some(Plugins { table_access: Some(TableAccess { enabled: true, tables: tables.clone() }), intercept: None, query_logger: None, prewarmer: None }),
            };
            let enabled = leg == 0 || leg == 3;
            let ps = base_settings(plugins);
            let mut qr = QueryRouter::new();
            qr.update_pool_settings(&ps);

            for (proto, wire) in [("Q", simple_query(&msg.sql)), ("P", parse_message(&msg.sql))] {
                let ast = match guarded(|| qr.parse(&wire)) {
                    Ok(Ok(ast)) => ast,
                    Ok(Err(_)) => {
                        acc.count(&format!("parser_rejected_{}", proto));
                        continue;
                    }
                    Err(p) => {
                        acc.violation("C19|stage=parse|outcome=panic".into(), format!("parse panicked on {:?}: {}", msg.sql, p), json!({"sql": msg.sql, "panic": p}));
                        continue;
                    }
                };
                acc.count(&format!("parser_accepted_{}", proto));
                if ast.is_empty() {
                    continue;
                }
                acc.evaluations += 1;
                let out = match guarded(|| rt.block_on(qr.execute_plugins(&ast))) {
                    Ok(o) => o,
                    Err(p) => {
                        acc.violation("C19|stage=execute_plugins|outcome=panic".into(), format!("execute_plugins panicked on {:?}: {}", msg.sql, p), json!({"sql": msg.sql, "panic": p}));
                        continue;
                    }
                };
                let got = out_name(&out);
                acc.count(&format!("verdict:{}:{}", if enabled { "enabled" } else { "disabled" }, got));
                if proto == "Q" {
                    for r in &refs {
                        acc.count(&format!("slot:{}|{}|{}", r.pos.name(), r.kind.name(), r.spelling.name()));
                    }
                    if msg.stmts.len() > 1 {
                        acc.count(if expect_deny { "multi_statement_with_listed" } else { "multi_statement_without_listed" });
                    }
                }
                if ti == 0 && it < 60 && proto == "Q" && acc.samples.len() < MAX_SAMPLES && (expect_deny || it % 5 == 0) {
                    acc.sample(json!({"sql": msg.sql, "tables": tables, "leg": leg, "expected": if enabled && expect_deny { "deny" } else { "allow" }, "observed": got,
                        "slots": refs.iter().map(|r| json!({"pos": r.pos.name(), "kind": r.kind.name(), "spelling": r.spelling.name(), "text": r.text})).collect::<Vec<_>>() }));
                }
                let witness = |extra: Value| -> Value {
                    json!({"sql": msg.sql, "proto": proto, "tables": tables, "plugins_leg": match leg { 1 => "plugins=None", 2 => "table_access.enabled=false", 3 => "table_access+intercept enabled", _ => "table_access enabled" },
                        "slots": refs.iter().map(|r| json!({"pos": r.pos.name(), "kind": r.kind.name(), "spelling": r.spelling.name(), "text": r.text, "resolves_to_listed": r.hot})).collect::<Vec<_>>(),
                        "observed": format!("{:?}", out).chars().take(200).collect::<String>(), "detail": extra})
                };
                if !enabled {
                    if got != "allow" {
                        acc.violation(
                            format!("C19|table_access|plugins={}|expected=allow|got={}", if leg == 1 { "none" } else { "disabled" }, got),
                            format!("plugins off ({}) but `{}` got verdict {}", if leg == 1 { "None" } else { "enabled=false" }, msg.sql, got),
                            witness(json!(null)),
                        );
                    } else {
                        acc.count("disabled_never_blocked_ok");
                    }
                    continue;
                }
                match (expect_deny, got.as_str()) {
                    (true, "deny") => {
                        acc.count("deny_ok");
                        if hot.len() == 1 {
                            // only then is it known WHICH reference triggered the denial
                            acc.count(&format!("denied_ok:{}|{}", hot[0].pos.name(), hot[0].spelling.name()));
                        }
                    }
                    (false, "allow") => acc.count("allow_ok"),
                    (true, _) => {
                        // Attribution only (the verdict above is label-based): if the parser
                        // produced fewer statements than were generated, the last parsed
                        // statement swallowed the following ones (sqlparser does that for
                        // `SHOW x; ...` and `COPY t FROM STDIN; ...`); references in the
                        // swallowed statements are reported under that cause, not under
                        // their own position/spelling.
                        let swallower = if ast.len() < msg.stmts.len() { Some(ast.len() - 1) } else { None };
                        for r in &hot {
                            let hidden = matches!(swallower, Some(i) if r.stmt > i);
                            let sig = if hidden {
                                format!(
                                    "C19|table_access|cause=statements_after_{}_invisible_to_parser|expected=deny|got={}",
                                    msg.stmts[swallower.unwrap()].class, got
                                )
                            } else {
                                format!("C19|table_access|pos={}|spelling={}|expected=deny|got={}", r.pos.name(), r.spelling.name(), got)
                            };
                            let desc = format!(
                                "tables = {:?}: `{}` refers to listed table via `{}` ({} position, spelling {}, statement #{}{}) but execute_plugins returned {} ({} message)",
                                tables, msg.sql, r.text, r.pos.name(), r.spelling.name(), r.stmt + 1,
                                if hidden { format!("; the parser produced only {} statement(s) for the {} sent", ast.len(), msg.stmts.len()) } else { String::new() },
                                got, proto
                            );
                            acc.violation(sig, desc, witness(json!({"missed_reference": r.text, "parsed_statements": ast.len(), "sent_statements": msg.stmts.len()})));
                        }
                    }
                    (false, "deny") => {
                        let named = match &out {
                            Ok(PluginOutput::Deny(m)) => m.clone(),
                            _ => String::new(),
                        };
                        let culprit = refs.iter().find(|r| {
                            let last = r.text.rsplit('.').next().unwrap_or("");
                            named.contains(&format!("\"{}\"", last))
                        });
                        let sig = match culprit {
                            Some(r) => format!("C19|table_access|kind={}|pos={}|spelling={}|expected=allow|got=deny", r.kind.name(), r.pos.name(), r.spelling.name()),
                            None => "C19|table_access|kind=no_relation_slot(column_or_alias?)|expected=allow|got=deny".to_string(),
                        };
                        acc.violation(
                            sig,
                            format!("tables = {:?}: `{}` references no listed table (slots: {:?}) but was denied: {}", tables, msg.sql, refs.iter().map(|r| r.text.clone()).collect::<Vec<_>>(), named),
                            witness(json!({"deny_message": named})),
                        );
                    }
                    (false, other) => {
                        acc.violation(
                            format!("C19|table_access|expected=allow|got={}", other),
                            format!("`{}` got unexpected verdict {}", msg.sql, other),
                            witness(json!(null)),
                        );
                    }
                }
            }
        }
        acc
    })
}

// ------------------------------------------------------------------------------------
// intercept
// ------------------------------------------------------------------------------------
struct Rule {
    query: &'static str,
    schema: &'static [(&'static str, &'static str)],
    result: &'static [&'static [&'static str]],
    /// rule text is NOT what sqlparser prints for the parsed query (so even a byte-identical
    /// query can never match): kept out of the verdict, counted
    non_display_form: bool,
}

const RULES: [Rule; 9] = [
    // the two shipped rules (pgcat.toml)
    Rule { query: "select current_database() as a, current_schemas(false) as b", schema: &[("a", "text"), ("b", "text")], result: &[&["${DATABASE}", "{public}"]], non_display_form: false },
    Rule { query: "select current_database(), current_schema(), current_user", schema: &[("current_database", "text"), ("current_schema", "text"), ("current_user", "text")], result: &[&["${DATABASE}", "public", "${USER}"]], non_display_form: false },
    // generated in the same style
    Rule { query: "select 1", schema: &[("?column?", "int4")], result: &[&["1"]], non_display_form: false },
    Rule { query: "select version()", schema: &[("version", "text")], result: &[&["PostgreSQL 14.0 (pgcat)"]], non_display_form: false },
    Rule { query: "select id, name from users where id = 1", schema: &[("id", "int4"), ("name", "text")], result: &[&["1", "${USER}"], &["2", "bob"]], non_display_form: false },
    Rule { query: "select count(*) from orders", schema: &[("count", "int4")], result: &[&["42"]], non_display_form: false },
    Rule { query: "select * from pg_settings where name = 'x'", schema: &[("name", "text"), ("setting", "text"), ("on", "bool")], result: &[], non_display_form: false },
    // rules a user could plausibly write that are not in sqlparser's print form
    Rule { query: "select 1+1", schema: &[("sum", "int4")], result: &[&["2"]], non_display_form: true },
    Rule { query: "select a from t where b in (1,2)", schema: &[("a", "text")], result: &[&["z"]], non_display_form: true },
];

fn intercept_config(rule_idx: &[usize], enabled: bool, upper_in_config: bool) -> Intercept {
    let mut queries = BTreeMap::new();
    for (n, i) in rule_idx.iter().enumerate() {
        let r = &RULES[*i];
        queries.insert(
            n.to_string(),
            Query {
                query: if upper_in_config { recase_outside_literals(r.query, 1, &mut Rng::new(1)) } else { r.query.to_string() },
                schema: r.schema.iter().map(|(a, b)| vec![a.to_string(), b.to_string()]).collect(),
                result: r.result.iter().map(|row| row.iter().map(|s| s.to_string()).collect()).collect(),
            },
        );
    }
    Intercept { enabled, queries }
}

/// style 0 = as is, 1 = upper, 2 = random; string literals ('...') are left alone
fn recase_outside_literals(s: &str, style: usize, rng: &mut Rng) -> String {
    let mut out = String::new();
    let mut in_lit = false;
    for c in s.chars() {
        if c == '\'' {
            in_lit = !in_lit;
            out.push(c);
            continue;
        }
        if in_lit {
            out.push(c);
            continue;
        }
        out.push(match style {
            1 => c.to_ascii_uppercase(),
            2 => {
                if rng.chance(1, 2) {
                    c.to_ascii_uppercase()
                } else {
                    c
                }
            }
            _ => c,
        });
    }
    out
}

/// replace the blanks outside literals by random white space, pad the ends
fn rewhitespace(s: &str, rng: &mut Rng) -> String {
    let mut out = String::new();
    let mut in_lit = false;
    out.push_str(*rng.pick(&["", " ", "\n", "  "]));
    for c in s.chars() {
        if c == '\'' {
            in_lit = !in_lit;
        }
        if c == ' ' && !in_lit {
            out.push_str(*rng.pick(&[" ", "  ", "\t", "\n", " \n  ", "   "]));
        } else {
            out.push(c);
        }
    }
    out.push_str(*rng.pick(&["", " ", "\n", "  "]));
    out
}

#[derive(Debug, PartialEq, Clone)]
struct Decoded {
    /// one entry per result set: (column names, type oids, rows)
    sets: Vec<(Vec<String>, Vec<i32>, Vec<Vec<Option<String>>>)>,
    tags: Vec<String>,
    ready: Option<u8>,
    trailing_garbage: bool,
}

fn read_cstr(b: &mut &[u8]) -> Option<String> {
    let p = b.iter().position(|x| *x == 0)?;
    let s = String::from_utf8_lossy(&b[..p]).to_string();
    *b = &b[p + 1..];
    Some(s)
}

fn decode(buf: &BytesMut) -> Result<Decoded, String> {
    let mut b: &[u8] = &buf[..];
    let mut d = Decoded { sets: Vec::new(), tags: Vec::new(), ready: None, trailing_garbage: false };
    while !b.is_empty() {
        if d.ready.is_some() {
            d.trailing_garbage = true;
            break;
        }
        if b.len() < 5 {
            return Err("truncated message header".into());
        }
        let tag = b[0];
        let len = i32::from_be_bytes([b[1], b[2], b[3], b[4]]) as usize;
        if len < 4 || b.len() < 1 + len {
            return Err(format!("bad length {} for message '{}'", len, tag as char));
        }
        let mut p: &[u8] = &b[5..1 + len];
        b = &b[1 + len..];
        match tag {
            b'T' => {
                if p.remaining() < 2 {
                    return Err("short RowDescription".into());
                }
                let n = p.get_i16();
                let mut names = Vec::new();
                let mut oids = Vec::new();
                for _ in 0..n {
                    let name = read_cstr(&mut p).ok_or("unterminated column name")?;
                    if p.remaining() < 18 {
                        return Err("short RowDescription field".into());
                    }
                    let _tbl = p.get_i32();
                    let _att = p.get_i16();
                    let oid = p.get_i32();
                    let _len = p.get_i16();
                    let _mod = p.get_i32();
                    let fmt = p.get_i16();
                    if fmt != 0 {
                        return Err("non-text column format".into());
                    }
                    names.push(name);
                    oids.push(oid);
                }
                if p.has_remaining() {
                    return Err("extra bytes in RowDescription".into());
                }
                d.sets.push((names, oids, Vec::new()));
            }
            b'D' => {
                if p.remaining() < 2 {
                    return Err("short DataRow".into());
                }
                let n = p.get_i16();
                let mut row = Vec::new();
                for _ in 0..n {
                    if p.remaining() < 4 {
                        return Err("short DataRow field".into());
                    }
                    let l = p.get_i32();
                    if l < 0 {
                        row.push(None);
                    } else {
                        if p.remaining() < l as usize {
                            return Err("DataRow field overruns message".into());
                        }
                        row.push(Some(String::from_utf8_lossy(&p[..l as usize]).to_string()));
                        p.advance(l as usize);
                    }
                }
                if p.has_remaining() {
                    return Err("extra bytes in DataRow".into());
                }
                match d.sets.last_mut() {
                    Some(s) => s.2.push(row),
                    None => return Err("DataRow before RowDescription".into()),
                }
            }
            b'C' => {
                d.tags.push(read_cstr(&mut p).ok_or("unterminated command tag")?);
            }
            b'Z' => {
                if p.len() != 1 {
                    return Err("bad ReadyForQuery".into());
                }
                d.ready = Some(p[0]);
            }
            other => return Err(format!("unexpected message type '{}'", other as char)),
        }
    }
    Ok(d)
}

fn type_oid(t: &str) -> Option<i32> {
    // PostgreSQL's pg_type OIDs for the documented type names
    match t {
        "text" => Some(25),
        "int4" => Some(23),
        "bool" => Some(16),
        "oid" => Some(26),
        _ => None,
    }
}

fn expected_set(r: &Rule, db: &str, user: &str) -> (Vec<String>, Vec<Option<i32>>, Vec<Vec<Option<String>>>) {
    (
        r.schema.iter().map(|(n, _)| n.to_string()).collect(),
        r.schema.iter().map(|(_, t)| type_oid(t)).collect(),
        r.result.iter().map(|row| row.iter().map(|v| Some(v.replace("${USER}", user).replace("${DATABASE}", db))).collect()).collect(),
    )
}

fn check_intercept_bytes(bytes: &BytesMut, rules: &[&Rule], db: &str, user: &str) -> Result<(), String> {
    let d = decode(bytes)?;
    if d.ready != Some(b'I') {
        return Err(format!("reply does not end in ReadyForQuery(I): {:?}", d.ready));
    }
    if d.trailing_garbage {
        return Err("bytes after ReadyForQuery".into());
    }
    if d.sets.len() != rules.len() || d.tags.len() != rules.len() {
        return Err(format!("{} result sets / {} CommandComplete for {} matching statements", d.sets.len(), d.tags.len(), rules.len()));
    }
    for (i, r) in rules.iter().enumerate() {
        let (names, oids, rows) = expected_set(r, db, user);
        let got = &d.sets[i];
        if got.0 != names {
            return Err(format!("column names {:?} != configured {:?}", got.0, names));
        }
        for (j, o) in oids.iter().enumerate() {
            if let Some(o) = o {
                if got.1[j] != *o {
                    return Err(format!("column {} has type oid {} but configured type is {}", names[j], got.1[j], r.schema[j].1));
                }
            }
        }
        if got.2 != rows {
            return Err(format!("rows {:?} != configured {:?}", got.2, rows));
        }
        if !d.tags[i].starts_with("SELECT") {
            return Err(format!("command tag {:?}", d.tags[i]));
        }
    }
    Ok(())
}

fn intercept_part(thorough: bool, seed: u64) -> Acc {
    let threads = n_threads();
    let total: u64 = if thorough { 2_000_000 } else { 100_000 };
    let per_thread = total / threads as u64 + 1;
    run_threads(threads, move |ti, _| {
        let rt = tokio::runtime::Builder::new_current_thread().enable_all().build().expect("tokio runtime");
        let mut acc = Acc::new();
        let mut rng = Rng::new(seed.wrapping_mul(191_919).wrapping_add(ti as u64 + 77));
        for it in 0..per_thread {
            // configuration: 1-4 rules
            let mut idx: Vec<usize> = Vec::new();
            let n_rules = rng.range(1, 4);
            while idx.len() < n_rules {
                let i = rng.below(RULES.len());
                if !idx.contains(&i) {
                    idx.push(i);
                }
            }
            let leg = match rng.below(8) {
                0 => 1, // plugins None
                1 => 2, // intercept.enabled = false
                _ => 0,
            };
            let upper_cfg = rng.chance(1, 4);
            let plugins = match leg {
                1 => None,
                2 => Some(Plugins { intercept: Some(intercept_config(&idx, false, upper_cfg)), table_access: None, query_logger: None, prewarmer: None }),
                _ => Some(Plugins {
                    intercept: Some(intercept_config(&idx, true, upper_cfg)),
                    // table_access alongside, listing a table no rule mentions
                    table_access: if rng.chance(1, 2) { Some(TableAccess { enabled: true, tables: vec!["secrets".into()] }) } else { None },
                    query_logger: None,
                    prewarmer: None,
                }),
            };
            let enabled = leg == 0;
            let ps = base_settings(plugins);
            let mut qr = QueryRouter::new();
            qr.update_pool_settings(&ps);

            // the message: 1-3 statements, each either a variant of a configured rule or a
            // near miss that differs from every rule
            let n_stmts = match rng.below(10) {
                0..=6 => 1,
                7 | 8 => 2,
                _ => 3,
            };
            let mut parts: Vec<String> = Vec::new();
            let mut matched: Vec<Option<usize>> = Vec::new(); // rule index or None
            let mut variant_names: Vec<&'static str> = Vec::new();
            let mut non_display = false;
            for _ in 0..n_stmts {
                let ri = *rng.pick(&idx);
                let r = &RULES[ri];
                if rng.chance(3, 5) {
                    // equal modulo case / white space
                    let (q, vn) = match rng.below(6) {
                        0 => (r.query.to_string(), "verbatim"),
                        1 => (recase_outside_literals(r.query, 1, &mut rng), "upper_case"),
                        2 => (recase_outside_literals(r.query, 2, &mut rng), "random_case"),
                        3 => (rewhitespace(r.query, &mut rng), "white_space"),
                        4 => {
                            let t = recase_outside_literals(r.query, 2, &mut rng);
                            (rewhitespace(&t, &mut rng), "case_and_white_space")
                        }
                        _ => (r.query.to_string(), "verbatim"),
                    };
                    non_display |= r.non_display_form;
                    parts.push(q);
                    matched.push(Some(ri));
                    variant_names.push(vn);
                } else {
                    // a different query
                    let q = match rng.below(8) {
                        0 => {
                            if r.query.contains(" from ") {
                                r.query.replacen(" from ", ", 2 from ", 1)
                            } else {
                                format!("{}, 2", r.query)
                            }
                        }
                        1 => r.query.replace("= 1", "= 2").replace("'x'", "'y'").replace("select 1", "select 2").replace("false", "true").replace("version()", "version(), 1").replace("current_user", "session_user").replace("count(*)", "count(id)"),
                        2 => format!("select '{}'", r.query.replace('\'', "''")),
                        3 => format!("{} limit 1", r.query),
                        4 => format!("explain {}", r.query),
                        5 => format!("select * from ({}) as s", r.query),
                        6 => "select 2".to_string(),
                        _ => "insert into audit (who) values ('x')".to_string(),
                    };
                    // make sure it really is no rule variant (e.g. replace() was a no-op)
                    let canon = q.to_ascii_lowercase();
                    if idx.iter().any(|i| RULES[*i].query == canon) {
                        parts.push("select 2".to_string());
                    } else {
                        parts.push(q);
                    }
                    matched.push(None);
                    variant_names.push("different_query");
                }
            }
            let mut sql = parts.join("; ");
            if rng.chance(1, 3) {
                sql.push(';');
            }
            acc.distinct.insert(hash64(&sql));
            acc.count("intercept_messages_generated");
            let n_match = matched.iter().filter(|m| m.is_some()).count();
            let class = if n_match == 0 {
                "none_match"
            } else if n_match == matched.len() {
                "all_match"
            } else {
                "mixed"
            };

            for (proto, wire) in [("Q", simple_query(&sql)), ("P", parse_message(&sql))] {
                let ast = match guarded(|| qr.parse(&wire)) {
                    Ok(Ok(a)) => a,
                    Ok(Err(_)) => {
                        acc.count("intercept_parser_rejected");
                        continue;
                    }
                    Err(p) => {
                        acc.violation("C19|stage=parse|outcome=panic".into(), format!("parse panicked on {:?}: {}", sql, p), json!({"sql": sql}));
                        continue;
                    }
                };
                if ast.is_empty() {
                    continue;
                }
                acc.evaluations += 1;
                let out = match guarded(|| rt.block_on(qr.execute_plugins(&ast))) {
                    Ok(o) => o,
                    Err(p) => {
                        acc.violation("C19|intercept|outcome=panic".into(), format!("execute_plugins panicked on {:?}: {}", sql, p), json!({"sql": sql, "panic": p}));
                        continue;
                    }
                };
                let got = out_name(&out);
                acc.count(&format!("intercept_case:{}:{}:{}", if enabled { "enabled" } else { "disabled" }, class, got));
                let witness = || -> Value {
                    json!({"sql": sql, "proto": proto, "rules": idx.iter().map(|i| RULES[*i].query).collect::<Vec<_>>(), "rules_upper_case_in_config": upper_cfg,
                        "leg": match leg { 1 => "plugins=None", 2 => "intercept.enabled=false", _ => "intercept enabled" },
                        "statements": parts.iter().zip(matched.iter()).map(|(p, m)| json!({"sql": p, "equals_rule": m.map(|i| RULES[i].query)})).collect::<Vec<_>>(),
                        "observed": format!("{:?}", out).chars().take(300).collect::<String>()})
                };
                if ti == 0 && it < 30 && proto == "Q" {
                    acc.sample(json!({"sql": sql, "rules": idx.iter().map(|i| RULES[*i].query).collect::<Vec<_>>(), "enabled": enabled, "class": class, "observed": got}));
                }
                if !enabled {
                    if got != "allow" {
                        acc.violation(
                            format!("C19|intercept|plugins={}|expected=allow|got={}", if leg == 1 { "none" } else { "disabled" }, got),
                            format!("intercept off but `{}` got {}", sql, got),
                            witness(),
                        );
                    } else {
                        acc.count("intercept_disabled_ok");
                    }
                    continue;
                }
                if non_display {
                    // a rule that is not in the parser's print form can never match, not even
                    // byte-identical input; the documentation does not say how rules must be
                    // written => not judged, but made visible
                    acc.count("dont_care");
                    acc.count(&format!("dont_care_rule_not_in_parser_print_form:{}", got));
                    continue;
                }
                match class {
                    "none_match" => {
                        if got == "intercept" {
                            acc.violation(
                                "C19|intercept|query=different_from_every_rule|expected=not_intercepted|got=intercept".into(),
                                format!("`{}` equals no configured rule but was intercepted", sql),
                                witness(),
                            );
                        } else {
                            acc.count("intercept_nonmatch_ok");
                        }
                    }
                    "all_match" => {
                        let variant = if matched.len() == 1 { variant_names[0] } else { "multi_all_match" };
                        match &out {
                            Ok(PluginOutput::Intercept(bytes)) => {
                                let rules: Vec<&Rule> = matched.iter().map(|m| &RULES[m.unwrap()]).collect();
                                match check_intercept_bytes(bytes, &rules, "appdb", "alice") {
                                    Ok(()) => acc.count(&format!("intercept_match_ok:{}", variant)),
                                    Err(e) => {
                                        // strip run-specific values from the signature
                                        let kind = e.split(|c: char| c == ':' || c.is_ascii_digit() || c == '[' || c == '{').next().unwrap_or("").trim().replace(' ', "_");
                                        acc.violation(
                                            format!("C19|intercept|variant={}|expected=configured_rows|got=wrong_reply({})", variant, kind),
                                            format!("`{}` matches rule(s) {:?} but the intercepted reply is wrong: {}", sql, rules.iter().map(|r| r.query).collect::<Vec<_>>(), e),
                                            witness(),
                                        );
                                    }
                                }
                            }
                            _ => {
                                acc.violation(
                                    format!("C19|intercept|variant={}|expected=intercept|got={}", variant, got),
                                    format!("`{}` equals configured rule(s) modulo case/white space but got {}", sql, got),
                                    witness(),
                                );
                            }
                        }
                    }
                    _ => {
                        // some statements match, others do not: whatever the pooler does, the
                        // non-matching statements must not be silently dropped, i.e. the
                        // message must not be answered as a whole from the rule table
                        if got == "intercept" {
                            let has_write = parts.iter().zip(matched.iter()).any(|(p, m)| m.is_none() && p.starts_with("insert"));
                            acc.violation(
                                format!("C19|intercept|shape=multi[match+nonmatch{}]|expected=nonmatching_statements_not_swallowed|got=intercept", if has_write { ",nonmatch_is_write" } else { "" }),
                                format!("`{}`: only some statements equal a rule, yet the whole message is answered from the rule table; the other statement(s) are neither executed nor answered", sql),
                                witness(),
                            );
                        } else {
                            acc.count("intercept_mixed_not_intercepted");
                        }
                    }
                }
            }
        }
        acc
    })
}

pub fn run(thorough: bool, seed: u64) -> Acc {
    let mut acc = Acc::new();
    acc.assume("Identifier semantics are PostgreSQL's: unquoted names fold to lower case; \"quoted\" names are case-sensitive; schema/database qualification does not change which table a listed (unqualified, lower-case) name denotes.");
    acc.assume("Only statements QueryRouter::parse accepts are judged; a CTE is never given a listed name; created objects never get listed names.");
    acc.assume("Intercept: a rule whose text is not in the parser's print form cannot match even byte-identical input; since the docs do not say how rules must be written this is counted (dont_care_rule_not_in_parser_print_form) and not judged. Command tag of intercepted replies is only required to start with SELECT.");
    acc.assume("Intercept + table_access both enabled: messages for which both apply are not generated (verdict precedence is not specified).");
    progress("C19: table_access");
    acc.merge(table_access_part(thorough, seed));
    progress("C19: intercept");
    acc.merge(intercept_part(thorough, seed));
    acc
}
