//! Shared SQL generator.  Statements are ASSEMBLED from an explicit grammar, so the label
//! ("plain read" / "not a plain read"), the shape class and every relation reference (where
//! it sits, how it is spelt) are known by construction — nothing here inspects the SQL text
//! or uses a parser.
//!
//! PostgreSQL validity: templates are restricted to forms PostgreSQL accepts syntactically
//! and whose classification does not depend on catalogue contents:
//!  * locking clauses only on queries without set operations / aggregates / outer joins,
//!    never directly on a set-operation branch (PostgreSQL rejects that);
//!  * data-modifying CTEs only in the top-level WITH;
//!  * SELECT INTO only at top level (first branch of a set operation at most).

use crate::util::*;

#[derive(Clone, Copy, PartialEq, Eq, Debug, Hash)]
pub enum Pos {
    From,
    FromOnly,
    Join,
    Subquery,
    CteBody,
    InsertTarget,
    UpdateTarget,
    UpdateFrom,
    DeleteTarget,
    DeleteUsing,
    Truncate,
    CopyTo,
    CopyFrom,
    MergeTarget,
    MergeUsing,
    DdlQuerySource,
    AlterTable,
    DropTable,
    CreateIndexOn,
    GrantRevokeOn,
    CommentOn,
    AnalyzeTarget,
}

impl Pos {
    pub fn name(self) -> &'static str {
        match self {
            Pos::From => "from",
            Pos::FromOnly => "from_only",
            Pos::Join => "join",
            Pos::Subquery => "subquery",
            Pos::CteBody => "cte_body",
            Pos::InsertTarget => "insert_target",
            Pos::UpdateTarget => "update_target",
            Pos::UpdateFrom => "update_from",
            Pos::DeleteTarget => "delete_target",
            Pos::DeleteUsing => "delete_using",
            Pos::Truncate => "truncate",
            Pos::CopyTo => "copy_to",
            Pos::CopyFrom => "copy_from",
            Pos::MergeTarget => "merge_target",
            Pos::MergeUsing => "merge_using",
            Pos::DdlQuerySource => "ddl_query_source",
            Pos::AlterTable => "alter_table",
            Pos::DropTable => "drop_table",
            Pos::CreateIndexOn => "create_index_on",
            Pos::GrantRevokeOn => "grant_revoke_on",
            Pos::CommentOn => "comment_on",
            Pos::AnalyzeTarget => "analyze_target",
        }
    }
}

/// Supplies identifiers.  C05 uses plain names; C19 uses a labelling implementation that
/// records which relation reference resolves to a listed table.
pub trait Names {
    /// A relation reference (possibly qualified / quoted) for a slot at `pos`.
    fn rel(&mut self, rng: &mut Rng, pos: Pos) -> String;
    /// A column name.
    fn col(&mut self, rng: &mut Rng) -> String;
    /// An alias (table alias or output column alias).
    fn alias(&mut self, rng: &mut Rng) -> String;
    /// Name for an object that the statement creates (never a relation *reference*).
    fn fresh(&mut self, rng: &mut Rng) -> String;
    /// Called before the i-th statement of a message is generated.
    fn begin_statement(&mut self, _idx: usize) {}
}

pub struct PlainNames;

impl Names for PlainNames {
    fn rel(&mut self, rng: &mut Rng, _pos: Pos) -> String {
        (*rng.pick(&["items", "orders", "t1", "t2", "users", "public.items", "accounts", "\"Orders\"", "app.events"])).to_string()
    }
    fn col(&mut self, rng: &mut Rng) -> String {
        (*rng.pick(&["id", "name", "val", "qty", "created_at", "ref_id"])).to_string()
    }
    fn alias(&mut self, rng: &mut Rng) -> String {
        (*rng.pick(&["a", "b", "x", "y", "s1", "s2"])).to_string()
    }
    fn fresh(&mut self, rng: &mut Rng) -> String {
        format!("new_obj_{}", rng.below(50))
    }
}

#[derive(Clone, Debug)]
pub struct Stmt {
    pub sql: String,
    /// true = plain read, false = anything else
    pub read: bool,
    /// the label is debatable (e.g. EXPLAIN of a read): not judged
    pub dont_care: bool,
    /// specific shape class, used in signatures
    pub class: String,
    /// coarse class: read | lock_top | lock_nested | select_into | cte_dml | cte_then_dml |
    /// write | ddl | util | tx
    pub coarse: &'static str,
}

pub struct G<'a> {
    pub rng: &'a mut Rng,
    pub names: &'a mut dyn Names,
    /// production sequence (every grammar choice made)
    pub prod: Vec<u16>,
    feats: Vec<&'static str>,
    cte_n: usize,
}

/// context of a nested query: which position class its relations belong to
#[derive(Clone, Copy)]
enum Ctx {
    Top,
    In(Pos),
}

const LOCK_MODES: [(&str, &str); 4] = [
    ("FOR UPDATE", "for_update"),
    ("FOR SHARE", "for_share"),
    ("FOR NO KEY UPDATE", "for_no_key_update"),
    ("FOR KEY SHARE", "for_key_share"),
];

impl<'a> G<'a> {
    pub fn new(rng: &'a mut Rng, names: &'a mut dyn Names) -> G<'a> {
        G { rng, names, prod: Vec::new(), feats: Vec::new(), cte_n: 0 }
    }

    fn ch(&mut self, tag: u16, n: usize) -> usize {
        let c = self.rng.below(n);
        self.prod.push((tag << 8) | c as u16);
        c
    }
    fn feat(&mut self, f: &'static str) {
        if !self.feats.contains(&f) {
            self.feats.push(f);
        }
    }
    fn rel(&mut self, ctx: Ctx, top_pos: Pos) -> String {
        let pos = match ctx {
            Ctx::Top => top_pos,
            Ctx::In(p) => p,
        };
        self.names.rel(self.rng, pos)
    }
    fn rel_at(&mut self, pos: Pos) -> String {
        self.names.rel(self.rng, pos)
    }
    fn col(&mut self) -> String {
        self.names.col(self.rng)
    }
    fn alias(&mut self) -> String {
        self.names.alias(self.rng)
    }
    fn cte_name(&mut self) -> String {
        self.cte_n += 1;
        format!("cte{}", self.cte_n)
    }
    fn lit(&mut self) -> String {
        match self.ch(1, 4) {
            0 => self.rng.below(1000).to_string(),
            1 => format!("'{}'", *self.rng.pick(&["abc", "x y", "pumpkin", "2024-01-01"])),
            2 => "NULL".to_string(),
            _ => (self.rng.below(10) + 1).to_string(),
        }
    }

    // ------------------------------------------------------------------ plain reads
    /// A plain read query of nesting depth <= d.
    fn read_query(&mut self, d: usize, ctx: Ctx, single: bool) -> String {
        let k = if d == 0 { 0 } else { self.ch(2, 10) };
        match k {
            0..=4 => self.core(d, ctx, single, true, false),
            5 | 6 => {
                self.feat("setop");
                let op = *self.rng.pick(&["UNION", "UNION ALL", "INTERSECT", "EXCEPT", "EXCEPT ALL"]);
                let l = self.setop_branch(d - 1, ctx, single);
                let r = self.setop_branch(d - 1, ctx, single);
                let mut s = format!("{} {} {}", l, op, r);
                if self.ch(3, 3) == 0 {
                    s.push_str(" ORDER BY 1");
                }
                s
            }
            7 | 8 => {
                self.feat("cte");
                let name = self.cte_name();
                let body = self.read_query(d - 1, Ctx::In(Pos::CteBody), false);
                let main = self.core_over(&name, d - 1, ctx, single);
                format!("WITH {} AS ({}) {}", name, body, main)
            }
            _ => {
                if self.ch(4, 2) == 0 {
                    self.feat("paren");
                    format!("({})", self.read_query(d - 1, ctx, single))
                } else {
                    self.feat("values");
                    if single {
                        "VALUES (1), (2)".to_string()
                    } else {
                        "VALUES (1, 'a'), (2, 'b')".to_string()
                    }
                }
            }
        }
    }

    fn setop_branch(&mut self, d: usize, ctx: Ctx, single: bool) -> String {
        if d > 0 && self.ch(5, 3) == 0 {
            format!("({})", self.read_query(d, ctx, single))
        } else {
            self.core(d, ctx, single, false, false)
        }
    }

    /// SELECT over a CTE name (the CTE reference is not a table reference).
    fn core_over(&mut self, cte: &str, d: usize, ctx: Ctx, single: bool) -> String {
        let list = if single { self.col() } else { "*".to_string() };
        match self.ch(6, 4) {
            0 => format!("SELECT {} FROM {}", list, cte),
            1 => {
                let c = self.col();
                let n = self.rng.below(100);
                format!("SELECT {} FROM {} WHERE {} > {}", list, cte, c, n)
            }
            2 => {
                self.feat("join");
                let r = self.rel(ctx, Pos::Join);
                let c = self.col();
                format!("SELECT {} FROM {} INNER JOIN {} AS jx ON {}.{} = jx.{}", if single { format!("{}.{}", cte, c) } else { "*".into() }, cte, r, cte, c, c)
            }
            _ => {
                if d > 0 {
                    let c = self.col();
                    let sub = self.read_query(d - 1, Ctx::In(Pos::Subquery), true);
                    self.feat("subq_where");
                    format!("SELECT {} FROM {} WHERE {} IN ({})", list, cte, c, sub)
                } else {
                    format!("SELECT {} FROM {}", list, cte)
                }
            }
        }
    }

    /// One SELECT block.  `tail` = ORDER BY/LIMIT allowed; `lockable` = restrict to forms
    /// PostgreSQL allows a locking clause on (real tables, inner joins, no aggregates).
    fn core(&mut self, d: usize, ctx: Ctx, single: bool, tail: bool, lockable: bool) -> String {
        // FROM
        let (from, qual): (String, Option<String>) = {
            let n = if lockable { 4 } else if d > 0 { 10 } else { 8 };
            match self.ch(7, n) {
                0 | 1 => (self.rel(ctx, Pos::From), None),
                2 => {
                    let r = self.rel(ctx, Pos::From);
                    let a = self.alias();
                    (format!("{} AS {}", r, a), Some(a))
                }
                3 => {
                    self.feat("join");
                    let r1 = self.rel(ctx, Pos::From);
                    let r2 = self.rel(ctx, Pos::Join);
                    let c = self.col();
                    let kind = if lockable { "INNER JOIN" } else { *self.rng.pick(&["INNER JOIN", "JOIN", "LEFT JOIN", "RIGHT JOIN", "FULL JOIN"]) };
                    (format!("{} AS j1 {} {} AS j2 ON j1.{} = j2.{}", r1, kind, r2, c, c), Some("j1".to_string()))
                }
                4 => {
                    self.feat("join");
                    let r1 = self.rel(ctx, Pos::From);
                    let r2 = self.rel(ctx, Pos::Join);
                    (format!("{}, {}", r1, r2), None)
                }
                5 => {
                    self.feat("join");
                    let r1 = self.rel(ctx, Pos::From);
                    let r2 = self.rel(ctx, Pos::Join);
                    let c = self.col();
                    (format!("{} LEFT JOIN {} USING ({})", r1, r2, c), None)
                }
                6 => {
                    self.feat("only");
                    // `ONLY t` is its own position class wherever the query sits
                    (format!("ONLY {}", self.rel_at(Pos::FromOnly)), None)
                }
                7 => {
                    self.feat("nofrom");
                    (String::new(), None)
                }
                8 => {
                    self.feat("subq_from");
                    let sub = self.read_query(d - 1, Ctx::In(Pos::Subquery), false);
                    let a = self.alias();
                    (format!("({}) AS {}", sub, a), Some(a))
                }
                _ => {
                    self.feat("subq_from");
                    self.feat("join");
                    let r = self.rel(ctx, Pos::From);
                    let sub = self.read_query(d - 1, Ctx::In(Pos::Subquery), false);
                    let c = self.col();
                    (format!("{} AS j1 CROSS JOIN ({}) AS j2 WHERE j1.{} IS NOT NULL", r, sub, c), Some("#nowhere".to_string()))
                }
            }
        };
        let no_where = qual.as_deref() == Some("#nowhere");
        let qual = if no_where { None } else { qual };
        let has_from = !from.is_empty();
        // select list
        let list = if !has_from {
            if single { "1".to_string() } else { (*self.rng.pick(&["1", "1, 2", "now()", "1 AS one", "current_date, 'x'"])).to_string() }
        } else if single {
            let c = self.col();
            match &qual {
                Some(q) => format!("{}.{}", q, c),
                None => c,
            }
        } else {
            let n = if lockable { 3 } else if d > 0 { 7 } else { 6 };
            match self.ch(8, n) {
                0 => "*".to_string(),
                1 => self.col(),
                2 => format!("{}, {}", self.col(), self.col()),
                3 => "count(*)".to_string(),
                4 => {
                    let c = self.col();
                    let a = self.alias();
                    format!("{} AS {}", c, a)
                }
                5 => format!("DISTINCT {}", self.col()),
                _ => {
                    self.feat("subq_list");
                    let sub = self.scalar_subquery(d - 1);
                    let a = self.alias();
                    format!("{}, ({}) AS {}", self.col(), sub, a)
                }
            }
        };
        let mut s = format!("SELECT {}", list);
        if has_from {
            s.push_str(" FROM ");
            s.push_str(&from);
        }
        // WHERE
        if has_from && !no_where {
            let n = if d > 0 { 9 } else { 6 };
            let c = self.col();
            let c = match &qual {
                Some(q) => format!("{}.{}", q, c),
                None => c,
            };
            match self.ch(9, n) {
                0 | 1 => {}
                2 => s.push_str(&format!(" WHERE {} = {}", c, self.rng.below(1000))),
                3 => s.push_str(&format!(" WHERE {} > {} AND {} <> 'x'", c, self.rng.below(100), self.col())),
                4 => s.push_str(&format!(" WHERE {} IN (1, 2, 3)", c)),
                5 => s.push_str(&format!(" WHERE {} IS NOT NULL OR {} LIKE 'a%'", c, self.col())),
                6 => {
                    self.feat("subq_where");
                    let sub = self.read_query(d - 1, Ctx::In(Pos::Subquery), true);
                    s.push_str(&format!(" WHERE {} IN ({})", c, sub));
                }
                7 => {
                    self.feat("subq_where");
                    let sub = self.read_query(d - 1, Ctx::In(Pos::Subquery), false);
                    s.push_str(&format!(" WHERE {}EXISTS ({})", if self.rng.chance(1, 3) { "NOT " } else { "" }, sub));
                }
                _ => {
                    self.feat("subq_where");
                    let sub = self.scalar_subquery(d - 1);
                    s.push_str(&format!(" WHERE {} = ({})", c, sub));
                }
            }
        }
        if tail && has_from && !list.starts_with("count") {
            match self.ch(10, 5) {
                0 => s.push_str(" ORDER BY 1"),
                1 => s.push_str(&format!(" LIMIT {}", self.rng.below(50) + 1)),
                2 => s.push_str(&format!(" ORDER BY 1 DESC LIMIT {} OFFSET 2", self.rng.below(50) + 1)),
                _ => {}
            }
        }
        s
    }

    fn scalar_subquery(&mut self, d: usize) -> String {
        let r = self.names.rel(self.rng, Pos::Subquery);
        let c = self.col();
        let _ = d;
        match self.ch(11, 3) {
            0 => format!("SELECT max({}) FROM {}", c, r),
            1 => format!("SELECT {} FROM {} LIMIT 1", c, r),
            _ => format!("SELECT count(*) FROM {} WHERE {} > 0", r, c),
        }
    }

    // ------------------------------------------------------------------ not plain reads
    fn lock_clause(&mut self) -> (String, &'static str) {
        // sqlparser 0.52 only knows UPDATE and SHARE; the other two are generated anyway
        // (they are counted as parser-rejected).
        let i = match self.ch(12, 10) {
            0..=3 => 0,
            4..=7 => 1,
            8 => 2,
            _ => 3,
        };
        let (txt, name) = LOCK_MODES[i];
        let mut s = txt.to_string();
        match self.ch(13, 4) {
            0 => s.push_str(" NOWAIT"),
            1 => s.push_str(" SKIP LOCKED"),
            _ => {}
        }
        (s, name)
    }

    /// A query whose own (outermost) level carries a locking clause.
    fn lock_core(&mut self, d: usize, ctx: Ctx, single: bool) -> (String, &'static str) {
        let core = self.core(d, ctx, single, false, true);
        let (lc, mode) = self.lock_clause();
        let lim = if single { " LIMIT 1" } else { "" };
        (format!("{}{} {}", core, lim, lc), mode)
    }

    fn read_wrap(&mut self, inner: String, levels: usize) -> String {
        let mut s = inner;
        for _ in 0..levels {
            s = match self.ch(14, 4) {
                0 => {
                    let a = self.alias();
                    format!("SELECT * FROM ({}) AS {}", s, a)
                }
                1 => {
                    let n = self.cte_name();
                    format!("WITH {} AS ({}) SELECT * FROM {}", n, s, n)
                }
                2 => {
                    let a = self.alias();
                    let r = self.rel_at(Pos::From);
                    format!("SELECT * FROM {} AS w1 CROSS JOIN ({}) AS {}", r, s, a)
                }
                _ => {
                    let r = self.rel_at(Pos::From);
                    format!("SELECT * FROM {} WHERE EXISTS ({})", r, s)
                }
            };
        }
        s
    }

    fn stmt_lock(&mut self) -> Stmt {
        let site = self.ch(15, 8);
        if site <= 1 {
            // locking clause on the top-level query
            let with_cte = site == 1;
            let (q, mode) = self.lock_core(1, Ctx::Top, false);
            let sql = if with_cte {
                let n = self.cte_name();
                let body = self.read_query(0, Ctx::In(Pos::CteBody), false);
                format!("WITH {} AS ({}) {}", n, body, q)
            } else {
                q
            };
            return Stmt { sql, read: false, dont_care: false, class: format!("select_lock_top_{}", mode), coarse: "lock_top" };
        }
        let (sql, site_name, mode): (String, &str, &str) = match site {
            2 => {
                let (q, mode) = self.lock_core(0, Ctx::In(Pos::Subquery), false);
                let a = self.alias();
                (format!("SELECT * FROM ({}) AS {}", q, a), "from", mode)
            }
            3 => {
                let (q, mode) = self.lock_core(0, Ctx::In(Pos::Subquery), true);
                let q = q.replace(" LIMIT 1", "");
                let r = self.rel_at(Pos::From);
                let c = self.col();
                (format!("SELECT * FROM {} WHERE {} IN ({})", r, c, q), "where_in", mode)
            }
            4 => {
                let (q, mode) = self.lock_core(0, Ctx::In(Pos::Subquery), false);
                let r = self.rel_at(Pos::From);
                (format!("SELECT * FROM {} WHERE EXISTS ({})", r, q), "exists", mode)
            }
            5 => {
                let (q, mode) = self.lock_core(0, Ctx::In(Pos::Subquery), true);
                let a = self.alias();
                (format!("SELECT ({}) AS {}", q, a), "scalar", mode)
            }
            6 => {
                let (q, mode) = self.lock_core(0, Ctx::In(Pos::CteBody), false);
                let n = self.cte_name();
                (format!("WITH {} AS ({}) SELECT * FROM {}", n, q, n), "cte", mode)
            }
            _ => {
                let (q, mode) = self.lock_core(0, Ctx::Top, false);
                (format!("({})", q), "paren", mode)
            }
        };
        let levels = self.ch(16, 3); // 0..2 further read-only wrappers => depth <= 3
        let sql = self.read_wrap(sql, levels);
        Stmt { sql, read: false, dont_care: false, class: format!("select_lock_nested_{}_{}", site_name, mode), coarse: "lock_nested" }
    }

    fn stmt_select_into(&mut self) -> Stmt {
        let kw = *self.rng.pick(&["", "", "TEMP ", "TEMPORARY ", "TABLE ", "UNLOGGED "]);
        let name = self.names.fresh(self.rng);
        let r = self.rel_at(Pos::From);
        let list = match self.ch(17, 3) {
            0 => "*".to_string(),
            1 => self.col(),
            _ => format!("{}, {}", self.col(), self.col()),
        };
        let mut sql = format!("SELECT {} INTO {}{} FROM {}", list, kw, name, r);
        let mut class = "select_into".to_string();
        match self.ch(18, 4) {
            0 => sql.push_str(&format!(" WHERE {} > {}", self.col(), self.rng.below(100))),
            1 => {
                let r2 = self.rel_at(Pos::From);
                sql.push_str(&format!(" UNION ALL SELECT {} FROM {}", list, r2));
                class = "select_into_setop".to_string();
            }
            _ => {}
        }
        Stmt { sql, read: false, dont_care: false, class, coarse: "select_into" }
    }

    fn values_row(&mut self, n: usize) -> String {
        let mut v = Vec::new();
        for _ in 0..n {
            v.push(self.lit());
        }
        format!("({})", v.join(", "))
    }

    fn returning(&mut self) -> String {
        match self.ch(19, 3) {
            0 => " RETURNING *".to_string(),
            1 => format!(" RETURNING {}", self.col()),
            _ => String::new(),
        }
    }

    fn dml_insert(&mut self, force_returning: bool) -> (String, &'static str) {
        let t = self.rel_at(Pos::InsertTarget);
        let (mut s, kind) = match self.ch(20, 5) {
            0 | 1 => {
                let c1 = self.col();
                let c2 = self.col();
                let mut rows = vec![self.values_row(2)];
                if self.rng.chance(1, 3) {
                    rows.push(self.values_row(2));
                }
                (format!("INSERT INTO {} ({}, {}) VALUES {}", t, c1, c2, rows.join(", ")), "insert_values")
            }
            2 => {
                let q = self.read_query(1, Ctx::In(Pos::Subquery), false);
                (format!("INSERT INTO {} {}", t, q), "insert_select")
            }
            3 => (format!("INSERT INTO {} DEFAULT VALUES", t), "insert_default"),
            _ => {
                let c1 = self.col();
                let row = self.values_row(1);
                let oc = match self.ch(21, 2) {
                    0 => "ON CONFLICT DO NOTHING".to_string(),
                    _ => format!("ON CONFLICT ({}) DO UPDATE SET {} = EXCLUDED.{}", c1, c1, c1),
                };
                (format!("INSERT INTO {} ({}) VALUES {} {}", t, c1, row, oc), "insert_on_conflict")
            }
        };
        if force_returning {
            s.push_str(" RETURNING *");
        } else {
            s.push_str(&self.returning());
        }
        (s, kind)
    }

    fn dml_update(&mut self, force_returning: bool) -> (String, &'static str) {
        let t = self.rel_at(Pos::UpdateTarget);
        let c1 = self.col();
        let v = self.lit();
        let (mut s, kind) = match self.ch(22, 4) {
            0 => (format!("UPDATE {} SET {} = {}", t, c1, v), "update_all"),
            1 => (format!("UPDATE {} SET {} = {} WHERE {} = {}", t, c1, v, self.col(), self.rng.below(1000)), "update_where"),
            2 => {
                let f = self.rel_at(Pos::UpdateFrom);
                let c = self.col();
                (format!("UPDATE {} AS u1 SET {} = {} FROM {} AS u2 WHERE u1.{} = u2.{}", t, c1, v, f, c, c), "update_from")
            }
            _ => {
                let sub = self.read_query(1, Ctx::In(Pos::Subquery), true);
                (format!("UPDATE {} SET {} = {} WHERE {} IN ({})", t, c1, v, self.col(), sub), "update_subquery")
            }
        };
        if force_returning {
            s.push_str(" RETURNING *");
        } else {
            s.push_str(&self.returning());
        }
        (s, kind)
    }

    fn dml_delete(&mut self, force_returning: bool) -> (String, &'static str) {
        let t = self.rel_at(Pos::DeleteTarget);
        let (mut s, kind) = match self.ch(23, 4) {
            0 => (format!("DELETE FROM {}", t), "delete_all"),
            1 => (format!("DELETE FROM {} WHERE {} = {}", t, self.col(), self.rng.below(1000)), "delete_where"),
            2 => {
                let u = self.rel_at(Pos::DeleteUsing);
                let c = self.col();
                (format!("DELETE FROM {} AS d1 USING {} AS d2 WHERE d1.{} = d2.{}", t, u, c, c), "delete_using")
            }
            _ => {
                let sub = self.read_query(1, Ctx::In(Pos::Subquery), true);
                (format!("DELETE FROM {} WHERE {} IN ({})", t, self.col(), sub), "delete_subquery")
            }
        };
        if force_returning {
            s.push_str(" RETURNING *");
        } else {
            s.push_str(&self.returning());
        }
        (s, kind)
    }

    fn stmt_write(&mut self) -> Stmt {
        let (sql, class) = match self.ch(24, 7) {
            0 | 1 => self.dml_insert(false),
            2 | 3 => self.dml_update(false),
            4 | 5 => self.dml_delete(false),
            _ => {
                let t = self.rel_at(Pos::MergeTarget);
                let u = self.rel_at(Pos::MergeUsing);
                let c = self.col();
                let c2 = self.col();
                let when = match self.ch(25, 3) {
                    0 => format!("WHEN MATCHED THEN UPDATE SET {} = m2.{}", c2, c2),
                    1 => "WHEN MATCHED THEN DELETE".to_string(),
                    _ => format!("WHEN NOT MATCHED THEN INSERT ({}) VALUES (m2.{})", c, c),
                };
                (format!("MERGE INTO {} AS m1 USING {} AS m2 ON m1.{} = m2.{} {}", t, u, c, c, when), "merge")
            }
        };
        Stmt { sql, read: false, dont_care: false, class: class.to_string(), coarse: "write" }
    }

    /// WITH <read-only cte> INSERT/UPDATE/DELETE
    fn stmt_cte_then_dml(&mut self) -> Stmt {
        let n = self.cte_name();
        let body = self.read_query(1, Ctx::In(Pos::CteBody), false);
        let (sql, class) = match self.ch(26, 3) {
            0 => {
                let t = self.rel_at(Pos::InsertTarget);
                (format!("WITH {} AS ({}) INSERT INTO {} SELECT * FROM {}", n, body, t, n), "cte_ro_then_insert")
            }
            1 => {
                let t = self.rel_at(Pos::UpdateTarget);
                let c = self.col();
                (format!("WITH {} AS ({}) UPDATE {} SET {} = 1 WHERE {} IN (SELECT {} FROM {})", n, body, t, c, c, c, n), "cte_ro_then_update")
            }
            _ => {
                let t = self.rel_at(Pos::DeleteTarget);
                let c = self.col();
                (format!("WITH {} AS ({}) DELETE FROM {} WHERE {} IN (SELECT {} FROM {})", n, body, t, c, c, n), "cte_ro_then_delete")
            }
        };
        Stmt { sql, read: false, dont_care: false, class: class.to_string(), coarse: "cte_then_dml" }
    }

    /// top-level WITH whose body is INSERT/UPDATE/DELETE ... RETURNING, main query a SELECT
    fn stmt_cte_dml(&mut self) -> Stmt {
        let n = self.cte_name();
        let (dml, kind) = match self.ch(27, 3) {
            0 => (self.dml_insert(true).0, "insert"),
            1 => (self.dml_update(true).0, "update"),
            _ => (self.dml_delete(true).0, "delete"),
        };
        let sql = match self.ch(28, 5) {
            0 | 1 => format!("WITH {} AS ({}) SELECT * FROM {}", n, dml, n),
            2 => format!("WITH {} AS ({}) SELECT count(*) FROM {}", n, dml, n),
            3 => {
                // a read-only CTE first, the data-modifying one second, main query reads only the first
                let n0 = self.cte_name();
                let body = self.read_query(0, Ctx::In(Pos::CteBody), false);
                format!("WITH {} AS ({}), {} AS ({}) SELECT * FROM {}", n0, body, n, dml, n0)
            }
            _ => {
                // main query does not read the data-modifying CTE at all (it still runs)
                let main = self.core(1, Ctx::Top, false, true, false);
                format!("WITH {} AS ({}) {}", n, dml, main)
            }
        };
        Stmt { sql, read: false, dont_care: false, class: format!("cte_{}_returning_select", kind), coarse: "cte_dml" }
    }

    fn stmt_ddl(&mut self) -> Stmt {
        let fresh = self.names.fresh(self.rng);
        let (sql, class): (String, &str) = match self.ch(29, 18) {
            0 => (format!("CREATE TABLE {} (id BIGINT PRIMARY KEY, {} TEXT)", fresh, self.col()), "ddl_create_table"),
            1 => (format!("CREATE TABLE IF NOT EXISTS {} (id INT)", fresh), "ddl_create_table"),
            2 => (format!("CREATE TEMP TABLE {} (id INT)", fresh), "ddl_create_temp_table"),
            3 => {
                let q = self.read_query(1, Ctx::In(Pos::DdlQuerySource), false);
                (format!("CREATE TABLE {} AS {}", fresh, q), "ddl_create_table_as")
            }
            4 => (format!("ALTER TABLE {} ADD COLUMN {} INT", self.rel_at(Pos::AlterTable), fresh), "ddl_alter_table"),
            5 => (format!("ALTER TABLE {} DROP COLUMN {}", self.rel_at(Pos::AlterTable), self.col()), "ddl_alter_table"),
            6 => (format!("ALTER TABLE {} RENAME TO {}", self.rel_at(Pos::AlterTable), fresh), "ddl_alter_table"),
            7 => (format!("DROP TABLE {}{}", if self.rng.chance(1, 2) { "IF EXISTS " } else { "" }, self.rel_at(Pos::DropTable)), "ddl_drop_table"),
            8 => (format!("TRUNCATE {}{}", if self.rng.chance(1, 2) { "TABLE " } else { "" }, self.rel_at(Pos::Truncate)), "ddl_truncate"),
            9 => (format!("TRUNCATE {}, {}", self.rel_at(Pos::Truncate), self.rel_at(Pos::Truncate)), "ddl_truncate"),
            10 => (format!("CREATE INDEX {} ON {} ({})", fresh, self.rel_at(Pos::CreateIndexOn), self.col()), "ddl_create_index"),
            11 => (format!("DROP INDEX {}", fresh), "ddl_drop_index"),
            12 => {
                let q = self.read_query(1, Ctx::In(Pos::DdlQuerySource), false);
                (format!("CREATE {}VIEW {} AS {}", if self.rng.chance(1, 3) { "MATERIALIZED " } else { "" }, fresh, q), "ddl_create_view")
            }
            13 => (format!("DROP VIEW {}", fresh), "ddl_drop_view"),
            14 => (format!("CREATE SCHEMA {}", fresh), "ddl_create_schema"),
            15 => (format!("CREATE SEQUENCE {}", fresh), "ddl_create_sequence"),
            16 => (format!("CREATE TYPE {} AS ENUM ('a', 'b')", fresh), "ddl_create_type"),
            _ => (format!("CREATE FUNCTION {}() RETURNS INT LANGUAGE sql AS 'select 1'", fresh), "ddl_create_function"),
        };
        Stmt { sql, read: false, dont_care: false, class: class.to_string(), coarse: "ddl" }
    }

    fn stmt_util(&mut self) -> Stmt {
        let fresh = self.names.fresh(self.rng);
        let mut dont_care = false;
        let (sql, class): (String, &str) = match self.ch(30, 24) {
            0 => (format!("GRANT SELECT ON {} TO {}", self.rel_at(Pos::GrantRevokeOn), fresh), "util_grant"),
            1 => (format!("REVOKE ALL ON {} FROM {}", self.rel_at(Pos::GrantRevokeOn), fresh), "util_revoke"),
            2 => (format!("COPY {} TO STDOUT", self.rel_at(Pos::CopyTo)), "util_copy_to"),
            3 => (format!("COPY {} ({}, {}) TO STDOUT", self.rel_at(Pos::CopyTo), self.col(), self.col()), "util_copy_to"),
            4 => (format!("COPY {} FROM STDIN", self.rel_at(Pos::CopyFrom)), "util_copy_from"),
            5 => (format!("COPY {} FROM STDIN;", self.rel_at(Pos::CopyFrom)), "util_copy_from"),
            6 => {
                let q = self.read_query(1, Ctx::In(Pos::Subquery), false);
                (format!("COPY ({}) TO STDOUT", q), "util_copy_query_to")
            }
            7 => (format!("COMMENT ON TABLE {} IS 'x'", self.rel_at(Pos::CommentOn)), "util_comment_on"),
            8 => (format!("CALL {}()", fresh), "util_call"),
            9 => (format!("SET {} TO 1", fresh), "util_set"),
            10 => (format!("SET LOCAL {} = 'v'", fresh), "util_set_local"),
            11 => (format!("SHOW {}", fresh), "util_show"),
            12 => ("DISCARD ALL".to_string(), "util_discard"),
            13 => (format!("LISTEN {}", fresh), "util_listen"),
            14 => (format!("NOTIFY {}", fresh), "util_notify"),
            15 => {
                let q = self.read_query(0, Ctx::Top, false);
                (format!("PREPARE {} AS {}", fresh, q), "util_prepare")
            }
            16 => (format!("EXECUTE {}", fresh), "util_execute"),
            17 => (format!("DEALLOCATE {}", fresh), "util_deallocate"),
            18 => {
                let q = self.read_query(0, Ctx::Top, false);
                (format!("DECLARE {} CURSOR FOR {}", fresh, q), "util_declare_cursor")
            }
            19 => ((*self.rng.pick(&["COMMIT", "ROLLBACK", "END", "ABORT"])).to_string(), "util_tx_end"),
            20 => (format!("SAVEPOINT {}", fresh), "util_savepoint"),
            21 => {
                // EXPLAIN of a read: a utility statement by syntax, a read by effect => not judged
                dont_care = true;
                let q = self.read_query(1, Ctx::Top, false);
                (format!("EXPLAIN {}", q), "util_explain_read")
            }
            22 => {
                let (q, _) = self.dml_insert(false);
                (format!("EXPLAIN ANALYZE {}", q), "util_explain_analyze_write")
            }
            _ => (format!("ANALYZE {}", self.rel_at(Pos::AnalyzeTarget)), "util_analyze"),
        };
        Stmt { sql, read: false, dont_care, class: class.to_string(), coarse: "util" }
    }

    fn stmt_tx(&mut self) -> Stmt {
        let head = *self.rng.pick(&["BEGIN", "BEGIN", "BEGIN TRANSACTION", "BEGIN WORK", "START TRANSACTION", "begin", "start transaction"]);
        let mode = match self.ch(31, 8) {
            0 => " ISOLATION LEVEL SERIALIZABLE",
            1 => " ISOLATION LEVEL REPEATABLE READ",
            2 => " READ ONLY",
            3 => " READ WRITE",
            4 => " ISOLATION LEVEL READ COMMITTED, READ ONLY",
            5 => " ISOLATION LEVEL SERIALIZABLE, READ ONLY, DEFERRABLE",
            _ => "",
        };
        let class = if head.to_ascii_uppercase().starts_with("BEGIN") { "tx_begin" } else { "tx_start_transaction" };
        Stmt { sql: format!("{}{}", head, mode), read: false, dont_care: false, class: class.to_string(), coarse: "tx" }
    }

    fn stmt_read(&mut self) -> Stmt {
        self.feats.clear();
        let d = self.ch(32, 4); // depth 0..3
        let sql = self.read_query(d, Ctx::Top, false);
        let top = if sql.starts_with("WITH") {
            "cte"
        } else if sql.starts_with('(') {
            "paren"
        } else if sql.starts_with("VALUES") {
            "values"
        } else {
            "select"
        };
        let mut f = self.feats.clone();
        f.sort();
        let class = if f.is_empty() { format!("read_{}", top) } else { format!("read_{}[{}]", top, f.join("+")) };
        Stmt { sql, read: true, dont_care: false, class, coarse: "read" }
    }

    /// One statement; `want_read`: Some(true) = a plain read, Some(false) = anything else,
    /// None = either.
    pub fn statement(&mut self, want_read: Option<bool>) -> Stmt {
        let read = match want_read {
            Some(b) => b,
            None => self.ch(33, 5) < 2,
        };
        if read {
            return self.stmt_read();
        }
        match self.ch(34, 20) {
            0..=3 => self.stmt_lock(),
            4 | 5 => self.stmt_select_into(),
            6..=8 => self.stmt_cte_dml(),
            9 | 10 => self.stmt_cte_then_dml(),
            11..=13 => self.stmt_write(),
            14 | 15 => self.stmt_ddl(),
            16 | 17 => self.stmt_util(),
            _ => self.stmt_tx(),
        }
    }
}

#[derive(Clone, Debug)]
pub struct Message {
    pub sql: String,
    pub stmts: Vec<Stmt>,
    /// hash of the production sequence
    pub prod_hash: u64,
}

impl Message {
    /// all statements are plain reads
    pub fn is_plain_read(&self) -> bool {
        self.stmts.iter().all(|s| s.read)
    }
    pub fn dont_care(&self) -> bool {
        self.stmts.iter().any(|s| s.dont_care)
    }
    /// Shape class used in signatures.  Single statement: its class.  Multi-statement:
    /// the class of the LAST non-read statement plus whether plain reads follow it (that is
    /// what decides which statement had the last word on the role).
    pub fn shape(&self) -> String {
        if self.stmts.len() == 1 {
            return self.stmts[0].class.clone();
        }
        match self.stmts.iter().rposition(|s| !s.read) {
            None => "multi[all_reads]".to_string(),
            Some(i) => {
                let trailing = self.stmts.len() - 1 - i;
                format!(
                    "multi[last_nonread={},reads_after={}]",
                    self.stmts[i].coarse,
                    if trailing == 0 { "0" } else { "1+" }
                )
            }
        }
    }
}

/// A message of 1–4 statements.
pub fn message(rng: &mut Rng, names: &mut dyn Names) -> Message {
    let n = match rng.below(10) {
        0..=4 => 1,
        5 | 6 => 2,
        7 | 8 => 3,
        _ => 4,
    };
    let mut g = G::new(rng, names);
    let mut stmts = Vec::new();
    for i in 0..n {
        g.names.begin_statement(i);
        let s = g.statement(None);
        stmts.push(s);
    }
    let mut sql = stmts.iter().map(|s| s.sql.trim_end_matches(';').to_string()).collect::<Vec<_>>().join("; ");
    if n == 1 {
        sql = stmts[0].sql.clone();
    }
    if g.rng.chance(1, 4) && !sql.ends_with(';') {
        sql.push(';');
    }
    let prod_hash = hash64(&g.prod);
    Message { sql, stmts, prod_hash }
}
