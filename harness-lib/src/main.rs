//! pgv-lib — library-level monitors for pgcat properties C05, C06, C13, C19.
//!
//! usage: pgv-lib <C05|C06|C13|C19> <quick|thorough> <seed:u64>
//!
//! Progress goes to stderr; exactly one JSON object is printed on stdout.  The exit code is
//! 0 unless the tool itself is broken (bad usage, internal error).

mod c05;
mod c06;
mod c13;
mod c19;
mod gen;
mod util;

use pgcat::query_router::QueryRouter;

fn usage() -> ! {
    eprintln!("usage: pgv-lib <C05|C06|C13|C19> <quick|thorough> <seed:u64>   (PGV_THREADS=n overrides the thread count)");
    std::process::exit(2);
}

fn main() {
    let args: Vec<String> = std::env::args().collect();
    // debugging aid: `pgv-lib parse "<sql>"` shows what pgcat's parser makes of a string
    if args.len() == 3 && args[1] == "parse" {
        QueryRouter::setup();
        let qr = QueryRouter::new();
        match qr.parse(&pgcat::messages::simple_query(&args[2])) {
            Ok(ast) => {
                println!("accepted: {} statement(s)", ast.len());
                for s in ast {
                    println!("  {}", s);
                }
            }
            Err(e) => println!("rejected: {:?}", e),
        }
        return;
    }
    // `pgv-lib ref-shard <pg|sha1> <n> <k>...` prints the REFERENCE shard of each key (one per line)
    if args.len() >= 5 && args[1] == "ref-shard" {
        let f = if args[2] == "sha1" {
            pgcat::sharding::ShardingFunction::Sha1
        } else {
            pgcat::sharding::ShardingFunction::PgBigintHash
        };
        let n: usize = args[3].parse().expect("n");
        for k in &args[4..] {
            println!("{}", c06::ref_shard_pub(f, k.parse().expect("key"), n));
        }
        return;
    }
    if args.len() != 4 {
        usage();
    }
    let prop = args[1].to_ascii_uppercase();
    let thorough = match args[2].as_str() {
        "quick" => false,
        "thorough" => true,
        _ => usage(),
    };
    let seed: u64 = match args[3].parse() {
        Ok(s) => s,
        Err(_) => usage(),
    };

    // pgcat panics are caught and reported as outcome=panic; keep stderr clean.
    std::panic::set_hook(Box::new(|_| {}));

    if !QueryRouter::setup() {
        eprintln!("pgv-lib: QueryRouter::setup() failed");
        std::process::exit(3);
    }

    let t0 = std::time::Instant::now();
    util::progress(&format!("{} {} seed={} threads={}", prop, args[2], seed, util::n_threads()));
    let (mut acc, extra) = match prop.as_str() {
        "C05" => (c05::run(thorough, seed), 0),
        "C06" => {
            let a = c06::run(thorough, seed);
            let e = c06::extra_distinct(&a);
            (a, e)
        }
        "C13" => (c13::run(thorough, seed), 0),
        "C19" => (c19::run(thorough, seed), 0),
        _ => usage(),
    };
    acc.set("elapsed_ms", t0.elapsed().as_millis() as u64);
    acc.set("threads", util::n_threads() as u64);
    util::progress(&format!("{} done in {:.1}s, {} evaluations, {} violation signatures", prop, t0.elapsed().as_secs_f64(), acc.evaluations, acc.violations.len()));
    let out = acc.to_json(extra);
    println!("{}", serde_json::to_string(&out).expect("json"));
}
