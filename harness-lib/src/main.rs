use pgcat::query_router::QueryRouter;
use pgcat::messages::simple_query;
fn main() {
    QueryRouter::setup();
    let qr = QueryRouter::new();
    let qs = [
        "VACUUM t", "COPY t TO STDOUT", "COPY t FROM STDIN", "COPY (SELECT 1) TO STDOUT", "LOCK TABLE t", "LOCK TABLE t IN ACCESS EXCLUSIVE MODE", "GRANT SELECT ON t TO u",
        "REVOKE SELECT ON t FROM u", "TRUNCATE t", "TRUNCATE TABLE t", "CREATE TABLE t (id int)", "CREATE TABLE t AS SELECT 1", "ALTER TABLE t ADD COLUMN x int", "DROP TABLE t",
        "CREATE INDEX i ON t (id)", "DROP INDEX i", "CREATE VIEW v AS SELECT 1", "MERGE INTO t USING s ON t.id = s.id WHEN MATCHED THEN UPDATE SET x = 1",
        "MERGE INTO t USING s ON t.id = s.id WHEN NOT MATCHED THEN INSERT (id) VALUES (s.id)",
        "WITH x AS (SELECT 1) DELETE FROM t", "WITH x AS (SELECT 1) INSERT INTO t SELECT * FROM x", "WITH x AS (SELECT 1) UPDATE t SET a = 1",
        "WITH t AS (INSERT INTO a VALUES (1) RETURNING *) SELECT * FROM t", "WITH t AS (UPDATE a SET x = 1 RETURNING *) SELECT * FROM t", "WITH t AS (DELETE FROM a RETURNING *) SELECT * FROM t",
        "SELECT * INTO newt FROM t", "SELECT * FROM t FOR UPDATE", "SELECT * FROM t FOR NO KEY UPDATE", "SELECT * FROM t FOR SHARE", "SELECT * FROM t FOR KEY SHARE",
        "SELECT * FROM t FOR UPDATE OF t NOWAIT", "SELECT * FROM t FOR UPDATE SKIP LOCKED",
        "SELECT * FROM (SELECT * FROM t FOR UPDATE) s", "WITH c AS (SELECT * FROM t FOR SHARE) SELECT * FROM c", "SELECT * FROM a WHERE id IN (SELECT id FROM t FOR UPDATE)",
        "SELECT (SELECT id FROM t LIMIT 1 FOR UPDATE)", "(SELECT * FROM t FOR UPDATE)", "(SELECT 1) UNION (SELECT 2)", "SELECT 1 UNION SELECT 2 INTERSECT SELECT 3 EXCEPT SELECT 4",
        "BEGIN", "BEGIN TRANSACTION", "BEGIN WORK", "START TRANSACTION", "BEGIN ISOLATION LEVEL SERIALIZABLE", "START TRANSACTION READ ONLY", "BEGIN READ WRITE", "BEGIN TRANSACTION ISOLATION LEVEL REPEATABLE READ, READ ONLY",
        "START TRANSACTION ISOLATION LEVEL READ COMMITTED", "BEGIN DEFERRABLE", "COMMIT", "ROLLBACK", "END", "SAVEPOINT a", "SET LOCAL x = 1", "SET x TO 1", "SHOW x", "EXPLAIN SELECT 1", "EXPLAIN ANALYZE INSERT INTO t VALUES (1)", "ANALYZE t",
        "DELETE FROM t USING u WHERE t.id = u.id", "UPDATE t SET a = 1 FROM u WHERE t.id = u.id", "INSERT INTO t SELECT * FROM u", "INSERT INTO t (id) VALUES (1) ON CONFLICT DO NOTHING", "INSERT INTO t DEFAULT VALUES",
        "SELECT * FROM \"T\"", "SELECT * FROM a.b.c", "SELECT * FROM \"a\".\"b\"", "TABLE t", "VALUES (1)", "SELECT 1;;SELECT 2", "", ";", "CALL p()", "DO $$ BEGIN END $$", "LISTEN x", "NOTIFY x", "PREPARE p AS SELECT 1", "EXECUTE p", "DEALLOCATE p",
        "DISCARD ALL", "REFRESH MATERIALIZED VIEW v", "CREATE SCHEMA s", "DROP SCHEMA s", "CREATE SEQUENCE s", "ALTER TABLE t RENAME TO u", "COMMENT ON TABLE t IS 'x'", "CLUSTER t", "REINDEX TABLE t", "CHECKPOINT",
        "SELECT nextval('s')", "DECLARE c CURSOR FOR SELECT 1", "FETCH NEXT FROM c", "CLOSE c", "CREATE FUNCTION f() RETURNS int LANGUAGE sql AS 'select 1'", "CREATE EXTENSION x", "CREATE ROLE r", "DROP ROLE r", "ALTER ROLE r WITH LOGIN",
        "CREATE TEMP TABLE t (id int)", "CREATE UNLOGGED TABLE t (id int)", "DROP VIEW v", "CREATE MATERIALIZED VIEW v AS SELECT 1", "CREATE TYPE ty AS ENUM ('a')", "UNLISTEN x", "CREATE DATABASE d", "DROP FUNCTION f",
        "SELECT * FROM t1 JOIN t2 ON t1.id = t2.id", "SELECT * FROM t1 LEFT JOIN t2 USING (id)", "SELECT * FROM t1, t2", "SELECT * FROM ONLY t", "SELECT * FROM t AS x", "SELECT * FROM LATERAL (SELECT 1) s",
        "DELETE FROM ONLY t", "UPDATE ONLY t SET a = 1", "INSERT INTO t AS x VALUES (1)", "SELECT pg_user FROM t", "SELECT 1 AS pg_user", "SELECT * FROM t pg_user", "SELECT * FROM t AS pg_user",
        "COPY t (a, b) TO STDOUT", "COPY a.t TO STDOUT", "COPY t FROM STDIN WITH (FORMAT csv)", "COPY t TO '/tmp/x'",
    ];
    for q in qs {
        match qr.parse(&simple_query(q)) {
            Ok(ast) => {
                let kinds: Vec<String> = ast.iter().map(|s| { let d = format!("{:?}", s); d.split(|c: char| !c.is_alphanumeric()).next().unwrap().to_string() }).collect();
                println!("OK   {:60} -> {:?} | {}", q, kinds, ast.iter().map(|s| s.to_string()).collect::<Vec<_>>().join(" ;; "));
            }
            Err(e) => println!("ERR  {:60} -> {:?}", q, e),
        }
    }
}
