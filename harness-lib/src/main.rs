fn main() { pgcat::query_router::QueryRouter::setup(); println!("ok"); }
