//! Shared plumbing: deterministic RNG, per-thread accumulators, message builders,
//! panic capture.  Nothing in here knows anything about pgcat's routing logic.

use bytes::{BufMut, BytesMut};
use serde_json::{json, Value};
use std::collections::{BTreeMap, HashMap, HashSet};
use std::hash::{Hash, Hasher};

/// splitmix64: small, fast, reproducible across platforms.
#[derive(Clone)]
pub struct Rng(pub u64);

impl Rng {
    pub fn new(seed: u64) -> Rng {
        let mut r = Rng(seed ^ 0x9E37_79B9_7F4A_7C15);
        r.next_u64();
        r
    }
    #[inline]
    pub fn next_u64(&mut self) -> u64 {
        self.0 = self.0.wrapping_add(0x9E37_79B9_7F4A_7C15);
        let mut z = self.0;
        z = (z ^ (z >> 30)).wrapping_mul(0xBF58_476D_1CE4_E5B9);
        z = (z ^ (z >> 27)).wrapping_mul(0x94D0_49BB_1331_11EB);
        z ^ (z >> 31)
    }
    #[inline]
    pub fn below(&mut self, n: usize) -> usize {
        debug_assert!(n > 0);
        (self.next_u64() % (n as u64)) as usize
    }
    /// true with probability num/den
    #[inline]
    pub fn chance(&mut self, num: u32, den: u32) -> bool {
        (self.next_u64() % den as u64) < num as u64
    }
    pub fn pick<'a, T>(&mut self, xs: &'a [T]) -> &'a T {
        &xs[self.below(xs.len())]
    }
    pub fn range(&mut self, lo: usize, hi_incl: usize) -> usize {
        lo + self.below(hi_incl - lo + 1)
    }
}

pub fn hash64<T: Hash + ?Sized>(t: &T) -> u64 {
    // FNV-1a through the std Hasher interface: stable across runs (no random keys).
    struct Fnv(u64);
    impl Hasher for Fnv {
        fn finish(&self) -> u64 {
            self.0
        }
        fn write(&mut self, bytes: &[u8]) {
            for b in bytes {
                self.0 ^= *b as u64;
                self.0 = self.0.wrapping_mul(0x0000_0100_0000_01B3);
            }
        }
    }
    let mut h = Fnv(0xcbf2_9ce4_8422_2325);
    t.hash(&mut h);
    h.finish()
}

pub struct Violation {
    pub description: String,
    pub witness: Value,
    pub count: u64,
}

/// Per-thread accumulator; merged in thread-index order so that the kept witness is
/// deterministic for a given (mode, seed, thread count).
#[derive(Default)]
pub struct Acc {
    pub evaluations: u64,
    pub counters: HashMap<String, u64>,
    pub distinct: HashSet<u64>,
    /// named sets whose sizes are reported as counters "distinct:<name>"
    pub sets: HashMap<&'static str, HashSet<u64>>,
    pub samples: Vec<Value>,
    pub violations: BTreeMap<String, Violation>,
    pub assumptions: Vec<String>,
    pub inconclusive: Vec<String>,
}

pub const MAX_SAMPLES: usize = 12;

impl Acc {
    pub fn new() -> Acc {
        Acc::default()
    }
    #[inline]
    pub fn count(&mut self, k: &str) {
        self.add(k, 1);
    }
    pub fn add(&mut self, k: &str, n: u64) {
        if let Some(v) = self.counters.get_mut(k) {
            *v += n;
        } else {
            self.counters.insert(k.to_string(), n);
        }
    }
    pub fn set(&mut self, k: &str, n: u64) {
        self.counters.insert(k.to_string(), n);
    }
    pub fn set_insert(&mut self, name: &'static str, h: u64) {
        self.sets.entry(name).or_default().insert(h);
    }
    pub fn sample(&mut self, v: Value) {
        if self.samples.len() < MAX_SAMPLES {
            self.samples.push(v);
        }
    }
    pub fn violation(&mut self, signature: String, description: String, witness: Value) {
        match self.violations.get_mut(&signature) {
            Some(v) => v.count += 1,
            None => {
                self.violations.insert(
                    signature,
                    Violation {
                        description,
                        witness,
                        count: 1,
                    },
                );
            }
        }
    }
    pub fn has_violation(&self, signature: &str) -> bool {
        self.violations.contains_key(signature)
    }
    pub fn assume(&mut self, s: &str) {
        if !self.assumptions.iter().any(|x| x == s) {
            self.assumptions.push(s.to_string());
        }
    }
    pub fn inconclusive(&mut self, s: &str) {
        if !self.inconclusive.iter().any(|x| x == s) {
            self.inconclusive.push(s.to_string());
        }
    }
    pub fn merge(&mut self, other: Acc) {
        self.evaluations += other.evaluations;
        for (k, v) in other.counters {
            *self.counters.entry(k).or_insert(0) += v;
        }
        self.distinct.extend(other.distinct);
        for (k, v) in other.sets {
            self.sets.entry(k).or_default().extend(v);
        }
        for s in other.samples {
            self.sample(s);
        }
        for (sig, v) in other.violations {
            match self.violations.get_mut(&sig) {
                Some(mine) => mine.count += v.count,
                None => {
                    self.violations.insert(sig, v);
                }
            }
        }
        for a in other.assumptions {
            self.assume(&a);
        }
        for a in other.inconclusive {
            self.inconclusive(&a);
        }
    }
    pub fn to_json(mut self, extra_distinct: u64) -> Value {
        // occurrences per signature go into the counters
        let sigs: Vec<(String, u64)> = self
            .violations
            .iter()
            .map(|(k, v)| (k.clone(), v.count))
            .collect();
        for (k, c) in sigs {
            self.counters.insert(format!("sig:{}", k), c);
        }
        for (k, v) in self.sets.iter() {
            self.counters.insert(format!("distinct:{}", k), v.len() as u64);
        }
        let counters: BTreeMap<String, u64> = self.counters.into_iter().collect();
        let violations: Vec<Value> = self
            .violations
            .into_iter()
            .map(|(sig, v)| {
                json!({
                    "signature": sig,
                    "description": v.description,
                    "witness": v.witness,
                    "occurrences": v.count,
                })
            })
            .collect();
        json!({
            "evaluations": self.evaluations,
            "distinct": self.distinct.len() as u64 + extra_distinct,
            "counters": counters,
            "samples": self.samples,
            "violations": violations,
            "assumptions": self.assumptions,
            "inconclusive": self.inconclusive,
        })
    }
}

/// Run `f(thread_index, n_threads)` on `n` std threads and merge the accumulators
/// in thread order.
pub fn run_threads<F>(n: usize, f: F) -> Acc
where
    F: Fn(usize, usize) -> Acc + Send + Sync + 'static,
{
    let f = std::sync::Arc::new(f);
    let mut handles = Vec::new();
    for i in 0..n {
        let f = f.clone();
        handles.push(
            std::thread::Builder::new()
                .stack_size(64 << 20)
                .spawn(move || f(i, n))
                .expect("spawn"),
        );
    }
    let mut acc = Acc::new();
    for h in handles {
        match h.join() {
            Ok(a) => acc.merge(a),
            Err(_) => {
                eprintln!("pgv-lib: a worker thread of the harness itself panicked");
                std::process::exit(3);
            }
        }
    }
    acc
}

pub fn n_threads() -> usize {
    if let Ok(v) = std::env::var("PGV_THREADS") {
        if let Ok(n) = v.parse::<usize>() {
            if n > 0 {
                return n;
            }
        }
    }
    std::thread::available_parallelism()
        .map(|n| n.get())
        .unwrap_or(4)
        .min(64)
}

/// Call into pgcat, catching panics.  Err(message) = the call panicked.
pub fn guarded<T, F: FnOnce() -> T>(f: F) -> Result<T, String> {
    match std::panic::catch_unwind(std::panic::AssertUnwindSafe(f)) {
        Ok(v) => Ok(v),
        Err(e) => {
            let msg = if let Some(s) = e.downcast_ref::<&str>() {
                s.to_string()
            } else if let Some(s) = e.downcast_ref::<String>() {
                s.clone()
            } else {
                "<non-string panic payload>".to_string()
            };
            Err(msg)
        }
    }
}

/// Build a Parse ('P') message for an unnamed statement, the way a driver does.
pub fn parse_message(query: &str) -> BytesMut {
    let mut res = BytesMut::new();
    res.put_u8(b'P');
    res.put_i32((4 + 1 + query.len() + 1 + 2) as i32);
    res.put_u8(0); // unnamed statement
    res.put_slice(query.as_bytes());
    res.put_u8(0);
    res.put_i16(0); // no parameter type hints
    res
}

pub enum BindParam {
    Text(String),
    Binary(Vec<u8>),
}

/// Build a Bind ('B') message for the unnamed portal/statement.
/// `uniform`: when all parameters share a format, send a single format code.
pub fn bind_message(params: &[BindParam], uniform: bool) -> BytesMut {
    let mut p = BytesMut::new();
    p.put_u8(0); // portal
    p.put_u8(0); // statement
    let codes: Vec<i16> = params
        .iter()
        .map(|x| match x {
            BindParam::Text(_) => 0,
            BindParam::Binary(_) => 1,
        })
        .collect();
    let all_same = codes.windows(2).all(|w| w[0] == w[1]);
    if uniform && all_same && !codes.is_empty() {
        if codes[0] == 0 && params.len() != 1 {
            // zero format codes = all text
            p.put_i16(0);
        } else {
            p.put_i16(1);
            p.put_i16(codes[0]);
        }
    } else {
        p.put_i16(codes.len() as i16);
        for c in &codes {
            p.put_i16(*c);
        }
    }
    p.put_i16(params.len() as i16);
    for x in params {
        match x {
            BindParam::Text(s) => {
                p.put_i32(s.len() as i32);
                p.put_slice(s.as_bytes());
            }
            BindParam::Binary(b) => {
                p.put_i32(b.len() as i32);
                p.put_slice(b);
            }
        }
    }
    p.put_i16(0); // result formats
    let mut res = BytesMut::new();
    res.put_u8(b'B');
    res.put_i32(p.len() as i32 + 4);
    res.put(p);
    res
}

pub fn progress(msg: &str) {
    eprintln!("[pgv-lib] {}", msg);
}
