//! C06 — a sharding key always maps to PostgreSQL's hash partition, by every routing path.
//!
//! The reference below is transcribed from PostgreSQL's sources as the author knows them
//! (src/common/hashfn.c: hash_bytes_uint32_extended, the mix()/final() macros;
//! src/backend/access/hash/hashfunc.c: hashint8extended; src/include/common/hashfn.h:
//! hash_combine64; src/backend/partitioning/partbounds.c: compute_partition_hash_value and
//! the "rowHash % modulus" rule; src/include/catalog/partition.h: HASH_PARTITION_SEED).
//! It was written without consulting the function bodies in /repo/src/sharding.rs.

use crate::util::*;
use bytes::BytesMut;
use pgcat::messages::simple_query;
use pgcat::pool::PoolSettings;
use pgcat::query_router::{Command, QueryRouter};
use pgcat::sharding::{Sharder, ShardingFunction};
use regex::Regex;
use serde_json::json;
use sha1::{Digest, Sha1};

// ------------------------------------------------------------------------------------
// Reference implementation
// ------------------------------------------------------------------------------------
pub mod reference {
    use super::*;

    /// partition.h
    pub const HASH_PARTITION_SEED: u64 = 0x7A5B_2236_7996_DCFD;

    #[inline(always)]
    fn rot(x: u32, k: u32) -> u32 {
        (x << k) | (x >> (32 - k))
    }

    /// hashfn.c: hash_bytes_uint32_extended(k, seed)
    #[inline(always)]
    pub fn hash_bytes_uint32_extended(k: u32, seed: u64) -> u64 {
        // a = b = c = 0x9e3779b9 + (uint32) sizeof(uint32) + 3923095;
        let init: u32 = 0x9e37_79b9u32.wrapping_add(4).wrapping_add(3_923_095);
        let (mut a, mut b, mut c) = (init, init, init);
        if seed != 0 {
            a = a.wrapping_add((seed >> 32) as u32);
            b = b.wrapping_add(seed as u32);
            // mix(a, b, c)
            a = a.wrapping_sub(c);
            a ^= rot(c, 4);
            c = c.wrapping_add(b);
            b = b.wrapping_sub(a);
            b ^= rot(a, 6);
            a = a.wrapping_add(c);
            c = c.wrapping_sub(b);
            c ^= rot(b, 8);
            b = b.wrapping_add(a);
            a = a.wrapping_sub(c);
            a ^= rot(c, 16);
            c = c.wrapping_add(b);
            b = b.wrapping_sub(a);
            b ^= rot(a, 19);
            a = a.wrapping_add(c);
            c = c.wrapping_sub(b);
            c ^= rot(b, 4);
            b = b.wrapping_add(a);
        }
        a = a.wrapping_add(k);
        // final(a, b, c)
        c ^= b;
        c = c.wrapping_sub(rot(b, 14));
        a ^= c;
        a = a.wrapping_sub(rot(c, 11));
        b ^= a;
        b = b.wrapping_sub(rot(a, 25));
        c ^= b;
        c = c.wrapping_sub(rot(b, 16));
        a ^= c;
        a = a.wrapping_sub(rot(c, 4));
        b ^= a;
        b = b.wrapping_sub(rot(a, 14));
        c ^= b;
        c = c.wrapping_sub(rot(b, 24));
        // return ((uint64) b << 32) | c;
        ((b as u64) << 32) | (c as u64)
    }

    /// hashfunc.c: hashint8extended — the 64-bit key is folded to 32 bits so that values
    /// that fit in int4 hash like int4:  lohalf ^= (val >= 0) ? hihalf : ~hihalf.
    #[inline(always)]
    pub fn fold_int8(val: i64) -> u32 {
        let lohalf = val as u32;
        let hihalf = ((val as u64) >> 32) as u32;
        lohalf ^ if val >= 0 { hihalf } else { !hihalf }
    }

    #[inline(always)]
    pub fn hashint8extended(val: i64, seed: u64) -> u64 {
        hash_bytes_uint32_extended(fold_int8(val), seed)
    }

    /// hashfn.h: hash_combine64
    #[inline(always)]
    pub fn hash_combine64(mut a: u64, b: u64) -> u64 {
        a ^= b
            .wrapping_add(0x49a0_f4dd_15e5_a8e3)
            .wrapping_add(a << 54)
            .wrapping_add(a >> 7);
        a
    }

    /// partbounds.c: compute_partition_hash_value for one bigint key column.
    #[inline(always)]
    pub fn partition_hash(key: i64) -> u64 {
        hash_combine64(0, hashint8extended(key, HASH_PARTITION_SEED))
    }

    /// The partition (remainder) PostgreSQL picks for MODULUS n.
    #[inline(always)]
    pub fn pg_partition(key: i64, n: u64) -> u64 {
        partition_hash(key) % n
    }

    /// SHA1 rule.  The repository documents it only as "a hashing function based on SHA1"
    /// (CONFIG.md, pgcat.toml).  The concrete rule used here — SHA-1 of the key's decimal
    /// string, the last 32 bits of the digest (= last 8 hex digits) as an unsigned integer,
    /// modulo the shard count — is the candidate that has to reproduce the 20 shipped
    /// vectors before it is used.
    pub fn sha1_shard(key: i64, n: u64) -> u64 {
        let mut h = Sha1::new();
        h.update(key.to_string().as_bytes());
        let d = h.finalize();
        let l = d.len();
        let tail = u32::from_be_bytes([d[l - 4], d[l - 3], d[l - 2], d[l - 1]]);
        (tail as u64) % n
    }

    /// Vectors shipped in /repo/src/sharding.rs tests (stated there to be the output of
    /// tests/sharding/partition_hash_test_setup.sql on a real PostgreSQL, MODULUS 5).
    pub const PG_VECTORS_MOD5: [&[i64]; 5] = [
        &[1, 4, 5, 14, 19, 39, 40, 46, 47, 53],
        &[2, 3, 11, 17, 21, 23, 30, 49, 51, 54],
        &[6, 7, 15, 16, 18, 20, 25, 28, 34, 35],
        &[8, 12, 13, 22, 29, 31, 33, 36, 41, 43],
        &[9, 10, 24, 26, 27, 32, 37, 38, 42, 45],
    ];
    /// SHA1 vectors (shards = 12, keys 0..19).
    pub const SHA1_VECTORS_MOD12: [u64; 20] = [
        4, 7, 8, 3, 6, 0, 0, 10, 3, 11, 1, 7, 4, 4, 11, 2, 5, 0, 8, 3,
    ];

    /// Because the SQL file does `ORDER BY id LIMIT 10` per partition over keys 1..500, the
    /// vectors also say which small keys are NOT in a partition: every key below the 10th
    /// listed key of partition p that is not listed for p must hash elsewhere.
    pub fn validate_pg() -> Result<u64, String> {
        let mut checked = 0;
        for (p, keys) in PG_VECTORS_MOD5.iter().enumerate() {
            for k in keys.iter() {
                let got = pg_partition(*k, 5);
                if got != p as u64 {
                    return Err(format!(
                        "reference maps key {} to partition {} but the shipped PostgreSQL vector says {}",
                        k, got, p
                    ));
                }
                checked += 1;
            }
            let max = *keys.last().unwrap();
            for k in 1..max {
                if !keys.contains(&k) && pg_partition(k, 5) == p as u64 {
                    return Err(format!(
                        "reference maps key {} to partition {} but the shipped 'first 10 keys' vector for that partition omits it",
                        k, p
                    ));
                }
                checked += 1;
            }
        }
        Ok(checked)
    }

    pub fn validate_sha1() -> Result<u64, String> {
        for (k, want) in SHA1_VECTORS_MOD12.iter().enumerate() {
            let got = sha1_shard(k as i64, 12);
            if got != *want {
                return Err(format!(
                    "SHA1 candidate rule maps key {} to {} but the shipped vector says {}",
                    k, got, want
                ));
            }
        }
        Ok(SHA1_VECTORS_MOD12.len() as u64)
    }
}

pub const SHARD_COUNTS: [usize; 10] = [1, 2, 3, 5, 7, 12, 16, 64, 1000, 65535];

fn boundaries() -> Vec<i64> {
    let mut v: Vec<i64> = vec![
        0,
        1,
        -1,
        2,
        -2,
        i64::MIN,
        i64::MIN + 1,
        i64::MAX,
        i64::MAX - 1,
        1 << 31,
        -(1 << 31),
        (1 << 31) - 1,
        -(1 << 31) - 1,
        (1 << 31) + 1,
        1 << 32,
        -(1 << 32),
        (1 << 32) - 1,
        (1 << 32) + 1,
        -(1 << 32) - 1,
        -(1 << 32) + 1,
        1 << 33,
        1 << 62,
        -(1 << 62),
        0x0000_0001_0000_0001,
        0x7FFF_FFFF_0000_0000,
        0x7FFF_FFFF_FFFF_0000,
        -0x7FFF_FFFF_0000_0000,
        0x0000_FFFF_FFFF_0000,
        i32::MAX as i64,
        i32::MIN as i64,
        i16::MAX as i64,
        i16::MIN as i64,
        u32::MAX as i64,
        u16::MAX as i64,
    ];
    for s in 0..63 {
        v.push(1i64 << s);
        v.push(-(1i64 << s));
        v.push((1i64 << s) - 1);
    }
    v.sort();
    v.dedup();
    v
}

fn key_class(k: i64) -> &'static str {
    let hi = ((k as u64) >> 32) as u32;
    if k >= 0 {
        if hi == 0 {
            "nonneg_hi0"
        } else {
            "nonneg_hi_nonzero"
        }
    } else if hi == 0xFFFF_FFFF {
        "neg_hi_allones"
    } else {
        "neg_hi_other"
    }
}

fn report_hash_mismatch(acc: &mut Acc, func: &str, k: i64, n: usize, expected: u64, got: Result<usize, String>, family: &str) {
    let (got_s, outcome) = match &got {
        Ok(g) => (g.to_string(), "wrong_shard"),
        Err(_) => ("panic".to_string(), "panic"),
    };
    let sig = format!(
        "C06|fn={}|key_class={}|n={}|outcome={}",
        func,
        key_class(k),
        n,
        outcome
    );
    let desc = format!(
        "Sharder::shard({}) with {} shards ({}) gave {} but the PostgreSQL reference gives partition {} [family {}]",
        k, n, func, got_s, expected, family
    );
    acc.violation(
        sig,
        desc,
        json!({"key": k, "key_hex": format!("{:#018x}", k as u64), "shards": n, "function": func,
               "expected": expected, "got": got_s, "fold32": reference::fold_int8(k), "family": family,
               "panic": got.err()}),
    );
}

/// Compare pgcat's PgBigintHash sharder with the reference for one key, all shard counts.
#[inline(always)]
fn check_key_pg(acc: &mut Acc, sharders: &[(usize, Sharder)], k: i64, family: &str) -> u64 {
    let h = reference::partition_hash(k);
    for (n, s) in sharders {
        let want = h % (*n as u64);
        let got = s.shard(k);
        if got as u64 != want {
            report_hash_mismatch(acc, "pg_bigint_hash", k, *n, want, Ok(got), family);
        }
    }
    sharders.len() as u64
}

fn check_key_pg_guarded(acc: &mut Acc, sharders: &[(usize, Sharder)], k: i64, family: &str) -> u64 {
    let h = reference::partition_hash(k);
    for (n, s) in sharders {
        let want = h % (*n as u64);
        match guarded(|| s.shard(k)) {
            Ok(got) if got as u64 == want => {}
            other => report_hash_mismatch(acc, "pg_bigint_hash", k, *n, want, other, family),
        }
    }
    sharders.len() as u64
}

fn check_key_sha1(acc: &mut Acc, sharders: &[(usize, Sharder)], k: i64, family: &str) -> u64 {
    for (n, s) in sharders {
        let want = reference::sha1_shard(k, *n as u64);
        match guarded(|| s.shard(k)) {
            Ok(got) if got as u64 == want => {}
            other => report_hash_mismatch(acc, "sha1", k, *n, want, other, family),
        }
    }
    sharders.len() as u64
}

fn mk_sharders(f: ShardingFunction) -> Vec<(usize, Sharder)> {
    SHARD_COUNTS.iter().map(|n| (*n, Sharder::new(*n, f))).collect()
}

// ------------------------------------------------------------------------------------
// Part 1: Sharder::shard vs reference
// ------------------------------------------------------------------------------------
fn part_hash(thorough: bool, seed: u64, sha1_ok: bool) -> Acc {
    let threads = n_threads();
    // How many values of the folded 32-bit word are swept.
    //
    // Construction: hashint8extended consumes only  w = lo ^ (k >= 0 ? hi : ~hi).
    //  * family A (non-negative, hi = 0):       k = w            -> fold = w ^ 0          = w
    //  * family B (negative, hi = 0xFFFFFFFF):  k = w - 2^32     -> fold = w ^ ~0xFFFFFFFF = w
    //  * family C (non-negative, hi = h != 0):  k = h<<32 | (w^h) -> fold = (w^h)^h        = w
    //  * family D (negative, hi = h|0x80000000): k = h<<32 | (w ^ ~h) -> fold = (w^~h)^~h  = w
    // Letting w run over all of 0..2^32 in family A therefore exercises every input the
    // hash proper can ever see; families B–D check that the fold sends other keys to the
    // same word (the reference computes its fold independently from k).
    let sweep_bits: u32 = if thorough { 32 } else { 24 };
    let total: u64 = 1u64 << sweep_bits;
    let random_per_thread: u64 = if thorough { 100_000_000 } else { 1_000_000 } / threads as u64 + 1;
    let sha1_random_per_thread: u64 = if thorough { 4_000_000 } else { 200_000 } / threads as u64 + 1;

    let acc = run_threads(threads, move |ti, nt| {
        let mut acc = Acc::new();
        let sharders = mk_sharders(ShardingFunction::PgBigintHash);
        let sha1_sharders = mk_sharders(ShardingFunction::Sha1);
        let mut rng = Rng::new(seed.wrapping_mul(1000).wrapping_add(ti as u64));

        // boundaries (thread 0 only), with panic capture
        if ti == 0 {
            for k in boundaries() {
                acc.evaluations += check_key_pg_guarded(&mut acc, &sharders, k, "boundary");
                acc.count("boundary_keys");
                if sha1_ok {
                    acc.evaluations += check_key_sha1(&mut acc, &sha1_sharders, k, "boundary");
                }
                acc.distinct.insert(k as u64);
            }
            // the shipped vectors through pgcat itself as well
            for (p, keys) in reference::PG_VECTORS_MOD5.iter().enumerate() {
                let s = Sharder::new(5, ShardingFunction::PgBigintHash);
                for k in keys.iter() {
                    acc.evaluations += 1;
                    if s.shard(*k) != p {
                        report_hash_mismatch(&mut acc, "pg_bigint_hash", *k, 5, p as u64, Ok(s.shard(*k)), "shipped_vector");
                    }
                }
            }
        }

        // Exhaustive sweep, partitioned in contiguous blocks per thread.  In quick mode the
        // 2^24 words are spread over the whole 32-bit range with a fixed odd stride so that
        // the high bits of the word are exercised too.
        let per = total / nt as u64;
        let lo = per * ti as u64;
        let hi = if ti == nt - 1 { total } else { lo + per };
        let stride_mode = sweep_bits < 32;
        let res = guarded(|| {
            let mut n_eval = 0u64;
            let mut local = Acc::new();
            for i in lo..hi {
                let w: u32 = if stride_mode {
                    // bijection on u32 (odd multiplier), take the first 2^24 indices
                    (i as u32).wrapping_mul(0x9E37_79B1).wrapping_add(seed as u32)
                } else {
                    i as u32
                };
                // family A
                n_eval += check_key_pg(&mut local, &sharders, w as i64, "A:nonneg_hi0");
                // family B
                let kb = (w as i64) - (1i64 << 32);
                n_eval += check_key_pg(&mut local, &sharders, kb, "B:neg_hi_allones");
                if (i & 0xFFF_FFFF) == 0 && i != lo {
                    // progress roughly every 2^28 words
                }
            }
            (n_eval, local)
        });
        match res {
            Ok((n_eval, local)) => {
                acc.evaluations += n_eval;
                acc.add("sweep_words_family_A", hi - lo);
                acc.add("sweep_words_family_B", hi - lo);
                acc.merge(local);
            }
            Err(p) => {
                acc.violation(
                    "C06|fn=pg_bigint_hash|sweep|outcome=panic".to_string(),
                    format!("Sharder::shard panicked during the sweep of words {}..{}: {}", lo, hi, p),
                    json!({"range": [lo, hi], "panic": p}),
                );
            }
        }
        if ti == 0 {
            progress(&format!("C06: sweep of 2^{} folded words done on thread 0", sweep_bits));
        }

        // families C and D with random high halves, and uniformly random i64
        for j in 0..random_per_thread {
            let r = rng.next_u64();
            let k = r as i64;
            acc.evaluations += check_key_pg(&mut acc, &sharders, k, "random_i64");
            if j % 4 == 0 {
                let w = rng.next_u64() as u32;
                let h = (rng.next_u64() as u32) & 0x7FFF_FFFF;
                let kc = (((h as u64) << 32) | ((w ^ h) as u64)) as i64;
                debug_assert!(kc >= 0);
                acc.evaluations += check_key_pg(&mut acc, &sharders, kc, "C:nonneg_hi_random");
                let hn = h | 0x8000_0000;
                let kd = (((hn as u64) << 32) | ((w ^ !hn) as u64)) as i64;
                debug_assert!(kd < 0);
                acc.evaluations += check_key_pg(&mut acc, &sharders, kd, "D:neg_hi_random");
                // all four families must agree on the partition of word w (reference-side
                // sanity: guards the construction comment above)
                if reference::fold_int8(kc) != w || reference::fold_int8(kd) != w {
                    eprintln!("pgv-lib: internal error: fold construction broken");
                    std::process::exit(3);
                }
                acc.add("random_keys_family_CD", 2);
            }
        }
        acc.add("random_i64_keys", random_per_thread);

        if sha1_ok {
            for _ in 0..sha1_random_per_thread {
                let k = match rng.below(4) {
                    0 => rng.next_u64() as i64,
                    1 => (rng.next_u64() % 1_000_000) as i64,
                    2 => -((rng.next_u64() % 1_000_000) as i64),
                    _ => (rng.next_u64() >> rng.below(64)) as i64,
                };
                acc.evaluations += check_key_sha1(&mut acc, &sha1_sharders, k, "random");
            }
            acc.add("sha1_random_keys", sha1_random_per_thread);
        }
        acc
    });
    acc
}

// ------------------------------------------------------------------------------------
// Part 2: path agreement
// ------------------------------------------------------------------------------------
pub fn sharded_settings(n: usize, f: ShardingFunction, with_regex: bool, auto_key: Option<&str>) -> PoolSettings {
    PoolSettings {
        shards: n,
        query_parser_enabled: true,
        query_parser_read_write_splitting: true,
        primary_reads_enabled: true,
        sharding_function: f,
        automatic_sharding_key: auto_key.map(|s| s.to_string()),
        // as documented in CONFIG.md / pgcat.toml
        sharding_key_regex: if with_regex {
            Some(Regex::new(r"/\* sharding_key: (\d+) \*/").unwrap())
        } else {
            None
        },
        shard_id_regex: if with_regex {
            Some(Regex::new(r"/\* shard_id: (\d+) \*/").unwrap())
        } else {
            None
        },
        regex_search_limit: 1000,
        db: "shdb".to_string(),
        ..Default::default()
    }
}

pub fn ref_shard_pub(f: ShardingFunction, k: i64, n: usize) -> usize {
    ref_shard(f, k, n)
}

fn ref_shard(f: ShardingFunction, k: i64, n: usize) -> usize {
    match f {
        ShardingFunction::PgBigintHash => reference::pg_partition(k, n as u64) as usize,
        ShardingFunction::Sha1 => reference::sha1_shard(k, n as u64) as usize,
    }
}

fn fresh(ps: &PoolSettings) -> QueryRouter {
    let mut qr = QueryRouter::new();
    qr.update_pool_settings(ps);
    qr.set_default_role();
    qr
}

/// What the client loop does with one message before picking a server.
fn feed(qr: &mut QueryRouter, msg: &BytesMut) -> Result<Option<(Command, String)>, String> {
    guarded(|| {
        let r = qr.try_execute_command(msg);
        if r.is_some() {
            return r;
        }
        match msg[0] {
            b'Q' | b'P' => {
                if qr.query_parser_enabled() {
                    if let Ok(ast) = qr.parse(msg) {
                        let _ = qr.infer(&ast);
                    }
                }
            }
            b'B' => {
                if qr.query_parser_enabled() {
                    qr.infer_shard_from_bind(msg);
                }
            }
            _ => {}
        }
        None
    })
}

struct PathCase {
    path: &'static str,
    msgs: Vec<BytesMut>,
    text: String,
    /// must the path recognise the key (true) or may it decline (false)?
    must: bool,
}

fn key_text_class(k: i64, text: &str) -> &'static str {
    if k < 0 {
        "negative"
    } else if text.len() > 1 && text.starts_with('0') {
        "leading_zeros"
    } else {
        "nonneg_decimal"
    }
}

fn path_cases(k: i64, rng: &mut Rng) -> Vec<PathCase> {
    let mut v = Vec::new();
    let nonneg = k >= 0;
    let ktxt = if nonneg && rng.chance(1, 10) {
        format!("{}{}", "0".repeat(rng.range(1, 3)), k)
    } else {
        k.to_string()
    };
    let q = |s: String| simple_query(&s);

    // 1. SET SHARDING KEY TO (documented: quoted; unquoted accepted too)
    if nonneg {
        let s = if rng.chance(1, 2) {
            format!("SET SHARDING KEY TO '{}'", ktxt)
        } else {
            format!("SET SHARDING KEY TO {}", ktxt)
        };
        v.push(PathCase { path: "set_sharding_key", msgs: vec![q(s.clone())], text: s, must: true });
    }
    // 2. comment regex, simple and Parse message
    if nonneg {
        let s = format!("/* sharding_key: {} */ SELECT * FROM foo WHERE x = 1", ktxt);
        v.push(PathCase { path: "comment_regex_Q", msgs: vec![q(s.clone())], text: s.clone(), must: true });
        v.push(PathCase { path: "comment_regex_P", msgs: vec![parse_message(&s)], text: s, must: true });
    }
    // 3. literals with automatic_sharding_key = data.id
    let lit: Vec<(&'static str, String)> = vec![
        ("literal_where", format!("SELECT * FROM data WHERE id = {}", ktxt)),
        ("literal_where_qualified", format!("SELECT * FROM data WHERE data.id = {}", ktxt)),
        ("literal_where_schema", format!("SELECT a, b FROM public.data WHERE id = {}", ktxt)),
        ("literal_where_and", format!("SELECT * FROM data WHERE v = 'x' AND id = {}", ktxt)),
        ("literal_join_on", format!("SELECT * FROM data INNER JOIN t2 ON data.id = {} AND t2.data_id = data.id", ktxt)),
        ("literal_insert_values", format!("INSERT INTO data (id, v) VALUES ({}, 'x')", ktxt)),
        ("literal_insert_values_2nd", format!("INSERT INTO data (v, id) VALUES ('x', {})", ktxt)),
        ("literal_update_where", format!("UPDATE data SET v = 'y' WHERE id = {}", ktxt)),
        ("literal_delete_where", format!("DELETE FROM data WHERE id = {}", ktxt)),
    ];
    for (p, s) in lit {
        // a negative literal is "-" applied to a number: outside the MUST set
        v.push(PathCase { path: p, msgs: vec![q(s.clone())], text: s.clone(), must: nonneg });
        if p == "literal_where" || p == "literal_insert_values" {
            let pp: &'static str = if p == "literal_where" { "literal_where_P" } else { "literal_insert_values_P" };
            v.push(PathCase { path: pp, msgs: vec![parse_message(&s)], text: s, must: nonneg });
        }
    }
    // 4./5. Bind parameters
    let stmt1 = "SELECT * FROM data WHERE id = $1";
    let stmt2 = "SELECT * FROM data WHERE v = $1 AND id = $2";
    let stmt3 = "INSERT INTO data (id, v) VALUES ($1, $2)";
    v.push(PathCase {
        path: "bind_text",
        msgs: vec![parse_message(stmt1), bind_message(&[BindParam::Text(ktxt.clone())], rng.chance(1, 2))],
        text: format!("{} / Bind text '{}'", stmt1, ktxt),
        must: nonneg,
    });
    v.push(PathCase {
        path: "bind_text_2nd_param",
        msgs: vec![
            parse_message(stmt2),
            bind_message(&[BindParam::Text("abc".into()), BindParam::Text(ktxt.clone())], rng.chance(1, 2)),
        ],
        text: format!("{} / Bind text 'abc','{}'", stmt2, ktxt),
        must: nonneg,
    });
    v.push(PathCase {
        path: "bind_text_with_numeric_nonkey_param",
        msgs: vec![
            parse_message(stmt2),
            bind_message(&[BindParam::Text("77".into()), BindParam::Text(ktxt.clone())], rng.chance(1, 2)),
        ],
        text: format!("{} / Bind text '77','{}'", stmt2, ktxt),
        must: nonneg,
    });
    v.push(PathCase {
        path: "bind_text_insert",
        msgs: vec![
            parse_message(stmt3),
            bind_message(&[BindParam::Text(ktxt.clone()), BindParam::Text("abc".into())], false),
        ],
        text: format!("{} / Bind text '{}','abc'", stmt3, ktxt),
        must: nonneg,
    });
    v.push(PathCase {
        path: "bind_binary_8",
        msgs: vec![parse_message(stmt1), bind_message(&[BindParam::Binary(k.to_be_bytes().to_vec())], true)],
        text: format!("{} / Bind binary int8 {}", stmt1, k),
        must: nonneg,
    });
    v.push(PathCase {
        path: "bind_binary_8_mixed_formats",
        msgs: vec![
            parse_message(stmt2),
            bind_message(&[BindParam::Text("abc".into()), BindParam::Binary(k.to_be_bytes().to_vec())], false),
        ],
        text: format!("{} / Bind text 'abc', binary int8 {}", stmt2, k),
        must: nonneg,
    });
    if k >= i32::MIN as i64 && k <= i32::MAX as i64 {
        v.push(PathCase {
            path: "bind_binary_4",
            msgs: vec![parse_message(stmt1), bind_message(&[BindParam::Binary((k as i32).to_be_bytes().to_vec())], true)],
            text: format!("{} / Bind binary int4 {}", stmt1, k),
            must: false, // the column is bigint; an int4 image is accepted by the code but not required
        });
    }
    if k >= i16::MIN as i64 && k <= i16::MAX as i64 {
        v.push(PathCase {
            path: "bind_binary_2",
            msgs: vec![parse_message(stmt1), bind_message(&[BindParam::Binary((k as i16).to_be_bytes().to_vec())], true)],
            text: format!("{} / Bind binary int2 {}", stmt1, k),
            must: false,
        });
    }
    v
}

fn gen_path_key(rng: &mut Rng) -> i64 {
    match rng.below(10) {
        0 | 1 | 2 => (rng.next_u64() % 100_000) as i64,
        3 | 4 => (rng.next_u64() >> 1) as i64,                // any non-negative i64
        5 => (rng.next_u64() >> (1 + rng.below(62))) as i64, // log-uniform non-negative
        6 => rng.next_u64() as i64,                          // any (half negative)
        7 => -((rng.next_u64() % 100_000) as i64),
        8 => *rng.pick(&[0, 1, i64::MAX, i64::MAX - 1, 1 << 31, 1 << 32, (1 << 31) - 1, (1 << 32) - 1, 32767, 32768, 2147483647, 2147483648]),
        _ => (rng.next_u64() % 70_000) as i64 - 35_000,
    }
}

fn part_paths(thorough: bool, seed: u64, sha1_ok: bool) -> Acc {
    let threads = n_threads();
    let keys_total: u64 = if thorough { 2_000_000 } else { 100_000 };
    let per_thread = keys_total / threads as u64 + 1;
    run_threads(threads, move |ti, _nt| {
        let mut acc = Acc::new();
        let mut rng = Rng::new(seed.wrapping_mul(7777).wrapping_add(ti as u64 + 500));
        for i in 0..per_thread {
            let n = *rng.pick(&SHARD_COUNTS[1..]); // n = 1 makes every answer 0
            let f = if sha1_ok && rng.chance(1, 8) {
                ShardingFunction::Sha1
            } else {
                ShardingFunction::PgBigintHash
            };
            let fname = if f == ShardingFunction::Sha1 { "sha1" } else { "pg_bigint_hash" };
            let ps = sharded_settings(n, f, true, Some("data.id"));
            let k = gen_path_key(&mut rng);
            let want_ref = ref_shard(f, k, n);
            let want_sharder = match guarded(|| Sharder::new(n, f).shard(k)) {
                Ok(s) => s,
                Err(_) => continue, // reported by part 1
            };
            acc.distinct.insert(hash64(&(k, n, fname)));
            acc.count("path_keys");
            for case in path_cases(k, &mut rng) {
                let mut qr = fresh(&ps);
                let mut panicked = None;
                for m in &case.msgs {
                    if let Err(p) = feed(&mut qr, m) {
                        panicked = Some(p);
                        break;
                    }
                }
                acc.evaluations += 1;
                let kc = key_text_class(k, &case.text);
                acc.count(&format!("path:{}", case.path));
                let got = qr.shard();
                let outcome: Option<(&str, String)> = if let Some(p) = &panicked {
                    Some(("panic", p.clone()))
                } else {
                    match got {
                        Some(s) if s == want_sharder && s == want_ref => {
                            acc.count(&format!("path_chose_right:{}", case.path));
                            None
                        }
                        Some(s) => Some(("wrong_shard", s.to_string())),
                        None => {
                            if case.must {
                                Some(("declined", "None".to_string()))
                            } else {
                                acc.count(&format!("path_declined_allowed:{}", case.path));
                                acc.count("dont_care");
                                None
                            }
                        }
                    }
                };
                if i == 0 && ti == 0 {
                    acc.sample(json!({"path": case.path, "input": case.text, "key": k, "shards": n, "function": fname,
                                      "observed_shard": got, "sharder_shard": want_sharder, "reference": want_ref}));
                }
                if let Some((o, detail)) = outcome {
                    // the hash function only matters when a shard WAS chosen
                    let sig = if o == "wrong_shard" {
                        format!("C06|path={}|fn={}|key={}|outcome={}", case.path, fname, kc, o)
                    } else {
                        format!("C06|path={}|key={}|outcome={}", case.path, kc, o)
                    };
                    let desc = format!(
                        "path {}: input `{}` (key {}, {} shards, {}) -> QueryRouter::shard() = {:?} ({}), Sharder::shard = {}, reference = {}",
                        case.path, case.text, k, n, fname, got, detail, want_sharder, want_ref
                    );
                    acc.violation(sig, desc, json!({"path": case.path, "input": case.text, "key": k, "shards": n,
                        "function": fname, "observed": got, "sharder": want_sharder, "reference": want_ref, "detail": detail}));
                }
            }
        }
        acc
    })
}

// ------------------------------------------------------------------------------------
// Part 3: sequences of shard-selecting commands (stickiness, SHOW SHARD)
// ------------------------------------------------------------------------------------
fn part_sequences(thorough: bool, seed: u64) -> Acc {
    let threads = n_threads();
    let total: u64 = if thorough { 2_000_000 } else { 100_000 };
    let per_thread = total / threads as u64 + 1;
    run_threads(threads, move |ti, _| {
        let mut acc = Acc::new();
        let mut rng = Rng::new(seed.wrapping_mul(31337).wrapping_add(ti as u64 + 900));
        for it in 0..per_thread {
            let n = *rng.pick(&SHARD_COUNTS[1..]);
            let f = ShardingFunction::PgBigintHash;
            let ps = sharded_settings(n, f, true, Some("data.id"));
            let mut qr = fresh(&ps);
            // model: the shard that must be selected now (None = nothing selected yet)
            let mut model: Option<usize> = None;
            let len = rng.range(2, 6);
            let mut trace: Vec<String> = Vec::new();
            let mut shape: Vec<&'static str> = Vec::new();
            for _ in 0..len {
                let step = rng.below(9);
                let (name, text, msgs): (&'static str, String, Vec<BytesMut>) = match step {
                    0 => {
                        let s = rng.below(n);
                        model = Some(s);
                        let t = if rng.chance(1, 2) { format!("SET SHARD TO '{}'", s) } else { format!("set shard to {};", s) };
                        ("set_shard", t.clone(), vec![simple_query(&t)])
                    }
                    1 => {
                        let k = (rng.next_u64() >> 1) as i64;
                        model = Some(ref_shard(f, k, n));
                        let t = format!("SET SHARDING KEY TO '{}'", k);
                        ("set_sharding_key", t.clone(), vec![simple_query(&t)])
                    }
                    2 => {
                        let s = rng.below(n);
                        model = Some(s);
                        let t = format!("/* shard_id: {} */ SELECT * FROM foo", s);
                        ("comment_shard_id", t.clone(), vec![simple_query(&t)])
                    }
                    3 => {
                        let k = (rng.next_u64() % 1_000_000) as i64;
                        model = Some(ref_shard(f, k, n));
                        let t = format!("/* sharding_key: {} */ SELECT * FROM foo", k);
                        ("comment_sharding_key", t.clone(), vec![simple_query(&t)])
                    }
                    4 => {
                        let k = (rng.next_u64() % 1_000_000) as i64;
                        model = Some(ref_shard(f, k, n));
                        let t = format!("SELECT * FROM data WHERE id = {}", k);
                        ("auto_literal", t.clone(), vec![simple_query(&t)])
                    }
                    5 => {
                        // statement without any key: the selection must persist
                        let t = rng.pick(&[
                            "SELECT * FROM other WHERE x = 5",
                            "SELECT 1",
                            "INSERT INTO other (x) VALUES (7)",
                            "UPDATE other SET x = 1 WHERE y = 2",
                            "SELECT * FROM data WHERE v = 'id = 5'",
                            "BEGIN",
                        ]).to_string();
                        ("keyless_statement", t.clone(), vec![simple_query(&t)])
                    }
                    6 => {
                        let t = "SELECT * FROM other WHERE x = $1".to_string();
                        ("keyless_parse_bind", format!("{} / Bind '9'", t), vec![parse_message(&t), bind_message(&[BindParam::Text("9".into())], true)])
                    }
                    7 => {
                        let k = (rng.next_u64() % 1_000_000) as i64;
                        model = Some(ref_shard(f, k, n));
                        let t = "SELECT * FROM data WHERE id = $1".to_string();
                        ("auto_bind", format!("{} / Bind '{}'", t, k), vec![parse_message(&t), bind_message(&[BindParam::Text(k.to_string())], true)])
                    }
                    _ => ("show_shard", "SHOW SHARD".to_string(), vec![simple_query("SHOW SHARD")]),
                };
                trace.push(text.clone());
                shape.push(name);
                let mut last = None;
                let mut panicked = None;
                for m in &msgs {
                    match feed(&mut qr, m) {
                        Ok(r) => last = r,
                        Err(p) => {
                            panicked = Some(p);
                            break;
                        }
                    }
                }
                acc.evaluations += 1;
                acc.count(&format!("seq_step:{}", name));
                if let Some(p) = panicked {
                    acc.violation(
                        format!("C06|seq|step={}|outcome=panic", name),
                        format!("sequence {:?}: step `{}` panicked: {}", trace, text, p),
                        json!({"trace": trace, "shards": n, "panic": p}),
                    );
                    break;
                }
                let prev = if shape.len() >= 2 { shape[shape.len() - 2] } else { "start" };
                if name == "show_shard" {
                    if let Some(m) = model {
                        let ok = matches!(&last, Some((Command::ShowShard, v)) if v.parse::<usize>().ok() == Some(m));
                        if !ok {
                            acc.violation(
                                format!("C06|seq|step=show_shard|after={}|outcome=wrong_report", prev),
                                format!("sequence {:?} ({} shards): SHOW SHARD answered {:?} but shard {} had been selected", trace, n, last, m),
                                json!({"trace": trace, "shards": n, "expected": m, "got": format!("{:?}", last)}),
                            );
                        } else {
                            acc.count("seq_show_shard_ok");
                        }
                    } else {
                        acc.count("dont_care"); // nothing selected yet: reply not fixed by the docs
                    }
                }
                if let Some(m) = model {
                    if qr.shard() != Some(m) {
                        acc.violation(
                            format!("C06|seq|step={}|outcome=selection_not_kept", name),
                            format!("sequence {:?} ({} shards): after `{}` QueryRouter::shard() = {:?}, expected {}", trace, n, text, qr.shard(), m),
                            json!({"trace": trace, "shards": n, "expected": m, "got": qr.shard()}),
                        );
                        break;
                    } else if name == "keyless_statement" || name == "keyless_parse_bind" {
                        acc.count("seq_sticky_ok");
                    }
                }
            }
            acc.distinct.insert(hash64(&shape));
            if it == 0 && ti == 0 {
                acc.sample(json!({"sequence": trace, "shards": n, "final_shard": qr.shard(), "model": model}));
            }
        }
        acc
    })
}

pub fn run(thorough: bool, seed: u64) -> Acc {
    let mut acc = Acc::new();
    acc.assume("The reference (hashint8extended fold, hash_bytes_uint32_extended with seed 0x7A5B22367996DCFD, hash_combine64(0, h), h % modulus) is an independent transcription of PostgreSQL's hashfn.c/hashfunc.c/partbounds.c; no PostgreSQL server is available, so it is anchored only by the 50 MODULUS-5 vectors shipped in src/sharding.rs (small positive keys) plus the 'first ten keys per partition' exclusion they imply.");
    acc.assume("Agreement on negative keys and keys with a non-zero high half rests on the reference's transcription of the fold  lo ^ (k >= 0 ? hi : ~hi)  being right.");
    acc.assume("remainder r of MODULUS n is served by shard r (as tests/sharding/query_routing_setup.sql sets up).");

    match reference::validate_pg() {
        Ok(n) => {
            acc.set("reference_vectors_checked_pg", n);
        }
        Err(e) => {
            acc.inconclusive(&format!("reference disagrees with the shipped PostgreSQL vectors, C06 not judged: {}", e));
            return acc;
        }
    }
    let sha1_ok = match reference::validate_sha1() {
        Ok(n) => {
            acc.set("reference_vectors_checked_sha1", n);
            acc.assume("SHA1 rule: the docs only say 'a hashing function based on SHA1'; the rule checked is SHA-1(decimal string of key), last 32 bits of the digest, modulo shard count — the candidate that reproduces all 20 shipped vectors.");
            true
        }
        Err(e) => {
            acc.inconclusive(&format!("SHA1 candidate rule disagrees with the shipped vectors; sha1 function not judged: {}", e));
            false
        }
    };

    progress("C06: part 1 (Sharder vs reference)");
    let t0 = std::time::Instant::now();
    let a1 = part_hash(thorough, seed, sha1_ok);
    let swept = *a1.counters.get("sweep_words_family_A").unwrap_or(&0);
    let sweep_panicked = a1.has_violation("C06|fn=pg_bigint_hash|sweep|outcome=panic");
    acc.merge(a1);
    // distinct keys of the sweep are not kept in a set (2^33 entries); they are distinct by
    // construction (family A and B are disjoint, each a bijection on the word).
    acc.set("sweep_distinct_keys", swept * 2);
    acc.set("exhaustive_u32", if thorough && swept == (1u64 << 32) && !sweep_panicked { 1 } else { 0 });
    progress(&format!("C06: part 1 done in {:.1}s", t0.elapsed().as_secs_f64()));

    progress("C06: part 2 (path agreement)");
    acc.merge(part_paths(thorough, seed, sha1_ok));
    progress("C06: part 3 (command sequences)");
    acc.merge(part_sequences(thorough, seed));
    acc.set("seconds", t0.elapsed().as_secs());
    acc
}

/// number of distinct inputs that are distinct by construction and not stored in the set
pub fn extra_distinct(acc: &Acc) -> u64 {
    *acc.counters.get("sweep_distinct_keys").unwrap_or(&0)
}
